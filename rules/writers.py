"""RF5 — bounded output: functions that write into (buf, bsz) never store beyond bsz bytes and never return more than bsz.

Proof by case split on the capacity (bsz = 0, 1, ..., K-1 exactly, and bsz >= K) with the interval analysis run once
per case; relational facts (i < bsz, n = bsz - 1, ...) discharge the stores whose index is not a constant.
Calls to other writers are discharged with their summaries (max bytes written W, bounded by their own size argument),
which are computed by the same analysis (leaf writers first).
"""
from core import (strip, kids, const_of, call_args, expr_text, walk, AnalysisBroken, CASTS)
from intervals import Intervals, strip_casts

UNBOUNDED_RESULT = {"snprintf", "vsnprintf", "sprintf"}      # return the would-be length
EXTERNAL_BOUNDED = {"strftime": 1}                          # returns <= size arg (index of size arg)


def writer_params(fn):
    """(buf param, size param, index of buf) for (char *buf, size_t bsz, ...) and (char *dst, const char *src, size_t dsz)"""
    ps = fn.params
    for i in range(len(ps) - 1):
        t0 = fn.tu.types[ps[i]["t"]]
        if not (t0.get("ptr") and t0["c"].startswith("char *")):
            continue
        for j in range(i + 1, min(i + 3, len(ps))):
            t1 = fn.tu.types[ps[j]["t"]]
            if t1.get("int") and not t1.get("sg") and t1.get("w") == 64:
                if j == i + 1:
                    return ps[i], ps[j], i
                mid = fn.tu.types[ps[i + 1]["t"]]
                if mid.get("ptr") and mid["c"].startswith("const char *"):
                    return ps[i], ps[j], i
            if not (t1.get("ptr") and t1["c"].startswith("const ")):
                break
    return None


class Summary:
    def __init__(self, name, maxw, bounded_by_size, ret_bounded, buf_idx, size_idx=None):
        self.name = name
        self.size_idx = size_idx if size_idx is not None else buf_idx + 1
        self.maxw = maxw                    # max bytes written for any capacity (None = only bounded by the size argument)
        self.bounded_by_size = bounded_by_size
        self.ret_bounded = ret_bounded      # return value <= min(maxw, size)
        self.buf_idx = buf_idx


def _base_off(fn, e, buf_d):
    """pointer expression relative to parameter buf: `buf`, `buf + c`, `buf + var` -> (offset node or const) else None"""
    e = strip_casts(e)
    if e is None:
        return None
    if e.get("k") == "DeclRefExpr" and e["d"] == buf_d:
        return ("const", 0)
    if e.get("k") == "BinaryOperator" and e.get("op") == "+":
        a, b = strip_casts(e["c"][0]), e["c"][1]
        if a is not None and a.get("k") == "DeclRefExpr" and a["d"] == buf_d:
            c = const_of(b)
            return ("const", c) if c is not None else ("expr", b)
    return None


class WriterCheck:
    def __init__(self, fn, summaries, pre_lo=0):
        self.fn = fn
        self.summaries = summaries
        self.pre_lo = pre_lo
        wp = writer_params(fn)
        if wp is None:
            raise AnalysisBroken("%s is not a (buf, bsz) writer" % fn.name)
        self.buf, self.bsz, self.buf_idx = wp
        self.size_idx = [i for i, p in enumerate(fn.params) if p["d"] == self.bsz["d"]][0]
        self.rel_calls = {"sntrunc": (1, -1)}     # verified separately (result <= z - 1 for z > 0, else 0)
        self.failures = {}       # site -> (node, message)
        self.proved = set()
        self.maxw = 0
        self.ret_ok = True
        self.unbounded_ok = True

    def _call_range(self, iv_holder):
        chk = self

        def rng(iv, n, st):
            cal = n.get("callee")
            s = chk.summaries.get(cal)
            if s is not None and s.ret_bounded:
                args = call_args(n)
                size = iv.eval(args[s.size_idx], st) if len(args) > s.size_idx else (None, None)
                hi = size[1]
                if s.maxw is not None:
                    hi = s.maxw if hi is None else min(hi, s.maxw)
                return (0, hi)
            t = iv.tu.types[n["t"]] if n.get("t") is not None else None
            from intervals import type_range
            return type_range(t)
        return rng

    def run(self):
        fn = self.fn
        # constants written directly decide where the exact cases end
        consts = [0]
        for n in fn.walk():
            if n.get("k") == "ArraySubscriptExpr":
                c = const_of(n["c"][1])
                if c is not None and 0 <= c < 64:
                    consts.append(c)
            if n.get("k") == "BinaryOperator" and n.get("op") in ("<", ">", "<=", ">=", "==") and any(
                    strip_casts(x) is not None and strip_casts(x).get("k") == "DeclRefExpr" and strip_casts(x).get("d") == self.bsz["d"] for x in n["c"]):
                for x in n["c"]:
                    c = const_of(x)
                    if c is not None and 0 <= c < 64:
                        consts.append(c)
        K = min(max(consts) + 3, 24)
        K = max(K, 12)
        cases = [(c, c) for c in range(self.pre_lo, K)] + [(K, None)]
        cal_names = {c.get("callee") for c in fn.calls() if c.get("callee")}
        call_ranges = {nm: self._call_range(None) for nm in cal_names if nm in self.summaries}
        for nm in cal_names & UNBOUNDED_RESULT:
            call_ranges[nm] = (-1, None)
        ptrs = self._buf_derived()
        bounded = {nm: sm.size_idx for nm, sm in self.summaries.items() if sm.ret_bounded}
        for case in cases:
            entry = {self.bsz["d"]: case, self.buf["d"]: (0, 0)}
            iv = Intervals(fn, entry=entry, call_ranges=call_ranges, ptr_keys=ptrs, bounded_calls=bounded)
            iv.zero_keys = {self.buf["d"]}
            iv.rel_calls = dict(self.rel_calls)
            for nm, sm in self.summaries.items():
                if sm.ret_bounded:
                    iv.rel_calls.setdefault(nm, (sm.size_idx, 0))
            iv.run()
            cap = case[0]
            exact = case[1] is not None
            self._check_case(iv, cap, exact)
        return self

    def _buf_derived(self):
        """char pointers whose every definition is an expression over buf / other derived pointers"""
        from core import local_defs
        fn = self.fn
        defs = local_defs(fn)

        def is_ptr(d):
            anyref = [x for x in fn.walk() if x.get("k") in ("DeclRefExpr", "Var") and x.get("d") == d]
            return bool(anyref) and bool(fn.tu.types[anyref[0]["t"]].get("ptr"))
        # greatest fixpoint: start from every pointer that has definitions and throw out those with a definition that mentions a
        # pointer outside the set (so that a cursor and a mark taken from it, each defined through the other, stay in together)
        der = {self.buf["d"]} | {d for d, rhss in defs.items() if rhss and is_ptr(d)}
        changed = True
        while changed:
            changed = False
            for d in sorted(der - {self.buf["d"]}):
                ok = True
                for r in defs.get(d, []):
                    vars_ = [x for x in walk(r) if x.get("k") == "DeclRefExpr" and x.get("dk") in ("var", "parm")
                             and fn.tu.types[x["t"]].get("ptr")]
                    if not vars_ or any(v["d"] not in der for v in vars_):
                        ok = False
                        break
                    if any(x.get("k") == "CallExpr" for x in walk(r) if x is not r) and strip(r).get("k") == "CallExpr":
                        ok = False
                        break
                if not ok:
                    der.discard(d)
                    changed = True
        return der

    def _fail(self, site, node, msg):
        self.failures.setdefault(site, (node, msg))

    def _need(self, iv, node, off, length, what, cap, exact):
        """bytes [off, off+length) relative to buf must lie within cap; off/length are ('const', c) / ('expr', node) / interval"""
        sts = iv.states_at(node)
        if sts is None:
            cur = fn_parent_elem(self.fn, iv, node)
            sts = iv.states_at(cur) if cur is not None else None
        if not sts:
            return      # unreachable in this case
        for st in sts:
            self._need_st(iv, st, node, off, length, what, cap, exact)

    def _need_st(self, iv, st, node, off, length, what, cap, exact):
        bkey = self.bsz["d"]

        def rng(x):
            if x[0] == "const":
                return (x[1], x[1])
            return iv.eval(x[1], st)

        def relc(x):
            # smallest c with x <= bsz + c
            if x[0] == "const":
                return None
            xs = strip(x[1])
            if xs is not None and xs.get("k") == "CallExpr" and xs.get("callee") in iv.rel_calls:
                ai, c0 = iv.rel_calls[xs["callee"]]
                args = call_args(xs)
                la = iv._linear(args[ai]) if ai < len(args) else None
                if la is not None and la[0] is not None:
                    r = iv.rel(st, la[0], bkey)
                    return None if r is None else r + la[1] + c0
            lin = iv._linear(x[1])
            if lin is None or lin[0] is None:
                return None
            r = iv.rel(st, lin[0], bkey)
            return None if r is None else r + lin[1]
        ro, rl = rng(off), rng(length)
        site = what
        hi = None if (ro[1] is None or rl[1] is None) else ro[1] + rl[1]
        ok = hi is not None and hi <= cap
        if not ok and off == ("const", 0):
            c = relc(length)
            ok = c is not None and c <= 0
        if not ok and length[0] == "const":
            c = relc(off)
            ok = c is not None and c + length[1] <= 0
        if not ok and off[0] == "expr" and length[0] == "expr":
            # off + length <= bsz via length <= bsz - off: relation length <= bsz + c with c <= -off.lo
            c = relc(length)
            if c is not None and ro[0] is not None and c <= -ro[1] if ro[1] is not None else False:
                ok = True
        if not ok and off[0] == "expr" and length[0] == "expr":
            # f(p, X - p): writes stay below X; fine if X <= bsz
            sz = strip_casts(length[1])
            if sz is not None and sz.get("k") == "BinaryOperator" and sz.get("op") == "-":
                kx, ky = iv.key_of(sz["c"][0]), iv.key_of(sz["c"][1])
                lo = iv._linear(off[1])
                if kx is not None and lo is not None and lo[0] == ky and lo[1] == 0:
                    r = iv.rel(st, kx, bkey)
                    xr = iv.eval(sz["c"][0], st)
                    if (r is not None and r <= 0) or (xr[1] is not None and xr[1] <= cap):
                        ok = True
        if ok:
            self.proved.add(site)
            if hi is not None and not exact:
                self.maxw = max(self.maxw, hi)
            elif not exact and hi is None:
                self.unbounded_ok = False
        else:
            self._fail(site, node, "%s: offset %s + length %s is not proven <= the capacity when bsz %s %d"
                       % (what, _fmt(ro), _fmt(rl), "==" if exact else ">=", cap))

    def _check_case(self, iv, cap, exact):
        fn = self.fn
        for n in fn.walk():
            k = n.get("k")
            if k == "BinaryOperator" and n.get("op") == "=" or k == "CompoundAssignOperator":
                l = strip_casts(n["c"][0])
                if l is None:
                    continue
                tgt = None
                if l.get("k") == "ArraySubscriptExpr":
                    b = _base_off(fn, l["c"][0], self.buf["d"])
                    if b is not None:
                        idx = l["c"][1]
                        c = const_of(idx)
                        off = ("const", c) if c is not None else ("expr", idx)
                        if b != ("const", 0):
                            # (buf + a)[i]
                            if b[0] == "const" and off[0] == "const":
                                off = ("const", b[1] + off[1])
                            else:
                                continue
                        tgt = off
                elif l.get("k") == "UnaryOperator" and l.get("op") == "*":
                    b = _base_off(fn, l["c"][0], self.buf["d"])
                    if b is not None:
                        tgt = b
                    elif self._is_derived_ptr_expr(l["c"][0], iv):
                        tgt = ("expr", l["c"][0])
                if tgt is None and l.get("k") == "ArraySubscriptExpr" and self._is_derived_ptr_expr(l["c"][0], iv) \
                        and _base_off(fn, l["c"][0], self.buf["d"]) is None:
                    synth = {"k": "BinaryOperator", "op": "+", "c": [l["c"][0], l["c"][1]], "t": strip_casts(l["c"][0]).get("t")}
                    tgt = ("expr", synth)
                if tgt is not None:
                    self._need(iv, n, tgt, ("const", 1), "store %s" % expr_text(l), cap, exact)
            elif k == "CallExpr":
                cal = n.get("callee")
                args = call_args(n)
                if cal in ("memcpy", "memset", "memmove", "__builtin_memcpy", "__builtin_memset") and len(args) >= 3:
                    b = _base_off(fn, args[0], self.buf["d"])
                    if b is not None:
                        c = const_of(args[2])
                        ln = ("const", c) if c is not None else ("expr", args[2])
                        self._need(iv, n, b, ln, "%s(%s, .., %s)" % (cal, expr_text(strip(args[0])), expr_text(strip(args[2]))), cap, exact)
                elif cal in self.summaries or cal in UNBOUNDED_RESULT or cal in EXTERNAL_BOUNDED:
                    if cal in self.summaries:
                        bi = self.summaries[cal].buf_idx
                        si = self.summaries[cal].size_idx
                    else:
                        bi, si = 0, 1
                    if len(args) <= si:
                        continue
                    b = _base_off(fn, args[bi], self.buf["d"])
                    if b is None and self._is_derived_ptr_expr(args[bi], iv):
                        b = ("expr", args[bi])
                    if b is None:
                        continue
                    size = args[si]
                    c = const_of(size)
                    ln = ("const", c) if c is not None else ("expr", size)
                    s = self.summaries.get(cal)
                    if s is not None and s.maxw is not None:
                        # the callee writes at most min(W, size): accept if either bound fits
                        st = iv.state_at(n) or {}
                        sz = iv.eval(size, st) if st is not None else (None, None)
                        w = s.maxw if sz[1] is None else min(s.maxw, sz[1])
                        self._need2(iv, n, b, ln, w, "call %s(%s, %s)" % (cal, expr_text(strip(args[bi])), expr_text(strip(size))), cap, exact)
                    else:
                        self._need(iv, n, b, ln, "call %s(%s, %s)" % (cal, expr_text(strip(args[bi])), expr_text(strip(size))), cap, exact)
            elif k == "ReturnStmt" and kids(n):
                e = kids(n)[0]
                t = fn.tu.types[e["t"]] if e.get("t") is not None else {}
                if not t.get("int"):
                    continue
                c = const_of(e)
                es = strip_casts(e)
                if es is not None and es.get("k") == "BinaryOperator" and es.get("op") == "-":
                    rb = strip_casts(es["c"][1])
                    if rb is not None and rb.get("k") == "DeclRefExpr" and rb["d"] == self.buf["d"]:
                        e = es["c"][0]
                ln = ("const", c) if c is not None else ("expr", e)
                before = dict(self.failures)
                self._need(iv, n, ("const", 0), ln, "return %s" % expr_text(strip(e)), cap, exact)
                if len(self.failures) != len(before):
                    self.ret_ok = False

    def _is_derived_ptr_expr(self, e, iv):
        vs = [x for x in walk(e) if x.get("k") == "DeclRefExpr" and x.get("dk") in ("var", "parm") and self.fn.tu.types[x["t"]].get("ptr")]
        return bool(vs) and all(v["d"] in iv.ptr_keys for v in vs)

    def _need2(self, iv, node, off, ln, w, what, cap, exact):
        """either the size argument fits (relationally) or the callee's constant bound does"""
        site = what
        sts = iv.states_at(node)
        if not sts:
            return
        for st in sts:
            ro = (off[1], off[1]) if off[0] == "const" else iv.eval(off[1], st)
            if ro[1] is not None and ro[1] + w <= cap:
                self.proved.add(site)
                if not exact:
                    self.maxw = max(self.maxw, ro[1] + w)
                continue
            self._need_st(iv, st, node, off, ln, what, cap, exact)


def fn_parent_elem(fn, iv, node):
    cur = fn.parent(node)
    while cur is not None:
        if "i" in cur and fn.cfg.stmt_block(cur["i"]) is not None:
            return cur
        cur = fn.parent(cur)
    return None


def _fmt(r):
    return "[%s, %s]" % ("-inf" if r[0] is None else r[0], "+inf" if r[1] is None else r[1])


def analyse(program_funcs, pre=None, rounds=8):
    """program_funcs: list of Func that are (buf, bsz) writers.  Computes summaries bottom-up (to a fixpoint) and returns
    (summaries, checks) where checks maps function name -> WriterCheck of its last analysis.  A function is re-analysed
    only when the summary of one of its callees changed."""
    pre = pre or {}
    summaries = {}
    checks = {}
    names = {f.name for f in program_funcs}
    callees = {f.name: {c.get("callee") for c in f.calls() if c.get("callee") in names and c.get("callee") != f.name}
               for f in program_funcs}
    seen_input = {}

    def sig(nm):
        return tuple(sorted((c, (summaries[c].maxw, summaries[c].ret_bounded) if c in summaries else None) for c in callees[nm]))

    for _ in range(rounds):
        changed = False
        for fn in program_funcs:
            inp = sig(fn.name)
            if seen_input.get(fn.name) == inp and fn.name in checks:
                continue
            seen_input[fn.name] = inp
            wc = WriterCheck(fn, dict(summaries), pre.get(fn.name, 0)).run()
            checks[fn.name] = wc
            stores_ok = not [s for s in wc.failures if not s.startswith("return")]
            old = summaries.get(fn.name)
            if stores_ok:
                mw = wc.maxw if (wc.unbounded_ok and wc.maxw < (1 << 32)) else None
                new = Summary(fn.name, mw, True, wc.ret_ok, wc.buf_idx, wc.size_idx)
                if old is None or (old.maxw, old.ret_bounded) != (new.maxw, new.ret_bounded):
                    changed = True
                summaries[fn.name] = new
            elif old is not None:
                del summaries[fn.name]
                changed = True
        if not changed:
            break
    return summaries, checks
