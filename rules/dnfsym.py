"""RF-rewrite: every rewrite of __dnf preserves the Boolean function of the expression.

__dnf is executed symbolically on small trees: a root (conjunction or disjunction) whose children are each a value, an opaque
conjunction, or a disjunction of two such leaves.  Node types are tracked exactly (the rewrites branch on them), child slots are a
symbolic heap, make_dexpr() allocates a typed node, dexpr_copy_j() yields a node that means what its argument means.  A recursive
call __dnf(x) is summarised by its contract -- it keeps the meaning of x, but a conjunction may come back as a disjunction: the
run forks, and in the second world x is a disjunction of two fresh leaves whose `or` is what x meant.  At every exit the Boolean
function of the tree (truth table over the leaves, at most 2^6 rows) must equal the function at the entry, and the tree must be a
disjunction-free conjunction, or a disjunction: the matcher evaluates it as it is."""
import itertools
from core import AnalysisBroken, strip, kids, const_of, call_args, expr_text, switch_cases, CASTS


class Undecided(Exception):
    pass


class World:
    def __init__(self):
        self.slot = {}      # (node, 'left'|'right') -> node
        self.typ = {}       # node -> int
        self.mean = {}      # node -> meaning when the node is treated as a leaf: ('var', name) | ('or', n1, n2) | ('same', node)
        self.vars = {}      # decl id -> value (node or int)
        self.n = 0
        self.opaque_conj = set()
        self.init_slot, self.init_typ = {}, {}

    def copy(self):
        w = World()
        w.slot, w.typ, w.mean, w.vars, w.n = dict(self.slot), dict(self.typ), dict(self.mean), dict(self.vars), self.n
        w.opaque_conj = set(self.opaque_conj)
        w.init_slot, w.init_typ = self.init_slot, self.init_typ
        return w

    def new(self, tag):
        self.n += 1
        return "%s%d" % (tag, self.n)


class _Break(Exception):
    pass


class _Return(Exception):
    pass


class Sym:
    def __init__(self, fn, enum):
        self.fn = fn
        self.E = enum          # name -> value
        self.worlds_out = []

    # ---------------------------------------------------------------- expressions; may fork: returns list of (world, value)
    def ev(self, e, w):
        e = strip(e)
        while e is not None and e.get("k") in CASTS and e.get("c"):
            e = strip(e["c"][0])
        if e is None:
            raise Undecided("empty expression")
        k = e.get("k")
        c = const_of(e)
        if c is not None and k != "DeclRefExpr" or (k == "DeclRefExpr" and e.get("dk") not in ("var", "parm") and c is not None):
            return c
        if k == "DeclRefExpr":
            if e["d"] in w.vars:
                return w.vars[e["d"]]
            raise Undecided("variable %s read before it is set" % e.get("n"))
        if k == "MemberExpr":
            nm = e.get("n")
            if not nm:
                return self.ev(e["c"][0], w)
            b = self.ev(e["c"][0], w)
            if nm in ("left", "right"):
                if (b, nm) not in w.slot:
                    raise Undecided("child slot %s of %s is not part of the modelled tree" % (nm, b))
                return w.slot[(b, nm)]
            if nm == "type":
                if b not in w.typ:
                    raise Undecided("type of %s unknown" % b)
                return w.typ[b]
            raise Undecided("member %s" % nm)
        if k == "BinaryOperator":
            op = e.get("op")
            if op == "=":
                v = self.ev(e["c"][1], w)
                self.assign(e["c"][0], v, w)
                return v
            if op == "&&":
                return int(bool(self.ev(e["c"][0], w)) and bool(self.ev(e["c"][1], w)))
            if op == "||":
                return int(bool(self.ev(e["c"][0], w)) or bool(self.ev(e["c"][1], w)))
            a, b = self.ev(e["c"][0], w), self.ev(e["c"][1], w)
            if op == "==":
                return int(a == b)
            if op == "!=":
                return int(a != b)
            raise Undecided("operator %s" % op)
        if k == "UnaryOperator" and e.get("op") == "!":
            return int(not self.ev(e["c"][0], w))
        if k == "CallExpr":
            cal = e.get("callee")
            if cal == "__builtin_expect":
                return self.ev(e["c"][1], w)
            if cal == "make_dexpr":
                n = w.new("new")
                w.typ[n] = self.ev(call_args(e)[0], w)
                return n
            if cal in ("dexpr_copy_j", "dexpr_copy"):
                src = self.ev(call_args(e)[0], w)
                return self.clone(src, w)
            raise Undecided("call of %s" % cal)
        raise Undecided("expression %s" % k)

    def clone(self, src, w):
        n = w.new("copy")
        w.typ[n] = w.typ.get(src)
        if (src, "left") in w.slot or (src, "right") in w.slot:
            for f in ("left", "right"):
                if (src, f) in w.slot:
                    w.slot[(n, f)] = self.clone(w.slot[(src, f)], w)
        else:
            w.mean[n] = ("same", src)
            if src in w.opaque_conj:
                w.opaque_conj.add(n)
        return n

    def assign(self, lhs, v, w):
        l = strip(lhs)
        while l is not None and l.get("k") == "MemberExpr" and not l.get("n"):
            l = strip(l["c"][0])
        if l.get("k") == "DeclRefExpr":
            w.vars[l["d"]] = v
        elif l.get("k") == "MemberExpr" and l.get("n") in ("left", "right"):
            b = self.ev(l["c"][0], w)
            w.slot[(b, l["n"])] = v
        elif l.get("k") == "MemberExpr" and l.get("n") == "type":
            b = self.ev(l["c"][0], w)
            w.typ[b] = v
        else:
            raise Undecided("assignment to %s" % expr_text(l))

    # ---------------------------------------------------------------- statements over a set of worlds
    def st(self, s, worlds):
        """returns the worlds that fall out of the statement normally; worlds that returned are collected in worlds_out"""
        out = []
        k = s.get("k") if s is not None else "NullStmt"
        for w in worlds:
            if k == "CompoundStmt":
                cur = [w]
                for c in kids(s):
                    cur = self.st(c, cur)
                out += cur
            elif k == "DeclStmt":
                for v in kids(s):
                    if v.get("k") == "Var" and kids(v):
                        w.vars[v["d"]] = self.ev(kids(v)[0], w)
                out.append(w)
            elif k == "IfStmt":
                if self.ev(s["c"][0], w):
                    out += self.st(s["c"][1], [w])
                elif len(s["c"]) > 2 and s["c"][2] is not None:
                    out += self.st(s["c"][2], [w])
                else:
                    out.append(w)
            elif k == "SwitchStmt":
                v = self.ev(s["c"][0], w)
                groups = switch_cases(s)
                start = None
                for i, g in enumerate(groups):
                    if any(l["lo"] is not None and l["lo"] <= v <= l["hi"] for l in g["labels"]):
                        start = i
                        break
                if start is None:
                    for i, g in enumerate(groups):
                        if any(l["en"] == "default" for l in g["labels"]):
                            start = i
                            break
                cur = [w]
                if start is not None:
                    try:
                        for g in groups[start:]:
                            for c in g["stmts"]:
                                cur = self.st(c, cur)
                    except _Break as b:
                        cur = b.args[0]
                out += cur
            elif k == "BreakStmt":
                # only used at the end of switch groups in this function: all worlds of this statement break together
                raise _Break(worlds)
            elif k == "ReturnStmt":
                self.worlds_out.append(w)
            elif k == "NullStmt":
                out.append(w)
            elif k == "CallExpr" and s.get("callee") == self.fn.name:
                x = self.ev(call_args(s)[0], w)
                out += self.recurse(x, w)
            elif k in ("BinaryOperator", "CallExpr", "UnaryOperator") or k in CASTS:
                self.ev(s, w)
                out.append(w)
            else:
                raise Undecided("statement %s" % k)
        return out

    def recurse(self, x, w):
        """contract of the recursive call: the meaning of x is kept; an opaque conjunction may come back as a disjunction"""
        if x in w.opaque_conj:
            w2 = w.copy()
            # the opaque subtree x was copied from (copies mean the same thing and split into the same two parts)
            o = x
            while w2.mean.get(o, ("",))[0] == "same":
                o = w2.mean[o][1]
            if w2.mean.get(o, ("",))[0] == "var":
                w2.mean[o] = ("or", o + ".1", o + ".2")
            v1, v2 = w2.mean[o][1], w2.mean[o][2]
            l, r = w2.new("leaf"), w2.new("leaf")
            w2.mean[l], w2.mean[r] = ("var", v1), ("var", v2)
            w2.typ[l] = w2.typ[r] = self.E["DEX_VAL"]
            w2.typ[x] = self.E["DEX_DISJ"]
            w2.slot[(x, "left")], w2.slot[(x, "right")] = l, r
            w2.opaque_conj.discard(x)
            return [w, w2]
        return [w]

    # ---------------------------------------------------------------- meaning
    def leafvars(self, w):
        out = set()
        for m in w.mean.values():
            if m[0] == "var":
                out.add(m[1])
            elif m[0] == "or":
                out.update(m[1:])
        return sorted(out)

    def value(self, n, w, env, seen=(), initial=False):
        if n in seen:
            raise Undecided("cycle through %s" % n)
        slot, typ = (w.init_slot, w.init_typ) if initial else (w.slot, w.typ)
        if (n, "left") in slot and (n, "right") in slot and typ.get(n) in (self.E["DEX_CONJ"], self.E["DEX_DISJ"]):
            a = self.value(slot[(n, "left")], w, env, seen + (n,), initial)
            b = self.value(slot[(n, "right")], w, env, seen + (n,), initial)
            return (a and b) if typ[n] == self.E["DEX_CONJ"] else (a or b)
        m = w.mean.get(n)
        if m is None:
            raise Undecided("node %s (type %s) has no meaning" % (n, w.typ.get(n)))
        if m[0] == "var":
            return env[m[1]]
        if m[0] == "same":
            return self.value(m[1], w, env, seen + (n,), initial)
        if m[0] == "or":
            return env[m[1]] or env[m[2]]
        raise Undecided("meaning %s" % (m,))


def shapes(E):
    """initial trees: (root type, left shape, right shape), shape in VAL / CONJ (opaque) / DISJ of two leaves (each VAL or opaque CONJ)"""
    leaf = ("VAL", "CONJ")
    child = [("VAL",), ("CONJ",)] + [("DISJ", a, b) for a in leaf for b in leaf]
    for rt in ("DEX_CONJ", "DEX_DISJ"):
        for l in child:
            for r in child:
                yield rt, l, r


def build(sym, rt, l, r):
    w = World()
    E = sym.E
    w.typ["ROOT"] = E[rt]

    def mk(shape, name):
        if shape[0] in ("VAL", "CONJ"):
            w.mean[name] = ("var", name)
            w.typ[name] = E["DEX_VAL"] if shape[0] == "VAL" else E["DEX_CONJ"]
            if shape[0] == "CONJ":
                w.opaque_conj.add(name)
        else:
            w.typ[name] = E["DEX_DISJ"]
            for f, sh in (("left", shape[1]), ("right", shape[2])):
                c = name + f[0]
                w.slot[(name, f)] = c
                mk((sh,), c)
    w.slot[("ROOT", "left")] = "L"
    w.slot[("ROOT", "right")] = "R"
    mk(l, "L")
    mk(r, "R")
    w.init_slot, w.init_typ = dict(w.slot), dict(w.typ)
    return w


def describe(rt, l, r):
    def d(s):
        return {"VAL": "v", "CONJ": "(x&y)"}[s[0]] if s[0] != "DISJ" else "(%s|%s)" % (d((s[1],)), d((s[2],)))
    return "%s %s %s" % (d(l), "&&" if rt == "DEX_CONJ" else "||", d(r))


def normal_form(sym, w, n="ROOT", under_conj=False):
    """None if the tree is a disjunction of disjunction-free conjunctions (opaque conjunctions count as such), else the offending node"""
    t = w.typ.get(n)
    if (n, "left") not in w.slot or t not in (sym.E["DEX_CONJ"], sym.E["DEX_DISJ"]):
        return None
    if t == sym.E["DEX_DISJ"] and under_conj:
        return n
    for f in ("left", "right"):
        bad = normal_form(sym, w, w.slot[(n, f)], under_conj or t == sym.E["DEX_CONJ"])
        if bad:
            return bad
    return None


def run(fn, E):
    """-> list of (description, problem or None, worlds)"""
    res = []
    for rt, l, r in shapes(E):
        sym = Sym(fn, E)
        w = build(sym, rt, l, r)
        w.vars[fn.params[0]["d"]] = "ROOT"
        try:
            out = sym.st(fn.body, [w]) + sym.worlds_out
        except _Break as b:
            out = b.args[0] + sym.worlds_out
        problem = None
        for wf in out:
            names = sym.leafvars(wf)
            if len(names) > 10:
                raise Undecided("too many leaves")
            for bits in itertools.product((False, True), repeat=len(names)):
                env = dict(zip(names, bits))
                before = sym.value("ROOT", wf, env, initial=True)
                after = sym.value("ROOT", wf, env)
                if bool(before) != bool(after):
                    problem = "with %s the expression is %s before and %s after" % (
                        ", ".join("%s=%d" % (k, v) for k, v in env.items()), bool(before), bool(after))
                    break
            if problem:
                break
        res.append((describe(rt, l, r), problem, len(out)))
    return res
