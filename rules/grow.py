"""RF-grow: buffers that grow by doubling.

Where room for `n` more bytes is made by doubling the size of a heap buffer, one doubling is enough only for requests that are
smaller than the buffer: a longer key (a path given to --zone, a zone name in a map source) is then copied over the end of the new
block.  The doubling must therefore be repeated until the room test it answers holds (sit inside a loop), or the new size must be
computed from the request.  The rule finds every realloc whose size comes from a doubling and looks at where the doubling stands."""
from core import AnalysisBroken, strip, walk, const_of, expr_text, call_args, CASTS

LOOPS = ("WhileStmt", "DoStmt", "ForStmt")


def _doublings(fn):
    """(node, text of the lvalue doubled)"""
    out = []
    for x in fn.walk():
        if x.get("k") == "CompoundAssignOperator" and x.get("op") == "*=" and const_of(x["c"][1]) == 2:
            out.append((x, expr_text(strip(x["c"][0]))))
        elif x.get("k") == "BinaryOperator" and x.get("op") == "=":
            lt = expr_text(strip(x["c"][0]))
            for y in walk(x["c"][1]):
                if y.get("k") == "BinaryOperator" and y.get("op") == "*" and 2 in (const_of(y["c"][0]), const_of(y["c"][1])) \
                        and lt in (expr_text(strip(y["c"][0])), expr_text(strip(y["c"][1]))):
                    out.append((x, lt))
                    break
    return out


def check(P, R, rule="RF-grow"):
    n = 0
    seen = set()
    for t in P.tus:
        for fn in t.funclist:
            if getattr(fn, "body", None) is None or "/usr/" in fn.file or fn.file.endswith((".yucc", "-parser.c", "-scanner.c")):
                continue
            calls = [c for c in fn.walk() if c.get("k") == "CallExpr" and c.get("callee") == "realloc" and len(call_args(c)) == 2]
            if not calls:
                continue
            dbl = _doublings(fn)
            for c in calls:
                key = (fn.file, fn.name, c.get("l"))
                if key in seen:
                    continue
                seen.add(key)
                size = call_args(c)[1]
                mine = [d for d in dbl if any(z is d[0] for z in walk(size)) or d[1] in expr_text(strip(size))]
                if not mine:
                    continue            # not grown by doubling (grown by a fixed count per element, say)
                n += 1
                R.saw(fn)
                ok = True
                for d, lt in mine:
                    par = fn.parent(d)
                    inloop = False
                    while par is not None:
                        if par.get("k") in LOOPS:
                            inloop = True
                            break
                        par = fn.parent(par)
                    if not inloop:
                        ok = False
                site = "realloc(%s) line %s" % (", ".join(expr_text(strip(a))[:24] for a in call_args(c)), c.get("l"))
                if ok:
                    R.ob(rule, "%s in %s: the size is doubled in a loop, until the request fits" % (site, fn.name), True)
                else:
                    R.finding(rule, fn, site, "the buffer is doubled once where room is short: a request longer than the buffer (a long path or "
                              "name from the command line or an input file) still does not fit and is copied over the end of the new block", c)
    R.floor(rule, "buffers grown by doubling", n, 2)
    return n


def check_lastline(P, R, rule="RF-lastline"):
    """a line read with getline() ends in a newline unless it is the last line of a file that lacks one; a length that drops the
    terminator unconditionally (`nrd - 1`) drops the last character of such a line.  Applied to the map compiler (lib/tzmap.c)."""
    import os
    n = 0
    seen = set()
    for t in P.tus:
        if os.path.basename(t.main) != "tzmap.c":
            continue
        for fn in t.funclist:
            if getattr(fn, "body", None) is None or not fn.file.endswith("tzmap.c"):
                continue
            res = None
            for x in fn.walk():
                if x.get("k") == "BinaryOperator" and x.get("op") == "=" and (strip(x["c"][1]) or {}).get("k") == "CallExpr" \
                        and (strip(x["c"][1]) or {}).get("callee") == "getline":
                    res = strip(x["c"][0])
                if x.get("k") == "Var" and x.get("c") and (strip(x["c"][0]) or {}).get("k") == "CallExpr" and (strip(x["c"][0]) or {}).get("callee") == "getline":
                    res = x
            if res is None:
                continue
            rd = res.get("d")
            for c in fn.walk():
                if c.get("k") != "CallExpr" or c.get("callee") in ("getline", "free"):
                    continue
                for a in call_args(c):
                    a0 = strip(a)
                    while a0 is not None and a0.get("k") in CASTS and a0.get("c"):
                        a0 = strip(a0["c"][0])
                    if a0 is None or a0.get("k") != "BinaryOperator" or a0.get("op") != "-":
                        continue
                    l = strip(a0["c"][0])
                    while l is not None and l.get("k") in CASTS and l.get("c"):
                        l = strip(l["c"][0])
                    if l is None or l.get("k") != "DeclRefExpr" or l.get("d") != rd:
                        continue
                    key = (fn.name, c.get("l"))
                    if key in seen:
                        continue
                    seen.add(key)
                    n += 1
                    R.saw(fn)
                    site = "%s(%s) in %s" % (c.get("callee"), ", ".join(expr_text(strip(z))[:24] for z in call_args(c)), fn.name)
                    if const_of(a0["c"][1]) is not None:
                        R.finding(rule, fn, site, "the line's length is cut by a constant for the newline; the last line of a file need not have "
                                  "one, and then its last character (of the zone name) is dropped", c)
                    else:
                        R.ob(rule, "%s: the newline is taken off the length only where there is one" % site, True)
    R.floor(rule, "line lengths handed on by the map compiler", n, 1)
    return n


def check_prefix_state(P, R, rule="RF8-prefix"):
    """the duration parser keeps what the prefixes of an argument said (`+ - = < > /`) in its state record across the pieces of one
    argument; at the end of the argument everything a prefix can set must be cleared, or it leaks into the next argument (a rounding
    spec after `/1h` is read as a co-class too)"""
    io = P.tu("libdutio_a-dt-io.o")
    fn = io.func("dt_io_strpdtdur")
    if fn is None:
        raise AnalysisBroken("dt_io_strpdtdur vanished")
    R.saw(fn)
    st = fn.params[0]["d"]
    # members set in the prefix switch (stores under a case label whose value is a character)
    sets = {}
    for sw in fn.switches():
        for x in walk(sw):
            if x.get("k") in ("BinaryOperator", "CompoundAssignOperator", "UnaryOperator") and x.get("op") in ("=", "++", "--", "+=", "-=", "|="):
                l = strip(x["c"][0])
                if l is not None and l.get("k") == "MemberExpr" and l.get("arrow") and (strip(l["c"][0]) or {}).get("d") == st:
                    if not (x.get("op") == "=" and const_of(x["c"][1]) == 0):
                        sets.setdefault(l.get("n"), x)
    if not sets:
        raise AnalysisBroken("%s: the prefix switch of dt_io_strpdtdur was not recognised" % rule)
    # the end-of-argument block: the if-statement that clears the continuation pointer
    ends = [i for i in fn.walk() if i.get("k") == "IfStmt" and any(
        y.get("k") == "BinaryOperator" and y.get("op") == "=" and (strip(y["c"][0]) or {}).get("k") == "MemberExpr"
        and (strip(y["c"][0]) or {}).get("n") == "cont" and const_of(y["c"][1]) == 0 for y in walk(i["c"][1]))]
    if not ends:
        raise AnalysisBroken("%s: the end-of-argument block of dt_io_strpdtdur was not recognised" % rule)
    cleared = set()
    for y in walk(ends[-1]["c"][1]):
        if y.get("k") == "BinaryOperator" and y.get("op") == "=" and const_of(y["c"][1]) == 0:
            l = strip(y["c"][0])
            if l is not None and l.get("k") == "MemberExpr" and (strip(l["c"][0]) or {}).get("d") == st:
                cleared.add(l.get("n"))
        if y.get("k") == "CallExpr" and y.get("callee") == "memset":
            cleared |= set(sets)
    n = 0
    for nm, x in sorted(sets.items()):
        n += 1
        if nm in cleared:
            R.ob(rule, "dt_io_strpdtdur: `st->%s`, set by a prefix, is cleared at the end of the argument" % nm, True)
        else:
            R.finding(rule, fn, "st->%s" % nm, "a prefix sets `st->%s` (line %s) and nothing clears it at the end of the argument: the next "
                      "argument is parsed as if it carried the prefix too (`dround T /1h 5m` reads `5m` as `/5m`)" % (nm, x.get("l")), x)
    R.floor(rule, "state members set by prefixes", n, 2)
    return n
