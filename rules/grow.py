"""RF-grow: buffers that grow by doubling.

Where room for `n` more bytes is made by doubling the size of a heap buffer, one doubling is enough only for requests that are
smaller than the buffer: a longer key (a path given to --zone, a zone name in a map source) is then copied over the end of the new
block.  The doubling must therefore be repeated until the room test it answers holds (sit inside a loop), or the new size must be
computed from the request.  The rule finds every realloc whose size comes from a doubling and looks at where the doubling stands."""
from core import AnalysisBroken, strip, walk, const_of, expr_text, call_args, CASTS

LOOPS = ("WhileStmt", "DoStmt", "ForStmt")


def _doublings(fn):
    """(node, text of the lvalue doubled)"""
    out = []
    for x in fn.walk():
        if x.get("k") == "CompoundAssignOperator" and x.get("op") == "*=" and const_of(x["c"][1]) == 2:
            out.append((x, expr_text(strip(x["c"][0]))))
        elif x.get("k") == "BinaryOperator" and x.get("op") == "=":
            lt = expr_text(strip(x["c"][0]))
            for y in walk(x["c"][1]):
                if y.get("k") == "BinaryOperator" and y.get("op") == "*" and 2 in (const_of(y["c"][0]), const_of(y["c"][1])) \
                        and lt in (expr_text(strip(y["c"][0])), expr_text(strip(y["c"][1]))):
                    out.append((x, lt))
                    break
    return out


def check(P, R, rule="RF-grow"):
    n = 0
    seen = set()
    for t in P.tus:
        for fn in t.funclist:
            if getattr(fn, "body", None) is None or "/usr/" in fn.file or fn.file.endswith((".yucc", "-parser.c", "-scanner.c")):
                continue
            calls = [c for c in fn.walk() if c.get("k") == "CallExpr" and c.get("callee") == "realloc" and len(call_args(c)) == 2]
            if not calls:
                continue
            dbl = _doublings(fn)
            for c in calls:
                key = (fn.file, fn.name, c.get("l"))
                if key in seen:
                    continue
                seen.add(key)
                size = call_args(c)[1]
                mine = [d for d in dbl if any(z is d[0] for z in walk(size)) or d[1] in expr_text(strip(size))]
                if not mine:
                    continue            # not grown by doubling (grown by a fixed count per element, say)
                n += 1
                R.saw(fn)
                ok = True
                for d, lt in mine:
                    par = fn.parent(d)
                    inloop = False
                    while par is not None:
                        if par.get("k") in LOOPS:
                            inloop = True
                            break
                        par = fn.parent(par)
                    if not inloop:
                        ok = False
                site = "realloc(%s) line %s" % (", ".join(expr_text(strip(a))[:24] for a in call_args(c)), c.get("l"))
                if ok:
                    R.ob(rule, "%s in %s: the size is doubled in a loop, until the request fits" % (site, fn.name), True)
                else:
                    R.finding(rule, fn, site, "the buffer is doubled once where room is short: a request longer than the buffer (a long path or "
                              "name from the command line or an input file) still does not fit and is copied over the end of the new block", c)
    R.floor(rule, "buffers grown by doubling", n, 2)
    return n
