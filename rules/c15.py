"""C15 — dateseq emits exactly the arithmetic progression between its bounds.

That the sequence printed is the progression, for all bounds and increments, is a statement about an unbounded iteration
and is NOT decided.  Decided are structural conditions of termination and of the range test, each a necessary condition:

 RF13-naught  the emitting loop (and the anchoring loop of --compute-from-last) can only be reached with an increment that is not
              naught and a direction that is not 0: the refusal dominates both loops
 RF1-dv       the direction of time-only bounds is read from the value slot of time units only: every sign test of `->dv` in
              __get_dir is guarded by a test of the duration type (a date unit overlays the slot with its own count and cannot
              move a time)
 RF8-carry    date_add accumulates the midnight carry of every component of a compound increment: `t.carry` is read inside
              the loop that calls dt_dtadd, after the call, into the accumulator that is stored for time-only values
 RF-mirror    __in_range_p: bounds are handed to the range predicate in (first, last) order for an ascending and (last, first)
              for a descending run; the four time-only tests are the mirror images documented for plain and wrapping runs
 RF2-skip     weekday w is skipped through bit 1 << w on both sides: the setter's case table and the tester's shift agree
 RF11-clamp   the emitting loop tests the clamped iterate (dt_fixup), because month / year steps keep unclamped days on purpose
              (that dt_fixup clamps date-times too is decided under C04)
 RF8-step     every loop that walks the sequence advances through date_add with the increment (or the alternative increment)
              -- no loop re-tests an unchanged value
"""
import re
from core import (AnalysisBroken, strip, kids, const_of, call_args, expr_text, walk, CASTS, member_path, switch_cases, guards_of, norm_cond)


def _blk(fn, n):
    cur = n
    while cur is not None:
        if "i" in cur and fn.cfg.stmt_block(cur["i"]):
            return fn.cfg.stmt_block(cur["i"])
        cur = fn.parent(cur)
    return None


def check_naught(P, R, tu):
    rule = "RF13-naught"
    mn = tu.func("main")
    if mn is None:
        raise AnalysisBroken("main of dseq vanished")
    R.saw(mn)
    cfg = mn.cfg
    # the refusal: if (__durstack_naught_p(..) || !(clo.dir = __get_dir(..))) { ...; goto out; }
    ref = None
    for x in mn.walk():
        if x.get("k") == "IfStmt":
            names = {y.get("callee") for y in walk(x["c"][0]) if y.get("k") == "CallExpr"}
            if {"__durstack_naught_p", "__get_dir"} <= names:
                ref = x
    if ref is None:
        R.finding(rule, mn, "refusal", "dseq no longer refuses a naught increment or an undefined direction before iterating")
        return
    # the then-branch must leave (goto / return) without reaching the loops
    then = ref["c"][1]
    leaves = any(y.get("k") in ("GotoStmt", "ReturnStmt") for y in walk(then))
    loops = [x for x in mn.walk() if x.get("k") in ("ForStmt", "WhileStmt", "DoStmt") and
             any(y.get("k") == "CallExpr" and y.get("callee") in ("__seq_next", "__in_range_p") for y in walk(x))]
    if not loops:
        raise AnalysisBroken("%s: the emitting loop of dseq was not recognised" % rule)
    ok = leaves
    # the condition block dominates the loops and the loops are reachable only through its false edge
    cb = None
    for b, blk in cfg.blocks.items():
        if blk.get("cond") is not None:
            cn = mn.nodes.get(blk["cond"])
            if cn is not None and any(y.get("k") == "CallExpr" and y.get("callee") == "__get_dir" for y in walk(cn)):
                cb = b
    for lp in loops:
        lb = _blk(mn, lp["c"][0] if lp["c"] and lp["c"][0] else lp)
        # use a call inside the loop condition as anchor
        anchor = None
        for y in walk(lp):
            if y.get("k") == "CallExpr" and y.get("callee") == "__in_range_p":
                anchor = y
                break
        ab = _blk(mn, anchor) if anchor is not None else None
        if cb is None or ab is None or not cfg.dominates(cb, ab[0]):
            ok = False
    if ok and cb is not None:
        # the true edge of the __get_dir test (direction == 0 -> `!dir` true) must not reach the loop
        t_succ = cfg.blocks[cb]["s"][0]
        for lp in loops:
            for y in walk(lp):
                if y.get("k") == "CallExpr" and y.get("callee") == "__in_range_p":
                    ab = _blk(mn, y)
                    if ab and ab[0] in cfg.reachable_from(t_succ):
                        ok = False
    if ok:
        R.ob(rule, "the emitting loop is reachable only past `increment not naught and direction != 0`", True)
    else:
        R.finding(rule, mn, "refusal", "a naught increment or direction 0 can reach the emitting loop: the run never ends", ref)
    # anchoring loop in __fixup_fst is only called from main past the refusal
    ff = tu.func("__fixup_fst")
    if ff is not None:
        calls = [c for c in mn.calls("__fixup_fst")]
        okf = bool(calls) and cb is not None and all(cfg.dominates(cb, _blk(mn, c)[0]) for c in calls)
        if okf:
            R.ob(rule, "__fixup_fst is called only past the refusal", True)
        else:
            R.finding(rule, mn, "anchoring", "__fixup_fst can run with a naught increment or without a direction")


def check_dv(P, R, tu):
    rule = "RF1-dv"
    fn = tu.func("__get_dir")
    if fn is None:
        raise AnalysisBroken("__get_dir vanished")
    R.saw(fn)
    n = 0
    for x in fn.walk():
        if x.get("k") == "BinaryOperator" and x.get("op") in ("<", ">", "<=", ">="):
            l = strip(x["c"][0])
            if l is not None and l.get("k") == "MemberExpr" and l.get("n") == "dv":
                n += 1
                gs = guards_of(fn, x)
                typed = False
                for g in gs:
                    for y in walk(g["cond"]):
                        if y.get("k") == "MemberExpr" and y.get("n") == "durtyp":
                            typed = True
                if typed:
                    R.ob(rule, "__get_dir: sign test of ->dv at line %s guarded by a duration type test" % x.get("l"), True)
                else:
                    R.finding(rule, fn, "sign of dv %s 0" % x["op"], "the direction of a time-only run is read from ->dv without checking that "
                              "the increment is a time unit: a date unit (1d) overlays the slot, gives a direction, and never moves the time",
                              x)
    if n == 0:
        raise AnalysisBroken("%s: sign tests of ->dv in __get_dir not found" % rule)


def check_carry(P, R, tu):
    rule = "RF8-carry"
    fn = tu.func("date_add")
    if fn is None:
        raise AnalysisBroken("date_add vanished")
    R.saw(fn)
    loops = [x for x in fn.walk() if x.get("k") in ("ForStmt", "WhileStmt", "DoStmt") and
             any(y.get("k") == "CallExpr" and y.get("callee") == "dt_dtadd" for y in walk(x))]
    if not loops:
        raise AnalysisBroken("%s: the component loop of date_add was not recognised" % rule)
    lp = loops[0]
    reads = [y for y in fn.walk() if y.get("k") == "MemberExpr" and y.get("n") == "carry"]
    inside = [y for y in reads if any(z is y for z in walk(lp))]
    outside = [y for y in reads if y not in inside]
    acc = None
    for y in inside:
        par = fn.parent(y)
        while par is not None and par.get("k") in CASTS:
            par = fn.parent(par)
        if par is not None and par.get("k") == "CompoundAssignOperator" and par.get("op") == "+=":
            l = strip(par["c"][0])
            if l is not None and l.get("k") == "DeclRefExpr":
                acc = (l["d"], par)
        elif par is not None and par.get("k") == "BinaryOperator" and par.get("op") == "+":
            # acc = acc + carry, written out
            up = fn.parent(par)
            while up is not None and up.get("k") in CASTS + ("ParenExpr",):
                up = fn.parent(up)
            if up is not None and up.get("k") == "BinaryOperator" and up.get("op") == "=":
                l = strip(up["c"][0])
                if l is not None and l.get("k") == "DeclRefExpr" and any(
                        (strip(o) or {}).get("k") == "DeclRefExpr" and (strip(o) or {}).get("d") == l.get("d") for o in par["c"]):
                    acc = (l["d"], up)
    if acc is None:
        R.finding(rule, fn, "carry accumulation", "the midnight carry is not accumulated inside the loop over the increment's components: "
                  "dt_dtadd recomputes t.carry on every call, so the carry of all but the last component is lost (%d reads outside the loop)"
                  % len(outside), outside[0] if outside else None)
        return
    # after the call, in the same iteration
    call = [y for y in walk(lp) if y.get("k") == "CallExpr" and y.get("callee") == "dt_dtadd"][0]
    cb, ab = _blk(fn, call), _blk(fn, acc[1])
    after = cb and ab and (fn.cfg.dominates(cb[0], ab[0])) and (cb[0] != ab[0] or cb[1] < ab[1])
    # the accumulator is what gets stored for time-only values
    stored = any(y.get("k") == "BinaryOperator" and y.get("op") == "=" and strip(y["c"][1]).get("k") == "DeclRefExpr" and
                 strip(y["c"][1]).get("d") == acc[0] for y in fn.walk())
    if after and stored and not outside:
        R.ob(rule, "date_add: carry of every component added to the accumulator after its dt_dtadd, accumulator stored", True)
    else:
        R.finding(rule, fn, "carry accumulation", "carry handling of date_add changed: accumulated after the call: %s, accumulator stored: %s, "
                  "reads outside the loop: %d" % (bool(after), stored, len(outside)), acc[1])


def check_mirror(P, R, tu):
    rule = "RF-mirror"
    fn = tu.func("__in_range_p")
    if fn is None:
        raise AnalysisBroken("__in_range_p vanished")
    R.saw(fn)
    n = 0
    for c in fn.calls("dt_dt_in_range_p"):
        n += 1
        a = call_args(c)
        order = [strip(a[1]).get("n"), strip(a[2]).get("n")]
        gs = [norm_cond(g["cond"], g["pol"]) for g in guards_of(fn, c) if "pol" in g]
        up = any(op == ">" and "dir" in x and y == "0" for op, x, y in gs)
        down = any(op == "<" and "dir" in x and y == "0" for op, x, y in gs)
        want = ["fst", "lst"] if up else (["lst", "fst"] if down else None)
        if want is not None and order == want:
            R.ob(rule, "range predicate called with (%s, %s) for a %s run" % (order[0], order[1], "rising" if up else "falling"), True)
        else:
            R.finding(rule, fn, "bounds order %s" % ("up" if up else "down" if down else "?"), "dt_dt_in_range_p is handed the bounds as (%s, %s) "
                      "under direction %s" % (order[0], order[1], "> 0" if up else "< 0" if down else "unknown"), c)
    # the four time-only tests
    rets = [r for r in fn.walk() if r.get("k") == "ReturnStmt" and kids(r) and strip(kids(r)[0]).get("k") == "BinaryOperator"
            and strip(kids(r)[0]).get("op") in ("&&", "||")]
    shapes = {}

    def atoms(e, op):
        e = strip(e)
        while e is not None and e.get("k") == "ParenExpr" and e.get("c"):
            e = strip(e["c"][0])
        if e is not None and e.get("k") == "BinaryOperator" and e.get("op") == op:
            return atoms(e["c"][0], op) + atoms(e["c"][1], op)
        if e is not None and e.get("k") == "BinaryOperator" and e.get("op") in ("&&", "||"):
            # a group inside the test (`(day of A && from A up) || (day after && up to B)`): its atoms, kept together
            return [(e["op"], tuple(sorted(atoms(e, e["op"]))), "")]
        if e is not None and e.get("k") == "BinaryOperator":
            return [(e["op"], expr_text(strip(e["c"][0])), expr_text(strip(e["c"][1])))]
        return [("?", expr_text(e), "")]
    for r in rets:
        e = strip(kids(r)[0])
        gs = [norm_cond(g["cond"], g["pol"]) for g in guards_of(fn, r) if "pol" in g]
        up = any(op == ">" and "dir" in x and y == "0" for op, x, y in gs)
        down = any(op == "<" and "dir" in x and y == "0" for op, x, y in gs)
        wrap = e["op"] == "||"
        shapes[("up" if up else "down" if down else "?", wrap)] = (e["op"], atoms(e, e["op"]))
    # names of the parameters may change: compare modulo the two parameter names
    pn, pc = fn.params[0]["n"], fn.params[1]["n"]

    MIR = {"<=": ">=", ">=": "<=", "<": ">", ">": "<"}

    def canon(parts):
        def c1(x):
            return x.replace(pn + ".", "now.").replace(pc + "->", "clo->").strip("()")

        def atom(op, a, b):
            a, b = c1(a), re.sub(r"^(-?\d+)[Uu]$", r"\1", c1(b))
            if "now." in b and "now." not in a and op in MIR:
                # the value examined on the left: `fst <= now` is `now >= fst`
                a, b, op = b, a, MIR[op]
            return (op, a, b)
        return sorted((op, tuple(canon(a)), "") if isinstance(a, tuple) else atom(op, a, b) for op, a, b in parts)
    def mirror(parts):
        """the same test for a run in the other direction: comparisons turned round, the count of midnights passed negated"""
        out = []
        for op, a, b in parts:
            if isinstance(a, tuple):
                out.append((op, tuple(mirror(a)), ""))
            elif "d.u" in a and re.fullmatch(r"-?\d+", b) and int(b) != 0:
                out.append((op, a, str(-int(b))))
            else:
                out.append((MIR.get(op, op), a, b))
        return sorted(out)

    def flat(parts):
        return [x for op, a, b in parts for x in (flat(a) if isinstance(a, tuple) else [(op, a, b)])]
    # what each test must at least say (the rest -- e.g. a test of the midnights passed -- must be the same up and down)
    need = {False: {("fst", True), ("lst", True)}, True: {("lst", True), ("d.u", False)}}
    for wrap in (False, True):
        upk, dnk = shapes.get(("up", wrap)), shapes.get(("down", wrap))
        n += 2
        what = "wrapping " if wrap else ""
        if upk is None or dnk is None or upk[0] != dnk[0] or upk[0] != ("||" if wrap else "&&"):
            R.finding(rule, fn, "time-only %stests" % what, "the pair of time-only range tests for %sruns was not found as one conjunction / "
                      "disjunction each (%s, %s)" % (what, upk, dnk))
            continue
        cu, cd = canon(upk[1]), canon(dnk[1])
        missing = [nm for nm, _ in need[wrap] if not any(nm in a or nm in b for _, a, b in flat(cu))]
        if cu == mirror(cd) and not missing and any(op in (">=", ">") and "fst" in b for op, a, b in flat(cu) if not wrap) == (not wrap):
            R.ob(rule, "time-only tests for %sruns: the falling test is the mirror image of the rising one (%s)" % (
                what, " ".join("%s%s%s" % (a, op, b) for op, a, b in flat(cu))), True)
            R.ob(rule, "time-only tests for %sruns say where the value lies relative to %s" % (what, " and ".join(sorted(nm for nm, _ in need[wrap]))), True)
        else:
            R.finding(rule, fn, "time-only %stests" % what, "the rising test %s and the falling test %s are not mirror images of each other%s"
                      % (cu, cd, "; nothing is said about %s" % missing if missing else ""))
    R.floor(rule, "range tests", n, 6)


def check_skip(P, R, tu):
    rule = "RF2-skip"
    sk = tu.func("skipp")
    sd = tu.func("__skip_dow")
    if sk is None or sd is None:
        raise AnalysisBroken("skipp / __skip_dow vanished")
    R.saw(sk)
    R.saw(sd)
    # tester: ss & (1 << dow)
    tst = None
    for x in sk.walk():
        if x.get("k") == "BinaryOperator" and x.get("op") == "<<" and const_of(x["c"][0]) is not None:
            tst = const_of(x["c"][0])
    if tst is None:
        raise AnalysisBroken("%s: bit test of skipp not recognised" % rule)
    bad = []
    n = 0
    for sw in sd.switches():
        for g in switch_cases(sw):
            vals = [l["lo"] for l in g["labels"] if l["lo"] is not None]
            ors = [const_of(y["c"][1]) for s in g["stmts"] for y in walk(s) if y.get("k") == "CompoundAssignOperator" and y.get("op") == "|="]
            for v in vals:
                if v == 0:
                    continue
                n += 1
                if ors != [tst << v]:
                    bad.append((v, ors))
    if n < 7:
        raise AnalysisBroken("%s: weekday cases of __skip_dow not recognised (%d)" % (rule, n))
    if not bad:
        R.ob(rule, "__skip_dow sets bit %d << w for weekday w = 1..7, skipp tests %d << w" % (tst, tst), True)
    else:
        R.finding(rule, sd, "skip bits", "weekday %d sets %s but skipp tests %d << %d" % (bad[0][0], bad[0][1], tst, bad[0][0]))


def check_step(P, R, tu):
    rule = "RF8-step"
    n = 0
    for fname in ("__seq_altnext", "__seq_this", "__fixup_fst", "main"):
        fn = tu.func(fname)
        if fn is None:
            raise AnalysisBroken("%s vanished" % fname)
        for lp in fn.walk():
            if lp.get("k") not in ("ForStmt", "WhileStmt", "DoStmt"):
                continue
            if not any(y.get("k") == "CallExpr" and y.get("callee") == "__in_range_p" for y in walk(lp)):
                continue
            n += 1
            R.saw(fn)
            steps = [y for y in walk(lp) if y.get("k") == "CallExpr" and y.get("callee") in ("date_add", "__seq_next")]
            # the stepped value is assigned back to the variable that is tested
            okl = False
            for s in steps:
                par = fn.parent(s)
                while par is not None and par.get("k") in CASTS:
                    par = fn.parent(par)
                if par is not None and par.get("k") == "BinaryOperator" and par.get("op") == "=":
                    v = strip(par["c"][0])
                    arg0 = strip(call_args(s)[0])
                    if v is not None and arg0 is not None and v.get("k") == "DeclRefExpr" and arg0.get("k") == "DeclRefExpr":
                        if v["d"] == arg0["d"]:
                            okl = True
                        else:
                            # through a second variable: nxt = step(x); (leave the loop when that is no progress;) x = nxt;
                            for y in walk(lp):
                                if y.get("k") == "BinaryOperator" and y.get("op") == "=" and (strip(y["c"][0]) or {}).get("d") == arg0["d"] \
                                        and (strip(y["c"][1]) or {}).get("k") == "DeclRefExpr" and strip(y["c"][1]).get("d") == v["d"] and y["i"] > par["i"]:
                                    okl = True
            if okl:
                R.ob(rule, "%s: loop at line %s advances its value through the increment" % (fname, lp.get("l")), True)
            else:
                R.finding(rule, fn, "loop at %s" % ("the emitting loop" if fname == "main" else fname), "a loop that tests __in_range_p does not "
                          "advance the tested value by the increment on every turn", lp)
    R.floor(rule, "sequence loops", n, 4)


def check_clamped_test(P, R, tu):
    """month / year steps leave unclamped iterates (2000-04-31) on purpose, so that the k-th element is FIRST + k increments in one
    step; the range test of the emitting loop therefore has to look at the clamped value"""
    rule = "RF11-clamp"
    mn = tu.func("main")
    hit = False
    for lp in mn.walk():
        # the emitting loop, however it is spelt: a loop of main whose body writes a value out
        if lp.get("k") not in ("ForStmt", "WhileStmt"):
            continue
        cond = lp["c"][1] if lp.get("k") == "ForStmt" else lp["c"][0]
        if cond is None or not any(y.get("k") == "CallExpr" and y.get("callee") == "dt_io_write" for y in walk(lp["c"][-1])):
            continue
        for c in walk(cond):
            if c.get("k") == "CallExpr" and c.get("callee") == "__in_range_p":
                a0 = strip(call_args(c)[0])
                hit = True
                if a0 is not None and a0.get("k") == "CallExpr" and a0.get("callee") == "dt_fixup":
                    R.ob(rule, "the emitting loop tests the clamped iterate: __in_range_p(dt_fixup(x), ..)", True)
                else:
                    R.finding(rule, mn, "range test of the emitting loop", "the emitting loop compares the unclamped iterate with the bounds: "
                              "a month sequence from the 31st stops before a LAST that is the clamped end of a month", c)
    if not hit:
        raise AnalysisBroken("%s: range test of the emitting loop not recognised" % rule)


def check(P, R, tier):
    tu = P.tu("dseq-dseq.o")
    check_clamped_test(P, R, tu)
    check_naught(P, R, tu)
    check_dv(P, R, tu)
    check_carry(P, R, tu)
    check_mirror(P, R, tu)
    check_skip(P, R, tu)
    check_step(P, R, tu)
    import seqdecode
    ns = seqdecode.run(R, P, "RF2-seq")
    R.floor("RF2-seq", "decoded skip lists and sequence runs", ns, 100)


LEVEL = ("Decides structural necessary conditions of termination and of the range test in dseq: the refusal of naught increments "
         "and undefined directions dominates the emitting and the anchoring loop; the direction of time-only runs is read from the "
         "time units' value slot only under a duration type test; the midnight carry of every component of a compound increment "
         "is accumulated; the range predicate gets its bounds in direction order and the four time-only tests are mirror "
         "consistent; skip bits agree between setter and tester; every sequence loop advances the value it tests.  That the "
         "values printed are exactly FIRST + k*INC within the bounds is decided on 44 representative runs by folding the helpers the "
         "main loop is made of (RF2-seq: direction, start, range test, step, anchoring at LAST; dates with day / week / month / year "
         "steps both ways, skip sets, times of day around midnight and with steps that miss LAST or span days), together with 13 skip "
         "lists through set_skip / skipp; for all other inputs it rests on the structural conditions.  The tail of main() (promotion, "
         "direction, start, emitting loop) is folded as it stands; argument parsing and printing are replaced by stand-ins.")
RULE = "obligation = one dominance fact, one guarded union read, one accumulation site, one range test shape, one bit table, one loop"
ASSUME = ["dt_dtadd moves a date-time by the increment (C03/C04/C11)", "dt_dt_in_range_p is the order of C08"]
