"""RF2-find: the stream finder decoded: where in a line a date/time is recognised and what it is read as.

calc_grep_atom and dt_io_find_strpdt2 (src/dt-io.c) are folded as they stand, together with the library parser, on lines that carry
one date/time in free text: the value found must be the one the text spells -- a sign in front of epoch seconds belongs to the
number -- and the span handed back (start, end) must be exactly the date's text, because sed mode copies what lies outside it."""
import datetime
from core import AnalysisBroken, NotConst
import fold
from fold import CPtr, cstr, Ptr
import fmtdecode
import durdecode

EPOCH = datetime.datetime(1970, 1, 1)
# (line, format, text of the date inside the line or None, instant or None)
CASES = [
    ("x -100 y", "%s", "-100", -100), ("-100", "%s", "-100", -100), ("a 1234567890 b", "%s", "1234567890", 1234567890),
    ("100", "%s", "100", 100), ("t=-86400;", "%s", "-86400", -86400), ("- 100", "%s", "100", 100), ("nothing here", "%s", None, None),
    ("on 2012-03-04T10:20:30 at", "%FT%T", "2012-03-04T10:20:30", datetime.datetime(2012, 3, 4, 10, 20, 30)),
    ("x20120304102030y", "%Y%m%d%H%M%S", "20120304102030", datetime.datetime(2012, 3, 4, 10, 20, 30)),
    ("log-20120304102030.gz", "%Y%m%d%H%M%S", "20120304102030", datetime.datetime(2012, 3, 4, 10, 20, 30)),
    ("2012-03-04T10:20:30", "%FT%T", "2012-03-04T10:20:30", datetime.datetime(2012, 3, 4, 10, 20, 30)),
    ("no date 2012-03 here", "%FT%T", None, None),
]


def _xmempbrk(src, ln, st):
    chars = set()
    i = 0
    while st.get(i) != 0:
        chars.add(st.get(i))
        i += 1
    i = 0
    while i < ln and src.get(i) not in chars:
        i += 1
    return CPtr(src.buf, src.off + i)


def run(R, P, rule):
    io = P.tu("libdutio_a-dt-io.o")
    dtu = P.tu("libdut_a-dt-core.o")
    libs = [io, dtu, P.tu("libdut_a-date-core.o"), P.tu("libdut_a-time-core.o"), P.tu("libdut_a-strops.o"), P.tu("libdut_a-token.o"),
            P.tu("libdut_a-dt-locale.o")]
    ffind, fatom, fconv = io.func("dt_io_find_strpdt2"), io.func("calc_grep_atom"), dtu.func("dt_dtconv")
    if ffind is None or fatom is None or fconv is None:
        raise AnalysisBroken("%s: dt_io_find_strpdt2 / calc_grep_atom / dt_dtconv vanished" % rule)
    R.saw(ffind)
    R.saw(fatom)

    def resolve(name):
        for l in libs:
            f = l.func(name)
            if f is not None and getattr(f, "body", None) is not None:
                return f
        return None

    def glob(name):
        for l in libs:
            g = l.global_var(name)
            if g is not None and (g.get("init") is not None or "val" in g):
                return g
        return None
    fold.RESOLVE["fn"] = resolve
    fold.GLOBALS["fn"] = glob
    err = {"errno": 0}
    E = {k: dtu.enum_value(k) for k in ("DT_YMD", "DT_HMS", "DT_SEXY")}
    base = {"typ": E["DT_YMD"], "sandwich": 1, "d.typ": E["DT_YMD"], "d.ymd.y": 2001, "d.ymd.m": 1, "d.ymd.d": 1, "t.typ": E["DT_HMS"]}
    calls = dict(fmtdecode.LIBC)
    calls.update({"strtol": durdecode._strtol, "__errno_location": lambda: Ptr(err, "errno", None), "dt_get_base": lambda: dict(base),
                  "dtz_forgetz": lambda d, z: d, "xmempbrk": _xmempbrk})
    tabs = {}

    def call(fn, *args):
        fo = fold.Folder(fn, calls=calls, inline=True, max_steps=6000000)
        fo._tabs = tabs
        return fo.run(list(args))
    bad = []
    n = 0
    try:
        for line, fmt, text, inst in CASES:
            n += 1
            what = "`%s` with -i '%s'" % (line, fmt)
            try:
                a = call(fatom, cstr(fmt))
                pl = {k[3:]: v for k, v in a.items() if k.startswith("pl.")}
                soa = {"natoms": 1, "needle": CPtr([a.get("needle", 0), 0], 0), "flesh": CPtr([pl, 0], 0)}
                frame = {"soa": soa, "sp": 0, "ep": 0}
                r = call(ffind, cstr(line), len(line), Ptr(frame, "soa", None), Ptr(frame, "sp", None), Ptr(frame, "ep", None), 0)
            except fold.Abort as e:
                bad.append((what, "abort: %s" % e, "the date `%s`" % text))
                continue
            sp, ep = frame["sp"], frame["ep"]
            sp, ep = (sp.off if isinstance(sp, CPtr) else None), (ep.off if isinstance(ep, CPtr) else None)
            found = isinstance(r, dict) and (r.get("typ") or r.get("sandwich") or r.get("d.typ"))
            if text is None:
                if found:
                    bad.append((what, "a date/time at [%s, %s)" % (sp, ep), "nothing"))
                continue
            if not found:
                bad.append((what, "nothing found", "the date `%s`" % text))
                continue
            if r.get("typ") == E["DT_SEXY"] and not r.get("sandwich"):
                got = r.get("sexy")
            else:
                sx = call(fconv, E["DT_SEXY"], dict(r))
                got = sx.get("sexy") if isinstance(sx, dict) else None
            want = inst if isinstance(inst, int) else int((inst - EPOCH).total_seconds())
            lo = line.index(text)
            if got != want or (sp, ep) != (lo, lo + len(text)):
                bad.append((what, "the instant %s read from `%s`" % (got, line[sp:ep] if sp is not None and ep is not None else "?"),
                            "the instant %s read from `%s`" % (want, text)))
    except NotConst as e:
        raise AnalysisBroken("%s: the finder left the foldable fragment (%s)" % (rule, e))
    if bad:
        what, got, exp = bad[0]
        R.finding(rule, ffind, "lines decoded", "%d of %d lines are read differently from what they spell; first: %s gives %s, the line carries %s"
                  % (len(bad), n, what, got, exp))
    else:
        R.ob(rule, "%d lines with a date/time in free text (epoch seconds with and without sign, digit runs, ISO date-times, no date at all): "
             "the value the text spells, the span handed back is exactly the date's text" % n, True)
    return n
