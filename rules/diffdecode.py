"""RF2-diff: the calendar difference routines decoded over their whole domain and compared with the definition.

__yd_diff and __ymd_diff read the years of their operands only through the year difference (which passes linearly into the result)
and through leap-dependent period lengths; everything else is the month and day fields.  With concrete representative years for
every leap configuration, every month and every day of the earlier operand, and the day of the later operand kept symbolic over its
range (interval-affine folding with splitting, rules/fold.py), the routine is decoded into the piecewise-affine function it computes
and compared, at every integer point, with the definition `the duration that, added to the earlier date largest unit first, gives
the later one` (earlier day-of-month <= 28, as the property states)."""
import datetime
from core import AnalysisBroken, NotConst
import fold
from fold import Aff


def _leap(y):
    return int(y % 4 == 0 and (y % 100 != 0 or y % 400 == 0))


MDAYS = [0, 31, 28, 31, 30, 31, 30, 31, 31, 30, 31, 30, 31]


def _mdays(y, m):
    return 0 if not (1 <= m <= 12) else MDAYS[m] + (1 if m == 2 and _leap(y) else 0)


def _val(v, t):
    return v.c + v.k * t if isinstance(v, Aff) else v


def _date(y, yd):
    return datetime.date(y, 1, 1) + datetime.timedelta(days=yd - 1)


def check_yd(R, tu, rule):
    fn = tu.func("__yd_diff")
    if fn is None:
        raise AnalysisBroken("__yd_diff vanished")
    R.saw(fn)
    calls = {"__leapp": _leap, "dt_make_ddur": lambda typ, v: {"durtyp": typ, "neg": 0}}
    n = pieces = 0
    bad = []
    try:
        for y1 in (2011, 2012):
            for dy in range(0, 5):
                y2 = y1 + dy
                for d1d in range(1, 366 + _leap(y1)):
                    D1 = _date(y1, d1d)
                    if D1.day > 28:
                        continue
                    lo = d1d if dy == 0 else 1
                    res = fold.run_split(fn, lambda t: [{"y": y1, "d": d1d}, {"y": y2, "d": t}], lo, 365 + _leap(y2), calls)
                    pieces += len(res)
                    for (a, b), v in res:
                        if not isinstance(v, dict) or "yd.y" not in v or "yd.d" not in v:
                            raise AnalysisBroken("%s: __yd_diff does not fill in years and days any more" % rule)
                        for t in range(a, b + 1):
                            n += 1
                            D2 = _date(y2, t)
                            Y = D2.year - D1.year
                            anchor = D1.replace(year=D1.year + Y)
                            if anchor > D2:
                                Y -= 1
                                anchor = D1.replace(year=D1.year + Y)
                            exp = (Y, (D2 - anchor).days)
                            got = (_val(v["yd.y"], t), _val(v["yd.d"], t))
                            if got != exp and len(bad) < 5000:
                                bad.append((D1, D2, got, exp))
    except NotConst as e:
        raise AnalysisBroken("%s: __yd_diff left the decodable fragment (%s)" % (rule, e))
    if not bad:
        R.ob(rule, "__yd_diff: all %d (earlier date, later date) points of %d affine pieces over the leap configurations give the years "
             "and days that lead from the earlier to the later date" % (n, pieces), True, sample={"rule": rule, "points": n, "pieces": pieces})
    else:
        D1, D2, got, exp = bad[0]
        R.finding(rule, fn, "__yd_diff decoded", "%d of %d decoded points differ from the definition; first: %s .. %s gives %dy %dd, but "
                  "%s + %dy + %dd is the later date" % (len(bad), n, D1, D2, got[0], got[1], D1, exp[0], exp[1]))
    return n


def _addm(d, k):
    t = d.year * 12 + d.month - 1 + k
    return datetime.date(t // 12, t % 12 + 1, d.day)


def check_ymd(R, tu, rule):
    fn = tu.func("__ymd_diff")
    if fn is None:
        raise AnalysisBroken("__ymd_diff vanished")
    R.saw(fn)
    calls = {"__get_mdays": _mdays, "dt_make_ddur": lambda typ, v: {"durtyp": typ, "neg": 0}}
    n = pieces = 0
    bad = []
    try:
        for y2 in (2012, 2013, 2014):
            for dy in (0, 1, 2):
                y1 = y2 - dy
                for m1 in range(1, 13):
                    for d1 in range(1, 29):
                        D1 = datetime.date(y1, m1, d1)
                        for m2 in range(m1 if dy == 0 else 1, 13):
                            lo = d1 if (dy == 0 and m2 == m1) else 1
                            res = fold.run_split(fn, lambda t: [{"y": y1, "m": m1, "d": d1}, {"y": y2, "m": m2, "d": t}], lo, _mdays(y2, m2), calls)
                            pieces += len(res)
                            for (a, b), v in res:
                                if not isinstance(v, dict) or not all(k in v for k in ("ymd.y", "ymd.m", "ymd.d")):
                                    raise AnalysisBroken("%s: __ymd_diff does not fill in years, months and days any more" % rule)
                                for t in range(a, b + 1):
                                    n += 1
                                    D2 = datetime.date(y2, m2, t)
                                    T = (D2.year - D1.year) * 12 + (D2.month - D1.month)
                                    if _addm(D1, T) > D2:
                                        T -= 1
                                    exp = (T // 12, T % 12, (D2 - _addm(D1, T)).days)
                                    got = (_val(v["ymd.y"], t), _val(v["ymd.m"], t), _val(v["ymd.d"], t))
                                    if got != exp and len(bad) < 5000:
                                        bad.append((D1, D2, got, exp))
    except NotConst as e:
        raise AnalysisBroken("%s: __ymd_diff left the decodable fragment (%s)" % (rule, e))
    if not bad:
        R.ob(rule, "__ymd_diff: all %d (earlier date, later date) points of %d affine pieces give the years, months and days that lead from "
             "the earlier to the later date" % (n, pieces), True, sample={"rule": rule, "points": n, "pieces": pieces})
    else:
        D1, D2, got, exp = bad[0]
        R.finding(rule, fn, "__ymd_diff decoded", "%d of %d decoded points differ from the definition; first: %s .. %s gives %dy %dmo %dd, "
                  "but it takes %dy %dmo %dd" % (len(bad), n, D1, D2, got[0], got[1], got[2], exp[0], exp[1], exp[2]))
    return n


def _isowk(y):
    return datetime.date(y, 12, 28).isocalendar()[1]


def check_ywd(R, tu, rule):
    fn = tu.func("__ywd_diff")
    if fn is None:
        raise AnalysisBroken("__ywd_diff vanished")
    R.saw(fn)
    calls = {"__get_isowk": _isowk, "dt_make_ddur": lambda typ, v: {"durtyp": typ, "neg": 0}}
    n = pieces = 0
    bad = []
    try:
        for y1 in (2013, 2014, 2015, 2016):         # 2015 has 53 weeks; the others 52
            for dy in (0, 1, 2):
                y2 = y1 + dy
                for c1 in range(1, _isowk(y1) + 1):    # week 53 too: no year within reach has another one, so no whole year fits
                    for w1 in range(1, 8):
                        D1 = datetime.date.fromisocalendar(y1, c1, w1)
                        for w2 in range(1, 8):
                            lo = 1 if dy else (c1 if w2 >= w1 else c1 + 1)
                            res = fold.run_split(fn, lambda t: [{"y": y1, "c": c1, "w": w1}, {"y": y2, "c": t, "w": w2}], lo, _isowk(y2), calls)
                            pieces += len(res)
                            for (a, b), v in res:
                                if not isinstance(v, dict) or not all(k in v for k in ("ywd.y", "ywd.c", "ywd.w")):
                                    raise AnalysisBroken("%s: __ywd_diff does not fill in years, weeks and days any more" % rule)
                                for t in range(a, b + 1):
                                    n += 1
                                    D2 = datetime.date.fromisocalendar(y2, t, w2)
                                    Y = y2 - y1
                                    while Y > 0 and (_isowk(y1 + Y) < c1 or datetime.date.fromisocalendar(y1 + Y, c1, w1) > D2):
                                        Y -= 1
                                    anchor = datetime.date.fromisocalendar(y1 + Y, c1, w1)
                                    rem = (D2 - anchor).days
                                    exp = (Y, rem // 7, rem % 7)
                                    got = (_val(v["ywd.y"], t), _val(v["ywd.c"], t), _val(v["ywd.w"], t))
                                    if c1 == 53:
                                        # a week the following years do not have: whether a whole year `fits' depends on how the
                                        # adder clamps, so only the ranges of the components are decided here
                                        # ... but with no whole year taken out, weeks and days are the plain distance
                                        if (not (got[0] >= 0 and 0 <= got[1] <= 53 and 0 <= got[2] <= 6)
                                                or (got[0] == 0 and 7 * got[1] + got[2] != (D2 - D1).days)
                                                or (got[0] > 0 and _isowk(y1 + got[0]) == 53 and got != exp)) and len(bad) < 5000:
                                            bad.append((D1, D2, got, exp))
                                    elif got != exp and len(bad) < 5000:
                                        bad.append((D1, D2, got, exp))
    except NotConst as e:
        raise AnalysisBroken("%s: __ywd_diff left the decodable fragment (%s)" % (rule, e))
    if not bad:
        R.ob(rule, "__ywd_diff: all %d (earlier date, later date) points of %d affine pieces give the years, weeks and days that lead from "
             "the earlier to the later date" % (n, pieces), True, sample={"rule": rule, "points": n, "pieces": pieces})
    else:
        D1, D2, got, exp = bad[0]
        i1, i2 = D1.isocalendar(), D2.isocalendar()
        R.finding(rule, fn, "__ywd_diff decoded", "%d of %d decoded points differ from the definition; first: %d-W%02d-%d .. %d-W%02d-%d gives "
                  "%dy %dw %dd, but it takes %dy %dw %dd" % (len(bad), n, i1[0], i1[1], i1[2], i2[0], i2[1], i2[2], got[0], got[1], got[2],
                                                             exp[0], exp[1], exp[2]))
    return n


# ---------------------------------------------------------------------------------------------------------------------------
# far apart and around century years: concrete points, nothing replaced by a model (the helpers are folded with the routines)
def _exp_yd(D1, D2):
    Y = D2.year - D1.year
    anchor = D1.replace(year=D1.year + Y)
    if anchor > D2:
        Y -= 1
        anchor = D1.replace(year=D1.year + Y)
    return (Y, (D2 - anchor).days)


def _exp_ymd(D1, D2):
    T = (D2.year - D1.year) * 12 + (D2.month - D1.month)
    if _addm(D1, T) > D2:
        T -= 1
    return (T // 12, T % 12, (D2 - _addm(D1, T)).days)


def _exp_ywd(D1, D2):
    (y1, c1, w1), (y2, c2, w2) = D1.isocalendar(), D2.isocalendar()
    Y = y2 - y1
    while Y > 0 and (_isowk(y1 + Y) < c1 or datetime.date.fromisocalendar(y1 + Y, c1, w1) > D2):
        Y -= 1
    rem = (D2 - datetime.date.fromisocalendar(y1 + Y, c1, w1)).days
    return (Y, rem // 7, rem % 7)


FAR_Y1 = (1896, 1999, 2096, 2099, 2100)
FAR_DY = (0, 1, 3, 4, 5, 8, 104, 400, 1000)
HANG = {1: 0, 2: -1, 3: -2, 4: -3, 5: 3, 6: 2, 7: 1}


def check_far(R, tu, rule):
    fns = {k: tu.func(k) for k in ("__yd_diff", "__ymd_diff", "__ywd_diff")}
    for k, f in fns.items():
        if f is None:
            raise AnalysisBroken("%s vanished" % k)
    tabs = {}

    def call(name, *args):
        fo = fold.Folder(fns[name], calls={}, inline=True, max_steps=400000)
        fo._tabs = tabs
        return fo.run([dict(a) for a in args])
    n = 0
    bad = {k: [] for k in fns}
    try:
        for y1 in FAR_Y1:
            starts = [datetime.date(y1, m, d) for m in (1, 2, 3, 7, 12) for d in (1, 28)]
            for dy in FAR_DY:
                y2 = y1 + dy
                ends = [datetime.date(y2, m, d) for m in (1, 2, 3, 7, 12) for d in (1, 28, _mdays(y2, m))]
                for D1 in starts:
                    for D2 in ends:
                        if D2 < D1:
                            continue
                        n += 3
                        r = call("__yd_diff", {"y": D1.year, "d": D1.timetuple().tm_yday}, {"y": D2.year, "d": D2.timetuple().tm_yday})
                        got = (r.get("yd.y"), r.get("yd.d"))
                        if got != _exp_yd(D1, D2):
                            bad["__yd_diff"].append((D1, D2, got, _exp_yd(D1, D2)))
                        r = call("__ymd_diff", {"y": D1.year, "m": D1.month, "d": D1.day}, {"y": D2.year, "m": D2.month, "d": D2.day})
                        got = (r.get("ymd.y"), r.get("ymd.m"), r.get("ymd.d"))
                        if got != _exp_ymd(D1, D2):
                            bad["__ymd_diff"].append((D1, D2, got, _exp_ymd(D1, D2)))
                        i1, i2 = D1.isocalendar(), D2.isocalendar()
                        if i1[1] == 53:
                            continue
                        r = call("__ywd_diff", {"y": i1[0], "c": i1[1], "w": i1[2], "hang": HANG[datetime.date(i1[0], 1, 1).isoweekday()]},
                                 {"y": i2[0], "c": i2[1], "w": i2[2], "hang": HANG[datetime.date(i2[0], 1, 1).isoweekday()]})
                        got = (r.get("ywd.y"), r.get("ywd.c"), r.get("ywd.w"))
                        if got != _exp_ywd(D1, D2):
                            bad["__ywd_diff"].append((D1, D2, got, _exp_ywd(D1, D2)))
    except NotConst as e:
        raise AnalysisBroken("%s: a difference routine left the decodable fragment (%s)" % (rule, e))
    for k in fns:
        if bad[k]:
            D1, D2, got, exp = bad[k][0]
            R.finding(rule, fns[k], "%s, operands far apart / around century years" % k, "%d pairs differ from the definition; first: %s .. %s "
                      "gives %s, it takes %s" % (len(bad[k]), D1, D2, got, exp))
        else:
            R.ob(rule, "%s: pairs up to 1000 years apart from the years %s (first and 28th of January, February, March, July, December against first, 28th and last): the "
                 "components that lead from the earlier to the later date" % (k, list(FAR_Y1)), True)
    return n


class _Rec:
    """stands in for the report inside a forked worker: calls are replayed on the real report by the parent"""
    def __init__(self):
        self.calls = []

    def saw(self, fn):
        self.calls.append(("saw", fn.name))

    def ob(self, rule, site, ok=True, sample=None):
        self.calls.append(("ob", rule, site, ok, sample))

    def finding(self, rule, fn, site, msg, **kw):
        self.calls.append(("finding", rule, fn.name, site, msg))


_FG = {}


def _forked(i):
    rec = _Rec()
    try:
        n = _FG["jobs"][i](rec, _FG["tu"], _FG["rule"])
        return (n, rec.calls, None)
    except AnalysisBroken as e:
        return (0, rec.calls, str(e))


def check_all(R, tu, rule):
    """the three decoders and the far pass side by side (forked; the findings come back and are entered here)"""
    import multiprocessing as mp
    jobs = [check_yd, check_ymd, check_ywd, check_far]
    _FG.update(jobs=jobs, tu=tu, rule=rule)
    with mp.get_context("fork").Pool(len(jobs)) as pool:
        parts = pool.map(_forked, range(len(jobs)))
    total = 0
    broken = None
    for n, calls, err in parts:
        total += n
        for c in calls:
            if c[0] == "saw":
                R.saw(tu.func(c[1]))
            elif c[0] == "ob":
                R.ob(c[1], c[2], c[3], sample=c[4])
            else:
                R.finding(c[1], tu.func(c[2]), c[3], c[4])
        broken = broken or err
    if broken:
        raise AnalysisBroken(broken)
    return total
