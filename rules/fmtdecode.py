"""RF2-fmt: printing and parsing of dates decoded: the printed text is the calendar's, and parsing it returns the date.

dt_strfd and dt_strpd are folded as they stand (format tokeniser, specifier switches, digit and name writers / readers, Roman
numerals; text as byte arrays with cursors, rules/fold.py) for every day of the quick / thorough grid of the 21 class years, held
as year-month-day, for a list of formats that exercises every date specifier with every padding modifier that applies to it.  The
text must be what the specifier means for that day (computed independently), and parsing that text with the same format must
return a value that converts to the same day."""
import datetime
from core import AnalysisBroken, NotConst
import fold
from fold import CPtr, Ptr, cstr, cstr_value
import convdecode

ROM = [(1000, "M"), (900, "CM"), (500, "D"), (400, "CD"), (100, "C"), (90, "XC"), (50, "L"), (40, "XL"), (10, "X"), (9, "IX"), (5, "V"), (4, "IV"), (1, "I")]
WD_LONG = ["Monday", "Tuesday", "Wednesday", "Thursday", "Friday", "Saturday", "Sunday"]
MO_LONG = ["January", "February", "March", "April", "May", "June", "July", "August", "September", "October", "November", "December"]


def _rom(n):
    out = ""
    for v, s in ROM:
        while n >= v:
            out += s
            n -= v
    return out


def _expect(fmt_items, d):
    iy, iw, iwd = d.isocalendar()
    yday = d.timetuple().tm_yday
    out = ""
    for it in fmt_items:
        if not it.startswith("%"):
            out += it
            continue
        if it.endswith("th") and len(it) > 3:
            # an ordinal: the plain number (no padding) and its English suffix
            k = int(_expect([it[:-2]], d).strip())
            out += "%d%s" % (k, "th" if 11 <= k % 100 <= 13 else {1: "st", 2: "nd", 3: "rd"}.get(k % 10, "th"))
            continue
        mod, sp = it[1:-1], it[-1]

        def num(v, w):
            if mod == " ":
                return str(v).rjust(w)
            if mod == "-":
                return str(v)
            if mod == "O":
                return _rom(v)
            return str(v).zfill(w)
        if it == "%db":
            # the business day of the month; a weekend day has none and prints as 00
            bd = sum(1 for k in range(1, d.day + 1) if datetime.date(d.year, d.month, k).isoweekday() <= 5)
            out += ("%02d" % bd if iwd <= 5 else "00") + "b"
        elif sp == "Y":
            out += num(d.year, 4)
        elif sp == "y":
            out += num(d.year % 100, 2)
        elif sp == "m":
            out += num(d.month, 2)
        elif sp == "d":
            out += num(d.day, 2)
        elif sp == "j":
            out += num(yday, 3)
        elif sp == "F":
            out += "%04d-%02d-%02d" % (d.year, d.month, d.day)
        elif sp == "G":
            out += num(iy, 4)
        elif sp == "V":
            out += num(iw, 2)
        elif sp == "u":
            out += str(iwd)
        elif sp == "w":
            out += num(iwd, 2)       # the project writes Sunday as 07 (ISO), and reads 00 as well
        elif sp == "c":
            out += num((d.day - 1) // 7 + 1, 2)
        elif sp == "C":
            out += num((yday - 1) // 7 + 1, 2)
        elif sp == "U":
            out += num(int(d.strftime("%U")), 2)
        elif sp == "W":
            out += num(int(d.strftime("%W")), 2)
        elif sp == "a":
            out += WD_LONG[iwd - 1][:3]
        elif sp == "A":
            out += WD_LONG[iwd - 1]
        elif sp == "b":
            out += MO_LONG[d.month - 1][:3]
        elif sp == "B":
            out += MO_LONG[d.month - 1]
        elif sp == "Q":
            out += "Q%d" % ((d.month - 1) // 3 + 1)
        elif sp == "q":
            out += "%d" % ((d.month - 1) // 3 + 1)
        else:
            raise KeyError(it)
    return out


# (format as a list of items, parse back?) -- text items are literal; specifier items carry their modifier
FORMATS = [
    (["%Y", "-", "%m", "-", "%d"], True),
    (["%F"], True),
    (["%Y", "-", "%j"], True),
    (["%G", "-W", "%V", "-", "%u"], True),
    (["%d", " ", "%b", " ", "%Y"], True),
    (["%A", ", ", "%d", " ", "%B", " ", "%Y"], True),
    (["%a", " ", "%d", ".", "%m", ".", "%y"], True),
    (["%Od", ".", "%Om", ".", "%OY"], True),
    (["% d", " ", "% m", " ", "%Y"], True),
    (["%-d", "/", "%-m", "/", "%Y"], True),
    (["%Y", " ", "% j"], True),
    (["%Y", " ", "%-j"], True),
    (["%Y", "-", "%m", "-", "%c", "-", "%w"], True),
    (["%Y", " ", "%U", " ", "%W", " ", "%C", " ", "%Q"], False),
    (["%d", " ", "%j", " ", "%m"], False),
    (["%j", " ", "%d", " ", "%j"], False),
    (["%OY", " ", "%Om", " ", "%Od", " ", "%Oc"], False),
    (["%F", " ", "%db"], False),
    (["%b", " ", "%d", " ", "%Y"], True),
    (["%B", " ", "%-d", ", ", "%Y", " (", "%a", ")"], True),
    (["%dth", " of ", "%B", " ", "%Y"], True),
    (["%Y", " ", "%jth"], True),
    (["%Y", " ", "%U", " ", "%w"], True),
    (["%Y", " ", "%W", " ", "%w"], True),
]


def _one_week_late(day, got):
    """a year that begins on a Friday, Saturday or Sunday, and the text comes back exactly seven days later"""
    import re
    d = datetime.date.fromisoformat(day)
    m = re.match(r"\((\d+), (\d+), (\d+)\)", got)
    if not m or datetime.date(d.year, 1, 1).isoweekday() < 5:
        return False
    try:
        return datetime.date(*(int(x) for x in m.groups())) == d + datetime.timedelta(days=7)
    except ValueError:
        return False


# parse-back failures of a recognisable kind are reported under a site of their own (so that a known finding about one kind does not
# cover anything else that may go wrong with the same format)
KINDS = {"%Y %W %w": ("years that begin on a Friday, Saturday or Sunday come back one week late", _one_week_late)}
_G = {}


def _days(y, every):
    d = datetime.date(y, 1, 1)
    while d.year == y:
        if every or d.day in (1, 9, 10, 28) or d.day >= 30 or (d.month in (1, 12) and (d.day <= 4 or d.day >= 27)) or (d.month == 2 and d.day >= 27):
            yield d
        d += datetime.timedelta(days=1)


def _strlen(p):
    i = 0
    while p.get(i) != 0:
        i += 1
    return i


def _memcpy(dst, src, n):
    for i in range(n):
        dst.put(src.get(i), i)
    return dst


def _memset(dst, c, n):
    for i in range(n):
        dst.put(c & 0xff, i)
    return dst


def _strncasecmp(a, b, n):
    for i in range(n):
        x, y = a.get(i), b.get(i)
        lx, ly = (x | 0x20) if 65 <= x <= 90 else x, (y | 0x20) if 65 <= y <= 90 else y
        if lx != ly:
            return lx - ly
        if x == 0:
            return 0
    return 0


def _strchr(p, c):
    i = 0
    while True:
        x = p.get(i)
        if x == (c & 0xff):
            return CPtr(p.buf, p.off + i)
        if x == 0:
            return 0
        i += 1


def _snprintf(dst, n, fmt, *args):
    """the integer / character conversions the library uses (%d %i %u %c with flags, width and l / ll / z modifiers)"""
    import re
    f = cstr_value(fmt)
    pyf = re.sub(r"%([-0 +]*\d*)(?:hh|h|ll|l|z|j)?([diuc])", lambda m: "%" + m.group(1) + ("c" if m.group(2) == "c" else "d"), f)
    vals = tuple(chr(a & 0xff) if spec == "c" else a for spec, a in zip(re.findall(r"%[-0 +]*\d*(?:hh|h|ll|l|z|j)?([diuc])", f), args))
    if any(not isinstance(v, (int, str)) for v in vals) or len(vals) != len(args):
        raise NotConst("snprintf with `%s`" % f)
    out = (pyf % vals).encode("latin-1", "replace")
    if n > 0:
        for i, b in enumerate(out[:n - 1]):
            dst.put(b, i)
        dst.put(0, min(len(out), n - 1))
    return len(out)


def _memcmp(a, b, n):
    """text against text; or two records: equal iff every stored leaf is (a missing leaf counts as 0; only equality is decided)"""
    if isinstance(a, CPtr) and isinstance(b, CPtr):
        for i in range(n):
            if a.get(i) != b.get(i):
                return a.get(i) - b.get(i)
        return 0
    if isinstance(a, Ptr) and isinstance(b, Ptr):
        def leaves(p):
            rec = p.env.get(p.d)
            if not isinstance(rec, dict):
                return {"": rec or 0}
            pre = p.prefix + "." if p.prefix else ""
            return {k[len(pre):]: v for k, v in rec.items() if k.startswith(pre) and v != 0}
        la, lb = leaves(a), leaves(b)
        if any(not isinstance(v, int) for v in list(la.values()) + list(lb.values())):
            raise NotConst("memcmp of records holding non-integers")
        return 0 if la == lb else 1
    raise NotConst("memcmp of unlike objects")


def _memmove(dst, src, n):
    tmp = [src.get(i) for i in range(n)]
    for i, b in enumerate(tmp):
        dst.put(b, i)
    return dst


LIBC = {"memmove": _memmove, "memcmp": _memcmp, "snprintf": _snprintf, "strlen": _strlen, "memcpy": _memcpy, "memset": _memset, "strncasecmp": _strncasecmp, "strchr": _strchr}


def _worker(ys):
    tu, res, glob, E, every = _G["tu"], _G["resolve"], _G["glob"], _G["E"], _G["every"]
    E2 = _G["E2"]
    fold.RESOLVE["fn"] = res
    fold.GLOBALS["fn"] = glob
    ff, fp, fc = tu.func("dt_strfd"), tu.func("dt_strpd"), tu.func("dt_dconv")
    tabs = {}
    calls = dict(LIBC)
    bad = {}
    n = 0
    for y in ys:
        calls["dt_get_dbase"] = lambda y=y: {"typ": E["DT_YMD"], "ymd.y": y, "ymd.m": 1, "ymd.d": 1}
        for d in _days(y, every):
            val = {"typ": E["DT_YMD"], "ymd.y": d.year, "ymd.m": d.month, "ymd.d": d.day}
            # the same text whichever representation the day is held in (a smaller grid: the ends of the year and of February)
            if _G["reprs"] and ((d.month in (1, 12) and (d.day <= 4 or d.day >= 28)) or (d.month in (2, 3) and (d.day >= 28 or d.day == 1)) or every):
                for tag, mem, conv in (("DT_YD", "yd", "__ymd_to_yd"), ("DT_YWD", "ywd", "__ymd_to_ywd"), ("DT_YMCW", "ymcw", "__ymd_to_ymcw"),
                                       ("DT_DAISY", "daisy", "__ymd_to_daisy")):
                    fo = fold.Folder(tu.func(conv), calls=calls, inline=True, max_steps=3000000)
                    fo._tabs = tabs
                    r0 = fo.run([{"y": d.year, "m": d.month, "d": d.day}])
                    other = {"typ": E2[tag], mem: r0} if not isinstance(r0, dict) else {"typ": E2[tag], **{mem + "." + k: v for k, v in r0.items()}}
                    variants = [(other, FORMATS, tag)]
                    if tag == "DT_YMCW" and isinstance(r0, dict) and r0.get("w") == 7:
                        # Sunday may be spelt 0 in this representation (the parser hands `2012-09-02-00` on like that): the names are Sunday's
                        variants.append((dict(other, **{mem + ".w": 0}), [f_ for f_ in FORMATS if any(i_ in ("%a", "%A", "%db") for i_ in f_[0]) and "%w" not in f_[0]],
                                         "DT_YMCW with Sunday spelt 0"))
                    for other, fmts, tag in variants:
                      for items, back in fmts:
                          fmt = "".join(items)
                          buf = [0] * 96
                          fo = fold.Folder(ff, calls=calls, inline=True, max_steps=3000000)
                          fo._tabs = tabs
                          try:
                              r = fo.run([CPtr(buf, 0), 96, cstr(fmt), dict(other)])
                          except fold.Abort as e:
                              bad.setdefault(fmt, []).append((d.isoformat(), "print held as %s" % tag, "abort: %s" % e, ""))
                              continue
                          text = bytes(buf[:r]).decode("latin-1") if isinstance(r, int) and 0 <= r <= 96 else None
                          n += 1
                          if text != _expect(items, d):
                              bad.setdefault(fmt, []).append((d.isoformat(), "print held as %s" % tag, repr(text), repr(_expect(items, d))))
            for items, back in (FORMATS if _G["parse"] else []):
                fmt = "".join(items)
                buf = [0] * 96
                fo = fold.Folder(ff, calls=calls, inline=True, max_steps=3000000)
                fo._tabs = tabs
                try:
                    r = fo.run([CPtr(buf, 0), 96, cstr(fmt), dict(val)])
                except fold.Abort as e:
                    bad.setdefault(fmt, []).append((d.isoformat(), "print", "abort: %s" % e, ""))
                    continue
                text = bytes(buf[:r]).decode("latin-1") if isinstance(r, int) and 0 <= r <= 96 else None
                exp = _expect(items, d)
                n += 1
                if text != exp:
                    bad.setdefault(fmt, []).append((d.isoformat(), "print", repr(text), repr(exp)))
                    continue
                if not back:
                    continue
                frame = {"ep": 0}
                fo = fold.Folder(fp, calls=calls, inline=True, max_steps=3000000)
                fo._tabs = tabs
                try:
                    pv = fo.run([cstr(text), cstr(fmt), Ptr(frame, "ep", None)])
                    fo = fold.Folder(fc, calls=calls, inline=True, max_steps=3000000)
                    fo._tabs = tabs
                    ymd = fo.run([E["DT_YMD"], pv]) if isinstance(pv, dict) and pv.get("typ") not in (None, 0) else {}
                except fold.Abort as e:
                    bad.setdefault(fmt, []).append((d.isoformat(), "parse", "abort: %s" % e, text))
                    continue
                n += 1
                got = (ymd.get("ymd.y"), ymd.get("ymd.m"), ymd.get("ymd.d"))
                ep = frame["ep"]
                consumed = ep.off if isinstance(ep, CPtr) else None
                if got != (d.year, d.month, d.day) or consumed != len(text):
                    bad.setdefault(fmt, []).append((d.isoformat(), "parse", "%s (%s of %d characters read)" % (got, consumed, len(text)), repr(text)))
    return n, bad


def run_parallel(R, P, rule, every=False, jobs=12, parse=True, reprs=True):
    """parse: print year-month-day values and parse the text back (C09); reprs: print the same day held in the other
    representations (C02)"""
    import multiprocessing as mp
    _G.update(parse=parse, reprs=reprs)
    tu = P.tu("libdut_a-date-core.o")
    libs = [tu, P.tu("libdut_a-strops.o"), P.tu("libdut_a-token.o"), P.tu("libdut_a-dt-locale.o")]
    for f in ("dt_strfd", "dt_strpd", "dt_dconv"):
        if tu.func(f) is None:
            raise AnalysisBroken("%s vanished" % f)
        R.saw(tu.func(f))

    def resolve(name):
        for l in libs:
            f = l.func(name)
            if f is not None and getattr(f, "body", None) is not None:
                return f
        return None

    def glob(name):
        for l in libs:
            g = l.global_var(name)
            if g is not None and (g.get("init") is not None or "val" in g):
                return g
        return None
    E = {k: tu.enum_value(k) for k in ("DT_YMD",)}
    E2 = {k: tu.enum_value(k) for k in ("DT_YD", "DT_YWD", "DT_YMCW", "DT_DAISY")}
    _G.update(tu=tu, resolve=resolve, glob=glob, E=E, E2=E2, every=every)
    years = convdecode.class_years()
    chunks = [c for c in (years[i::jobs] for i in range(jobs)) if c]
    try:
        ctx = mp.get_context("fork")
        with ctx.Pool(len(chunks)) as pool:
            parts = pool.map(_worker, chunks)
    except NotConst as e:
        raise AnalysisBroken("%s: printing / parsing left the foldable fragment (%s)" % (rule, e))
    n = 0
    bad = {}
    for k, b in parts:
        n += k
        for key, lst in b.items():
            bad.setdefault(key, []).extend(lst)
    for items, back in FORMATS:
        fmt = "".join(items)
        if fmt in bad and fmt in KINDS:
            label, pred = KINDS[fmt]
            kind = sorted(x for x in bad[fmt] if x[1] == "parse" and pred(x[0], x[2]))
            if kind:
                day, what, got, exp = kind[0]
                R.finding(rule, tu.func("dt_strpd"), "format `%s`, parsed back: %s" % (fmt, label), "%d days of the grid do not come back; first: "
                          "%s printed as %s parses to %s" % (len(kind), day, exp, got))
                bad[fmt] = [x for x in bad[fmt] if x not in kind]
                if not bad[fmt]:
                    del bad[fmt]
                    continue
        if fmt in bad:
            lst = sorted(bad[fmt])
            day, what, got, exp = lst[0]
            if what.startswith("print held as"):
                R.finding(rule, tu.func("dt_strfd"), "format `%s`, %s" % (fmt, what.replace("print", "printed")), "%d days of the grid print differently "
                          "when the value is %s; first: %s prints %s, the calendar (and the year-month-day value) says %s"
                          % (len(lst), what[6:], day, got, exp))
            elif what == "print":
                R.finding(rule, tu.func("dt_strfd"), "format `%s`, printed" % fmt, "%d days of the grid print wrongly; first: %s prints %s, the "
                          "calendar says %s" % (len(lst), day, got, exp))
            else:
                R.finding(rule, tu.func("dt_strpd"), "format `%s`, parsed back" % fmt, "%d days of the grid do not come back; first: %s printed "
                          "as %s parses to %s" % (len(lst), day, exp, got))
        elif parse:
            R.ob(rule, "format `%s`: the calendar's text on every day of the grid%s" % (fmt, ", and parsing it returns the day" if back else ""), True)
        else:
            R.ob(rule, "format `%s`: the same (the calendar's) text whether the day is held as year-day, week date, month-count-weekday or day "
                 "number" % fmt, True)
    return n
