"""C14 — leap-second aware results follow the leap-second table.

 RF2-leap    lib/leap-seconds.def (as compiled into the library) against lib/leap-seconds.list: six parallel arrays
             of n+2 entries, sentinels, leaps_corr steps, instants, and the day/ymd/ymcw/hms encodings of each entry
             (encodings computed from the record layouts and a first-principles calendar)
 RF13-found  find_before_* return their probe index only after the interval test held for it
 RF13-progress  every bound update of the bisection moves strictly
 RF3-key     lookup keys (instants, 64 bit) are never narrowed to the 32-bit key type without a range clamp
 RF1-idx     an index into the leap tables is only used as subscript/comparison, never as a number of seconds
 RF10-overlay  the leap correction shares the upper bits of the duration's value slot (checked against the record layout): a
             producer that stores the slot and marks the duration leap-aware stores the correction afterwards on every path
 RF11-next   `tbl[i + 1]` is read only under `i + 1 < nleaps`
"""
import os
import re
from core import (AnalysisBroken, strip, kids, const_of, call_args, expr_text, walk, origins, local_defs, guards_of,
                  norm_cond, global_value, CASTS, REPO)
from oracle import gregorian as G
import tzrules

NTP_UNIX = 2208988800


def parse_list(path):
    out = []
    for ln in open(path):
        ln = ln.split("#", 1)[0].strip()
        if not ln:
            continue
        f = ln.split()
        if len(f) >= 2 and f[0].isdigit():
            out.append((int(f[0]), int(f[1])))
    return out


def pack(tu, recname, vals):
    rec = tu.record(recname)
    if rec is None:
        raise AnalysisBroken("record %s vanished" % recname)
    u = 0
    cells = {p: (off, w) for p, off, w, sg in tu.flatten_record(rec)}
    for k, v in vals.items():
        if k not in cells:
            raise AnalysisBroken("field %s.%s vanished" % (recname, k))
        off, w = cells[k]
        if v >= (1 << w):
            raise AnalysisBroken("value %d does not fit %s.%s" % (v, recname, k))
        u |= v << off
    return u


def check_table(P, R):
    rule = "RF2-leap"
    lst = parse_list(os.path.join(REPO, "lib", "leap-seconds.list"))
    if len(lst) < 20:
        raise AnalysisBroken("leap-seconds.list not parsed (%d entries)" % len(lst))
    n = len(lst)
    tus = [P.tu("tzraw.c"), P.tu("dt-core.c")]
    ltu = tus[1]
    for tu in tus[:1]:
        arr = {}
        for name in ("leaps_corr", "leaps_s", "leaps_d", "leaps_ymd", "leaps_ymcw", "leaps_hms"):
            v = global_value(tu, name)
            if not isinstance(v, list):
                raise AnalysisBroken("%s: array %s not found in %s" % (rule, name, tu.obj))
            arr[name] = v
        where = tu.obj
        lens = {k: len(v) for k, v in arr.items()}
        if set(lens.values()) != {n + 2}:
            R.finding(rule, None, "array lengths (%s)" % where, "leap arrays must have %d entries (list has %d + 2 sentinels): %s" % (n + 2, n, lens),
                      file="lib/leap-seconds.def", line=1)
            continue
        R.ob(rule, "%s: six arrays of %d entries" % (where, n + 2), True)
        bad = []
        # list sanity: instants increasing, corr steps +-1, never decreasing (the property says so)
        for i in range(1, n):
            if lst[i][0] <= lst[i - 1][0] or lst[i][1] - lst[i - 1][1] != 1:
                bad.append("list entry %d: step %d at NTP %d" % (i, lst[i][1] - lst[i - 1][1], lst[i][0]))
        c, s, d, ymd, ymcw, hms = (arr[k] for k in ("leaps_corr", "leaps_s", "leaps_d", "leaps_ymd", "leaps_ymcw", "leaps_hms"))
        if c[0] != lst[0][1]:
            bad.append("leaps_corr[0]=%d, before the first entry TAI-UTC is %d" % (c[0], lst[0][1]))
        if c[n + 1] != lst[-1][1]:
            bad.append("leaps_corr[last]=%d, the last value %d must stay in force" % (c[n + 1], lst[-1][1]))
        if s[0] != -(1 << 31) or s[n + 1] != (1 << 31) - 1:
            bad.append("leaps_s sentinels are %d/%d" % (s[0], s[n + 1]))
        if d[0] != 0 or ymd[0] != 0 or ymcw[0] != 0:
            bad.append("first sentinels of leaps_d/ymd/ymcw must be 0")
        if d[n + 1] != 0xffffffff or ymd[n + 1] != 0xffffffff or ymcw[n + 1] != 0xffffffff:
            bad.append("last sentinels of leaps_d/ymd/ymcw must be UINT32_MAX")
        for i in range(1, n + 1):
            ntp, corr = lst[i - 1]
            ux = ntp - NTP_UNIX            # first second with the new offset
            if c[i] != corr:
                bad.append("leaps_corr[%d]=%d, list says %d" % (i, c[i], corr))
            if s[i] != ux - 1:
                bad.append("leaps_s[%d]=%d, expected %d (instant - 1)" % (i, s[i], ux - 1))
            # the day that carries 23:59:60 (or is cut short) is the day before `ux`
            day = (ux - 1) // 86400
            y, m, dd = G.from_rata(G.rata(1970, 1, 1) + day)
            want_d = G.daisy(y, m, dd)
            if d[i] != want_d:
                bad.append("leaps_d[%d]=%d, expected %d (%04d-%02d-%02d)" % (i, d[i], want_d, y, m, dd))
            want_ymd = pack(ltu, "dt_ymd_t", {"y": y, "m": m, "d": dd})
            if ymd[i] != want_ymd:
                bad.append("leaps_ymd[%d]=%#x, expected %#x (%04d-%02d-%02d)" % (i, ymd[i], want_ymd, y, m, dd))
            w = G.wday(y, m, dd) % 7   # dateutils: Sunday = 0 in ymcw? decided below from the data
            cnt = (dd - 1) // 7 + 1
            cands = {pack(ltu, "dt_ymcw_t", {"y": y, "m": m, "c": cnt, "w": ww}) for ww in (G.wday(y, m, dd), G.wday(y, m, dd) % 7)}
            if ymcw[i] not in cands:
                bad.append("leaps_ymcw[%d]=%#x, expected one of %s" % (i, ymcw[i], sorted(map(hex, cands))))
            want_hms = (23 << 16) | (59 << 8) | 60
            if hms[i] != want_hms:
                bad.append("leaps_hms[%d]=%#x, expected %#x (23:59:60)" % (i, hms[i], want_hms))
        if bad:
            for b in bad[:12]:
                R.finding(rule, None, "%s: %s" % (where, b.split("=")[0].split(",")[0]), b, file="lib/leap-seconds.def", line=1)
        else:
            R.ob(rule, "%s: %d entries x 6 encodings agree with leap-seconds.list" % (where, n), True,
                 sample={"rule": rule, "unit": where, "entries": n, "first": [lst[0][0] - NTP_UNIX, lst[0][1]], "last": [lst[-1][0] - NTP_UNIX, lst[-1][1]]})
        nl = global_value(tu, "nleaps")
    # the hms encoding assumption: u24 = h<<16|m<<8|s  -- check against the record layout
    tu = tus[1]
    rec = tu.record("dt_hms_t")
    if rec is not None:
        cells = {p: (off, w) for p, off, w, sg in tu.flatten_record(rec)}
        base = cells.get("u24", (None,))[0]
        ok = base is not None and all(k in cells for k in "hms") and \
            (cells["h"][0] - base, cells["m"][0] - base, cells["s"][0] - base) == (16, 8, 0)
        if ok:
            R.ob(rule, "dt_hms_t.u24 packs h<<16|m<<8|s", True)
        else:
            R.finding(rule, None, "dt_hms_t layout", "u24 does not overlay h/m/s as h<<16|m<<8|s: %s" % cells, file="lib/time-core.h", line=rec["line"])


def check_keys(P, R):
    rule = "RF3-key"
    n = 0
    for fn in P.all_functions():
        if fn.tu.obj.startswith(("tzraw-", "ltrcc-", "tzmap-")):
            continue
        for c in fn.calls():
            if not re.match(r"(leaps_before|find_before)_(si32|ui32)$", c.get("callee") or ""):
                continue
            if fn.name.startswith("leaps_before_"):
                continue  # the wrappers hand their own 32-bit parameter on
            args = call_args(c)
            key = args[2]
            n += 1
            R.saw(fn)
            _narrow_check(fn, key, R, rule, "key of %s" % c["callee"])
        # explicit (int32_t) casts anywhere in the leap helpers
        if fn.name in ("leaps_before", "leaps_si32_key", "__tai_offs", "__gps_offs"):
            for x in fn.walk():
                if x.get("k") in CASTS and x.get("ck") == "IntegralCast":
                    par = fn.parent(x)
                    if par is not None and par.get("k") == "CallExpr":
                        continue
                    tt, st_ = fn.tu.types[x["t"]], fn.tu.types[x["c"][0]["t"]]
                    if not (tt.get("w", 64) < st_.get("w", 0) and st_.get("w", 0) == 64):
                        continue
                    n += 1
                    _narrow_check(fn, x, R, rule, "cast in %s" % fn.name)
    R.floor(rule, "leap lookup keys", n, 3)


def _narrow_check(fn, key, R, rule, what):
    """key: argument expression incl. its implicit conversion"""
    k = key
    narrowed = None
    while k is not None and k.get("k") in CASTS:
        if k.get("ck") == "IntegralCast":
            tt = fn.tu.types[k["t"]]
            st = fn.tu.types[k["c"][0]["t"]]
            if tt.get("w", 64) < st.get("w", 0):
                narrowed = (k, st, tt)
        k = k["c"][0]
    src = strip(key)
    site = "%s: %s" % (what, expr_text(src))
    if narrowed is None:
        R.ob(rule, "%s %s (no narrowing)" % (fn.name, site), True)
        return
    node, st, tt = narrowed
    # accepted when range-guarded on both sides
    txt = expr_text(strip(node["c"][0]))
    lo = hi = False
    for g in guards_of(fn, node):
        if "pol" not in g:
            continue
        op, a, b = norm_cond(g["cond"], g["pol"])
        try:
            bv = int(b)
        except ValueError:
            continue
        if a == txt and op in ("<", "<=") and bv <= (1 << 31):
            hi = True
        if a == txt and op in (">", ">=") and bv >= -(1 << 31) - 1:
            lo = True
    if lo and hi:
        R.ob(rule, "%s %s (clamped)" % (fn.name, site), True)
    else:
        R.finding(rule, fn, site,
                  "an instant of type %s (%d bits) is narrowed to the %d-bit key type without a range clamp: instants after "
                  "2038-01-19 wrap and are looked up before the first table entry" % (st["s"], st.get("w", 0), tt.get("w", 0)), node)


def check_index_use(P, R):
    rule = "RF1-idx"
    n = 0
    for tn in ("dt-core.c", "tzraw.c"):
        tu = P.tu(tn)
        for fn in tu.funclist:
            idx_vars = set()
            defs = local_defs(fn)
            changed = True
            while changed:
                changed = False
                for d, rhss in defs.items():
                    if d in idx_vars:
                        continue
                    for r in rhss:
                        rs = strip(r)
                        if rs is None:
                            continue
                        if rs.get("k") == "BinaryOperator" and rs.get("op") in ("+", "-") and const_of(rs["c"][1]) is not None:
                            rs = strip(rs["c"][0])
                        if rs.get("k") == "BinaryOperator" and rs.get("op") == ",":
                            rs = strip(rs["c"][1])
                        if (rs.get("k") == "CallExpr" and re.match(r"(leaps_before|find_before)", rs.get("callee") or "")) or \
                                (rs.get("k") == "DeclRefExpr" and rs.get("d") in idx_vars):
                            idx_vars.add(d)
                            changed = True
                            break
            if not idx_vars:
                continue
            R.saw(fn)
            fn.nodes
            for x in fn.walk():
                if x.get("k") != "DeclRefExpr" or x.get("d") not in idx_vars:
                    continue
                cur, par = x, fn.parent(x)
                while par is not None and par.get("k") in CASTS:
                    cur, par = par, fn.parent(par)
                ok = False
                why = ""
                if par is None:
                    ok = True
                else:
                    pk = par.get("k")
                    if pk == "ArraySubscriptExpr" and kids(par)[1] is cur:
                        ok = True
                    elif pk == "BinaryOperator" and par.get("op") in ("==", "!=", "<", ">", "<=", ">=", "=", ","):
                        ok = True
                    elif pk == "BinaryOperator" and par.get("op") in ("+", "-") and const_of(kids(par)[1]) == 1:
                        gp = fn.parent(par)
                        while gp is not None and gp.get("k") in CASTS:
                            gp = fn.parent(gp)
                        ok = gp is not None and (gp.get("k") == "ArraySubscriptExpr" or
                                                 (gp.get("k") == "BinaryOperator" and gp.get("op") in ("<", ">", "<=", ">=", "==", "!=")))
                        why = "index +- 1 outside subscript/comparison"
                    elif pk == "UnaryOperator" and par.get("op") in ("++", "--"):
                        ok = True
                    elif pk in ("ReturnStmt", "Var", "CompoundStmt", "IfStmt", "DeclStmt"):
                        ok = True
                    elif pk == "CallExpr":
                        ok = True
                    else:
                        why = "used in %s %s" % (pk, par.get("op", ""))
                n += 1
                if ok:
                    R.ob(rule, "%s use of %s @%s" % (fn.name, x["n"], x.get("l")), True)
                else:
                    R.finding(rule, fn, "arithmetic on index %s: %s" % (x["n"], expr_text(par)),
                              "a leap-table index is used as a number (%s); the first table entry is not an inserted second, "
                              "only leaps_corr[] differences count leap seconds" % (why or expr_text(par)), x)
    R.floor(rule, "uses of leap-table indices", n, 10)


def _helper_bounds(tu, call, it):
    """the flag comes from a small predicate `f(.., i, ..)` that returns `i + 1 < nleaps && ...`, called with the index that is
    read at `it` (= index + 1)"""
    f2 = tu.func(call.get("callee"))
    if f2 is None or getattr(f2, "body", None) is None:
        return False
    rets = [r for r in f2.walk() if r.get("k") == "ReturnStmt" and kids(r)]
    if len(rets) != 1:
        return False
    e = strip(kids(rets[0])[0])
    if e is None or e.get("k") != "BinaryOperator" or e.get("op") != "&&":
        return False
    nc = norm_cond(strip(e["c"][0]), True)
    if nc[0] != "<" or nc[2] != "nleaps":
        return False
    args = call_args(call)
    for i, p_ in enumerate(f2.params):
        if i < len(args) and nc[1].replace("(", "").replace(")", "").replace(" ", "") == (p_["n"] + "+1"):
            return (expr_text(strip(args[i])) + "+1").replace(" ", "") == it.replace("(", "").replace(")", "").replace(" ", "")
    return False


def check_next_guard(P, R):
    rule = "RF11-next"
    tu = P.tu("dt-core.c")
    fn = tu.func("leaps_before")
    if fn is None:
        raise AnalysisBroken("leaps_before vanished")
    R.saw(fn)
    n = 0
    # predicates cut out of leaps_before (called from it, handed one of the tables): their reads count as its own
    helpers = []
    for c in fn.walk():
        if c.get("k") == "CallExpr" and c.get("callee") and any(
                (strip(a) or {}).get("k") == "DeclRefExpr" and str((strip(a) or {}).get("n", "")).startswith("leaps_") for a in call_args(c)):
            h = tu.func(c["callee"])
            if h is not None and getattr(h, "body", None) is not None and h not in helpers and len(list(h.walk())) < 80:
                helpers.append(h)
    for h in helpers:
        for x in h.walk():
            if x.get("k") != "ArraySubscriptExpr":
                continue
            base, idx = strip(x["c"][0]), strip(x["c"][1])
            if base is None or base.get("k") != "DeclRefExpr" or base.get("dk") != "parm":
                continue
            if idx is None or idx.get("k") != "BinaryOperator" or idx.get("op") != "+":
                continue
            n += 1
            it = expr_text(idx)
            gs = [norm_cond(g["cond"], g["pol"]) for g in guards_of(h, x) if "pol" in g]
            if any(op == "<" and a == it and b == "nleaps" for op, a, b in gs):
                R.ob(rule, "%s: %s[%s] under %s < nleaps" % (h.name, base["n"], it, it), True)
            else:
                R.finding(rule, h, "%s[%s]" % (base["n"], it), "table read at index+1 without the bound test `%s < nleaps`" % it, x)
    defs = local_defs(fn)
    for x in fn.walk():
        if x.get("k") != "ArraySubscriptExpr":
            continue
        base = strip(x["c"][0])
        idx = strip(x["c"][1])
        if base is None or base.get("k") != "DeclRefExpr" or not base["n"].startswith("leaps_"):
            continue
        if idx is None or idx.get("k") != "BinaryOperator" or idx.get("op") != "+":
            continue
        n += 1
        it = expr_text(idx)
        gs = [norm_cond(g["cond"], g["pol"]) for g in guards_of(fn, x) if "pol" in g]
        ok = any(op == "<" and a == it and b == "nleaps" for op, a, b in gs)
        if not ok:
            # guarded by a flag variable every definition of which is `bound && ...` or a constant false
            for op, a, b in gs:
                if op == "!=" and b == "0":
                    for d, rhss in defs.items():
                        nm = [p for p in fn.walk() if p.get("k") == "DeclRefExpr" and p.get("d") == d]
                        if nm and nm[0]["n"] == a:
                            alld = True
                            for r in rhss:
                                rs = strip(r)
                                if const_of(rs) == 0:
                                    continue
                                if rs is not None and rs.get("k") == "BinaryOperator" and rs.get("op") == "&&":
                                    l = strip(rs["c"][0])
                                    if l is not None and norm_cond(l, True)[0] == "<" and norm_cond(l, True)[2] == "nleaps":
                                        continue
                                if rs is not None and rs.get("k") == "CallExpr" and _helper_bounds(tu, rs, it):
                                    continue
                                alld = False
                            ok = ok or alld
        if ok:
            R.ob(rule, "%s[%s] under %s < nleaps" % (base["n"], it, it), True)
        else:
            R.finding(rule, fn, "%s[%s]" % (base["n"], it), "table read at index+1 without the bound test `%s < nleaps`" % it, x)
    R.floor(rule, "index+1 reads", n, 3)


def check_return_bound(fn, R):
    """bounds-style bisection: the index returned is the bound that moves on `key > v[mid]`, i.e. the largest index
    whose element is below the key"""
    rule = "RF13-found"
    pn = {p["d"]: p["n"] for p in fn.params}
    lower = None
    for n in fn.walk():
        if n.get("k") != "IfStmt":
            continue
        cond = strip(n["c"][0])
        if cond is None or cond.get("k") != "BinaryOperator" or cond.get("op") not in (">", "<", ">=", "<="):
            continue
        a, b = strip(cond["c"][0]), strip(cond["c"][1])
        op = cond["op"]
        if b is not None and b.get("k") == "DeclRefExpr" and b.get("d") in pn and a.get("k") == "ArraySubscriptExpr":
            a, b, op = b, a, tzrules.FLIP[op]
        if not (a is not None and a.get("k") == "DeclRefExpr" and a.get("d") in pn and b is not None and b.get("k") == "ArraySubscriptExpr"):
            continue
        # key OP v[mid]
        then, els = n["c"][1], (n["c"][2] if len(n["c"]) > 2 else None)
        tgt = then if op == ">" else (els if op == "<=" else None)
        if tgt is None:
            R.finding(rule, fn, "interval test %s" % expr_text(cond),
                      "the table intervals are (v[i], v[i+1]]: the lower bound must move exactly when key > v[mid]", cond)
            return
        for x in walk(tgt):
            if x.get("k") == "BinaryOperator" and x.get("op") == "=":
                l = strip(x["c"][0])
                if l is not None and l.get("k") == "DeclRefExpr":
                    lower = l
    if lower is None:
        return  # cursor-style loop: covered by found_guard
    for n in fn.walk():
        if n.get("k") == "ReturnStmt" and kids(n):
            rv = strip(kids(n)[0])
            if rv is not None and rv.get("k") == "DeclRefExpr" and rv.get("d") == lower["d"]:
                R.ob(rule, "%s returns the lower bound %s" % (fn.name, lower["n"]), True)
            else:
                R.finding(rule, fn, "return %s" % expr_text(rv),
                          "the search must return the lower bound `%s` (largest index below the key); it returns %s"
                          % (lower["n"], expr_text(rv)), n)


def check_overlay(P, R):
    """RF10-overlay: in the duration record the leap correction `corr` shares the upper bits of the value slot `dv` (record layout).
    Whoever stores the whole slot and marks the duration leap-aware must store the correction afterwards on every path -- what is
    left in it otherwise is the upper part of the value, i.e. the sign extension -1 for every negative difference."""
    from core import walk, member_path, norm_cond, expr_text, kids, const_of, strip
    rule = "RF10-overlay"
    tu = P.tu("libdut_a-dt-core.o")
    # the overlap itself, from the record layout
    rec = tu.record("dt_dtdur_s")
    if rec is None:
        raise AnalysisBroken("%s: record dt_dtdur_s not found" % rule)
    allm = _flat(tu, rec)
    flat = {nm: (off, w) for nm, off, w in allm if nm in ("corr", "soft")}
    # the value slot: the widest member called dv (the sandwich's date part has a dv of its own)
    dvs = sorted(((w, off) for nm, off, w in allm if nm == "dv"), reverse=True)
    if not dvs or not all(k in flat for k in ("corr", "soft")):
        raise AnalysisBroken("%s: members dv / soft / corr of dt_dtdur_s not found in the layout" % rule)
    flat["dv"] = (dvs[0][1], dvs[0][0])
    (dvo, dvw), (co, cw), (so, sw) = flat["dv"], flat["corr"], flat["soft"]
    if not (dvo <= co and co + cw <= dvo + dvw and dvo <= so and so + sw <= dvo + dvw and (so + sw <= co or co + cw <= so)):
        raise AnalysisBroken("%s: corr / soft no longer overlay dv (%s)" % (rule, (flat["dv"], flat["soft"], flat["corr"])))
    R.ob(rule, "layout: dv [%d,+%d) holds soft [%d,+%d) and corr [%d,+%d)" % (dvo, dvw, so, sw, co, cw), True)
    n = 0
    for fn in (tu.functions.values() if isinstance(tu.functions, dict) else tu.functions):
        if getattr(fn, "body", None) is None:
            continue
        marks = [x for x in fn.walk() if x.get("k") == "BinaryOperator" and x.get("op") == "=" and
                 strip(x["c"][0]).get("k") == "MemberExpr" and member_path(x["c"][0])[1][-1:] == ["tai"] and const_of(x["c"][1]) != 0]      # anything that may set the mark
        if not marks:
            continue
        # a producer that stores the correction on some path (contradiction rule: then it must on all); a parser that only marks
        # a duration leap-aware hands it to the adders, which never read the correction
        if not any(x.get("k") == "BinaryOperator" and x.get("op") == "=" and strip(x["c"][0]).get("k") == "MemberExpr" and
                   member_path(x["c"][0])[1][-1:] == ["corr"] for x in fn.walk()):
            continue
        R.saw(fn)
        for mk in marks:
            n += 1
            base = member_path(mk["c"][0])[0]
            bd = base.get("d") if base is not None else None

            def writes(member, node=None):
                return [x for x in (walk(node) if node is not None else fn.walk()) if x.get("k") == "BinaryOperator" and x.get("op") == "=" and
                        strip(x["c"][0]).get("k") == "MemberExpr" and member_path(x["c"][0])[1][-1:] == [member] and
                        member_path(x["c"][0])[0] is not None and member_path(x["c"][0])[0].get("d") == bd]
            slot = writes("dv")
            cw_ = writes("corr")
            site = "%s: duration marked leap-aware at %s" % (fn.name, fn.where(mk))
            if not slot:
                continue
            if not cw_:
                R.finding(rule, fn, site, "the value slot is stored and the duration is marked leap-aware, but the correction field that shares "
                          "its upper bits is never stored", mk)
                continue
            def must(st):
                if st is None:
                    return False
                k = st.get("k")
                if k == "BinaryOperator" and st.get("op") == "=":
                    return any(st is w for w in cw_)
                if k in ("CompoundStmt",):
                    return any(must(c) for c in kids(st))
                if k == "IfStmt":
                    return len(st["c"]) > 2 and st["c"][2] is not None and must(st["c"][1]) and must(st["c"][2])
                return False
            # the outermost statement around the stores through which every path stores the correction
            region = None
            anc = cw_[0]
            while anc is not None and anc.get("k") not in ("FunctionDecl",):
                if must(anc):
                    region = anc
                elif region is not None:
                    break
                anc = fn.parent(anc)
            blk = region
            if region is None:
                ok, why = False, "no statement stores the correction on all of its paths"
            else:
                g_mark = [norm_cond(c_, pol) for c_, pol in _if_guards(fn, mk)]
                rhs_ = strip(mk["c"][1])
                if rhs_ is not None and rhs_.get("k") == "ConditionalOperator":
                    # res.tai = cond ? 0 : 1  -- the mark is set under the condition that selects the non-zero arm
                    a_, b_ = const_of(rhs_["c"][1]), const_of(rhs_["c"][2])
                    if a_ == 0 and b_ not in (0, None):
                        g_mark.append(norm_cond(rhs_["c"][0], False))
                    elif b_ == 0 and a_ not in (0, None):
                        g_mark.append(norm_cond(rhs_["c"][0], True))
                g_reg = [norm_cond(c_, pol) for c_, pol in _if_guards(fn, region)]
                same = all(g in g_mark for g in g_reg)
                after = region["i"] > max(s_["i"] for s_ in slot)
                ok = same and after
                why = "runs whenever the duration is marked leap-aware: %s (its guards %s, the mark's %s), after the slot store: %s" % (same, g_reg, g_mark, after)
            if ok:
                R.ob(rule, "%s: the correction is stored on every path after the value slot" % site, True)
            else:
                R.finding(rule, fn, site, "after the whole value slot has been stored, the correction field sharing its upper bits must be stored on "
                          "every path of a leap-aware duration (%s); otherwise it holds the top of the value: -1 for every negative difference that "
                          "crosses no leap second" % why, blk if blk is not None else mk)
    R.floor(rule, "producers of leap-aware durations", n, 1)


def _if_guards(fn, node):
    """(condition, polarity) of every enclosing if-branch"""
    out = []
    cur = node
    while cur is not None:
        par = fn.parent(cur)
        if par is not None and par.get("k") == "IfStmt":
            if len(par["c"]) > 1 and par["c"][1] is cur:
                out.append((par["c"][0], True))
            elif len(par["c"]) > 2 and par["c"][2] is cur:
                out.append((par["c"][0], False))
        cur = par
    return out


def _flat(tu, rec):
    """(member name, bit offset, bit width) of all members, anonymous records flattened"""
    out = []
    for path, off, w, _sg in tu.flatten_record(rec):
        out.append((path.split(".")[-1], off, w))
    return out


def check(P, R, tier):
    check_overlay(P, R)
    # TAI / GPS labelled stamps go through the zone code: the offset (the leap count) is a function of the UTC instant
    import c12
    c12.check_fixpoint(P, R)
    import leapdecode
    nl = leapdecode.run(R, P, "RF2-leap-arith")
    R.floor("RF2-leap-arith", "decoded points of the leap second arithmetic", nl, 4000)
    check_table(P, R)
    tu = P.tu("leaps.c")
    nf = 0
    for name in ("find_before_ui32", "find_before_si32", "find_before_ui64", "find_before_si64"):
        fn = tu.func(name)
        if fn is None:
            raise AnalysisBroken("%s vanished" % name)
        R.saw(fn)
        a = tzrules.found_guard(fn, R, "RF13-found")
        b = tzrules.bisection_progress(fn, R, "RF13-progress")
        if a + b == 0:
            raise AnalysisBroken("search loop of %s not recognised" % name)
        nf += a + b
        # whatever the loop shape: the value returned must be an index for which lo < key <= up was established,
        # i.e. either the found-guard rule applied (cursor returned) or the bounds-based form returns the lower bound
        check_return_bound(fn, R)
    R.floor("RF13-found", "search loops in leaps.c", nf, 4)
    check_keys(P, R)
    check_index_use(P, R)
    check_next_guard(P, R)


LEVEL = ("Exhaustive comparison of the compiled leap tables (extracted by the compiler front end from the unit that "
         "includes leap-seconds.def) with leap-seconds.list in all six encodings, the encodings being computed from the "
         "record layouts and an independent calendar; plus structural rules on the lookup: found-guard/progress of the "
         "bisection, no unclamped narrowing of lookup keys, indices used only as indices, bound test before [i+1].")
RULE = ("obligation = table relation per unit, or one rule instance at one site (search loop, lookup key, use of an index "
        "variable, index+1 read)")
ASSUME = ["leap-seconds.list is the authority (NTP seconds, TAI-UTC)", "NTP epoch offset 2208988800",
          "the arithmetic around the looked-up correction (dt_dtadd fix-up) is not decided"]
