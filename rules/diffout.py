"""RF2-out: what ddiff prints, decoded: the whole pipeline from two date-times and a format to the text.

determine_durfmt -> determine_durtype -> dt_dtdiff -> __strfdtdur (src/ddiff.c and the library) are folded as they stand for pairs
of date-times (base points at year ends, the leap day and mid-year; distances of 0, +-1 s, +-1 min +- 1 s, +-1 h +- 1 s, +-1 day
+- 1 s, +-1 week +- 1 s, +-30, +-400 days and a few more) and for every non-empty subset of the fixed-length units %w %d %H %M %S:
the text must be the duration truncated toward zero to the finest requested unit, cascaded coarsest first with every refined unit
inside its natural range, with one leading minus sign for negative durations and none otherwise.  The month / year formats %m %d,
%Y %m %d, %Y %d, %m, %Y are folded on pairs of dates up to 1000 days apart (earlier day of the month <= 28): whole months (years)
that fit, months below 12 under years, the remaining days."""
import datetime
import itertools
import re
from core import AnalysisBroken, NotConst
import fold
from fold import CPtr, cstr
import fmtdecode

UNITS = [("w", 604800), ("d", 86400), ("H", 3600), ("M", 60), ("S", 1)]
_G = {}


def _expect(units, T):
    rem = abs(T)
    finest = units[-1][1]
    rem = rem // finest * finest
    out = []
    for nm, u in units:
        out.append(rem // u)
        rem %= u
    return ("-" if T < 0 and any(out) or (T < 0 and True) else "") , out


def _worker(job):
    tu, res, glob, E = _G["tu"], _G["resolve"], _G["glob"], _G["E"]
    fold.RESOLVE["fn"] = res
    fold.GLOBALS["fn"] = glob
    calls = dict(fmtdecode.LIBC)
    tabs = {}

    def call(name, *args):
        f = tu.func(name)
        if f is None or getattr(f, "body", None) is None:
            f = res(name)
        fo = fold.Folder(f, calls=calls, inline=True, max_steps=3000000)
        fo._tabs = tabs
        return fo.run(list(args))

    def rec(p):
        return {"typ": E["DT_YMD"], "sandwich": 1, "d.typ": E["DT_YMD"], "d.ymd.y": p.year, "d.ymd.m": p.month, "d.ymd.d": p.day,
                "t.typ": E["DT_HMS"], "t.hms.h": p.hour, "t.hms.m": p.minute, "t.hms.s": p.second, "t.hms.ns": 0}
    bad = []
    n = 0
    for p1 in job:
        for dlt in _G["deltas"]:
            p2 = p1 + datetime.timedelta(seconds=dlt)
            for k in range(1, len(UNITS) + 1):
                for units in itertools.combinations(UNITS, k):
                    fmt = " ".join("%" + nm for nm, _ in units)
                    try:
                        f = call("determine_durfmt", cstr(fmt))
                        d1, d2 = rec(p1), rec(p2)
                        typ = call("determine_durtype", dict(d1), dict(d2), dict(f))
                        dur = call("dt_dtdiff", typ, dict(d1), dict(d2))
                        buf = [0] * 256
                        ln = call("__strfdtdur", CPtr(buf, 0), 256, cstr(fmt), dict(dur), dict(f), 0)
                        text = bytes(buf[:ln]).decode("latin-1")
                    except fold.Abort as e:
                        text = "abort: %s" % e
                    n += 1
                    sign, comps = _expect(units, dlt)
                    m = re.fullmatch("(-?)" + " ".join(["([0-9]+)"] * len(units)), text)
                    ok = False
                    if m:
                        got = [int(x) for x in m.groups()[1:]]
                        neg = m.group(1) == "-"
                        # a duration that truncates to nothing may or may not keep its sign
                        ok = got == comps and (neg == (dlt < 0) or (not any(comps) and dlt < 0))
                    if not ok and len(bad) < 300:
                        bad.append((p1.isoformat(), dlt, fmt, text, ("-" if dlt < 0 else "") + " ".join(str(c) for c in comps)))
    # month / year formats on pairs of dates (earlier day of the month <= 28)
    def drec(p):
        return {"typ": E["DT_YMD"], "sandwich": 0, "d.typ": E["DT_YMD"], "d.ymd.y": p.year, "d.ymd.m": p.month, "d.ymd.d": p.day}

    def addm(d, k):
        t = d.year * 12 + d.month - 1 + k
        return datetime.date(t // 12, t % 12 + 1, d.day)
    for p1 in job:
        a = datetime.date(p1.year, p1.month, min(p1.day, 28))
        for days in (0, 1, 27, 28, 29, 31, 59, 60, 365, 366, 400, 731, 1000):
            for sgn in (1, -1):
                b = a + datetime.timedelta(days=days * sgn)
                lo, hi = (a, b) if a <= b else (b, a)
                if lo.day > 28:
                    continue
                T = (hi.year - lo.year) * 12 + hi.month - lo.month
                if addm(lo, T) > hi:
                    T -= 1
                D = (hi - addm(lo, T)).days
                Y = hi.year - lo.year
                if lo.replace(year=lo.year + Y) > hi:
                    Y -= 1
                Dy = (hi - lo.replace(year=lo.year + Y)).days
                for fmt, comps in (("%m %d", [T, D]), ("%Y %m %d", [T // 12, T % 12, D]), ("%Y %d", [Y, Dy]), ("%m", [T]), ("%Y", [Y])):
                    try:
                        f = call("determine_durfmt", cstr(fmt))
                        d1, d2 = drec(a), drec(b)
                        typ = call("determine_durtype", dict(d1), dict(d2), dict(f))
                        dur = call("dt_dtdiff", typ, dict(d1), dict(d2))
                        buf = [0] * 256
                        ln = call("__strfdtdur", CPtr(buf, 0), 256, cstr(fmt), dict(dur), dict(f), 1)
                        text = bytes(buf[:ln]).decode("latin-1")
                    except fold.Abort as e:
                        text = "abort: %s" % e
                    n += 1
                    m = re.fullmatch("(-?)" + " ".join(["([0-9]+)"] * len(comps)), text)
                    ok = False
                    if m:
                        got = [int(x) for x in m.groups()[1:]]
                        neg = m.group(1) == "-"
                        ok = got == comps and (neg == (b < a) or (not any(comps) and b < a))
                    if not ok and len(bad) < 300:
                        bad.append((a.isoformat(), (b - a).days * 86400, fmt, text, ("-" if b < a else "") + " ".join(str(c) for c in comps)))
    # years / months with finer units that skip the days (and the hours): what the coarse unit does not take is carried on
    def addm_dt(d, k):
        t = d.year * 12 + d.month - 1 + k
        return d.replace(year=t // 12, month=t % 12 + 1)
    for p1 in job:
        a = p1.replace(day=min(p1.day, 28))
        for secs in (3600 * 5, 86400 * 61 + 3600 * 5, 86400 * 426 + 1800, 86400 * 790 + 59):
            for sgn in (1, -1):
                b = a + datetime.timedelta(seconds=secs * sgn)
                lo, hi = (a, b) if a <= b else (b, a)
                if lo.day > 28:
                    continue
                T = (hi.year - lo.year) * 12 + hi.month - lo.month
                if addm_dt(lo, T) > hi:
                    T -= 1
                rm = int((hi - addm_dt(lo, T)).total_seconds())
                Y = hi.year - lo.year
                if addm_dt(lo, 12 * Y) > hi:
                    Y -= 1
                ry = int((hi - addm_dt(lo, 12 * Y)).total_seconds())
                for fmt, comps in (("%Y %H", [Y, ry // 3600]), ("%Y %M", [Y, ry // 60]), ("%Y %d %H", [Y, ry // 86400, ry % 86400 // 3600]),
                                   ("%m %H", [T, rm // 3600]), ("%m %d %M", [T, rm // 86400, rm % 86400 // 60]),
                                   ("%Y %m %H", [T // 12, T % 12, rm // 3600]), ("%Y %S", [Y, ry])):
                    try:
                        f = call("determine_durfmt", cstr(fmt))
                        d1, d2 = rec(a), rec(b)
                        typ = call("determine_durtype", dict(d1), dict(d2), dict(f))
                        dur = call("dt_dtdiff", typ, dict(d1), dict(d2))
                        buf = [0] * 256
                        ln = call("__strfdtdur", CPtr(buf, 0), 256, cstr(fmt), dict(dur), dict(f), 0)
                        text = bytes(buf[:ln]).decode("latin-1")
                    except fold.Abort as e:
                        text = "abort: %s" % e
                    n += 1
                    m = re.fullmatch("(-?)" + " ".join(["([0-9]+)"] * len(comps)), text)
                    ok = False
                    if m:
                        got = [int(x) for x in m.groups()[1:]]
                        neg = m.group(1) == "-"
                        ok = got == comps and (neg == (b < a) or (not any(comps) and b < a))
                    if not ok and len(bad) < 300:
                        bad.append((a.isoformat(), int((b - a).total_seconds()), fmt, text, ("-" if b < a else "") + " ".join(str(c) for c in comps)))
    return n, bad


def run_parallel(R, P, rule, jobs=12):
    import multiprocessing as mp
    tu = P.tu("ddiff-ddiff.o")
    libs = [P.tu("libdut_a-dt-core.o"), P.tu("libdut_a-date-core.o"), P.tu("libdut_a-time-core.o"), P.tu("libdut_a-strops.o"),
            P.tu("libdut_a-token.o"), P.tu("libdut_a-dt-locale.o")]
    for f in ("determine_durfmt", "determine_durtype", "__strfdtdur"):
        if tu.func(f) is None:
            raise AnalysisBroken("%s vanished" % f)
        R.saw(tu.func(f))

    def resolve(name):
        for l in libs:
            f = l.func(name)
            if f is not None and getattr(f, "body", None) is not None:
                return f
        return None

    def glob(name):
        for l in [tu] + libs:
            g = l.global_var(name)
            if g is not None and (g.get("init") is not None or "val" in g):
                return g
        return None
    E = {k: tu.enum_value(k) for k in ("DT_YMD", "DT_HMS")}
    if None in E.values():
        raise AnalysisBroken("%s: tags not found" % rule)
    base = [datetime.datetime(2011, 12, 31, 23, 59, 59), datetime.datetime(2012, 2, 28, 12, 0, 0), datetime.datetime(2012, 2, 29, 23, 59, 30),
            datetime.datetime(2012, 6, 15, 0, 0, 0), datetime.datetime(2012, 12, 31, 0, 0, 1), datetime.datetime(2013, 3, 1, 6, 30, 15)]
    ds = [0, 1, 59, 60, 61, 3599, 3600, 3601, 86399, 86400, 86401, 172800, 604799, 604800, 604801, 2592000, 34560000 + 3723, 90061]
    deltas = sorted(set(ds + [-x for x in ds]))
    _G.update(tu=tu, resolve=resolve, glob=glob, E=E, deltas=deltas)
    chunks = [[b] for b in base]
    try:
        ctx = mp.get_context("fork")
        with ctx.Pool(min(jobs, len(chunks))) as pool:
            parts = pool.map(_worker, chunks)
    except NotConst as e:
        raise AnalysisBroken("%s: the ddiff pipeline left the foldable fragment (%s)" % (rule, e))
    n = sum(k for k, _ in parts)
    bad = [x for _, b in parts for x in b]
    if bad:
        p1, dlt, fmt, text, exp = sorted(bad)[0]
        R.finding(rule, tu.func("__strfdtdur"), "printed duration, decoded", "%s%d (pair, format) points print something else than the truncated, "
                  "cascaded duration; first: from %s, %+d s later, -f '%s' prints `%s`, expected `%s`" % (">= " if len(bad) >= 300 else "", len(bad), p1, dlt, fmt, text, exp))
    else:
        R.ob(rule, "for %d pairs x 31 unit subsets the printed text is the truncated duration cascaded coarsest first, one sign" % (len(base) * len(deltas)), True)
    return n
