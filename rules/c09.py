"""C09 — parsing inverts formatting for every date/time format.

Round-trip equality for all values and all format strings is a statement about computed text; it is NOT decided.
Decided is the case-by-case agreement between the separate parser and printer switch statements, which is the
structural precondition of the round trip for every format string at once:

 RF9-pairs   every specifier the printer of a family produces text for has a parsing case in the sibling parser, and
             vice versa (card / rom / time families)
 RF9-field   per specifier, the parser stores into the field(s) of the scratch record that the printer prints from
 RF9-pad     where the printer honours the padding modifier of a specifier, the parser reads with a padding-aware reader
 RF9-lim     the limits the parser accepts contain everything the printer can produce for a valid value, per specifier
 RF9-width   every call of a fixed-width digit printer asks for a width the helper has digits for (1..2, 1..3, 1..4)
 RF2-ampm    the 12-hour clock: hour digits and AM/PM marker as printed, read back by the parser's rule, give the same
             hour -- folded over the 24 hours
 RF9-roman   the Roman numeral printer is a proper decimal cascade for the digit helper (thousands loop, then /100 %100, /10 %10)
 RF-minmax   the length range of locale names (the scanner's search window) is a properly computed running minimum / maximum
 RF9-ord     ordinal suffix writer and reader agree on the suffix table (st / nd / rd / th by last digits)
"""
from core import (AnalysisBroken, strip, kids, const_of, call_args, expr_text, walk, CASTS, member_path, switch_cases, ceval, NotConst)
import intervals
from intervals import Intervals

FAMILIES = [
    ("libdut_a-date-core.o", "__strpd_card", "__strfd_card", "date"),
    ("libdut_a-date-core.o", "__strpd_rom", "__strfd_rom", "date roman"),
    ("libdut_a-time-core.o", "__strpt_card", "__strft_card", "time"),
]
# specifiers a printer may produce text for without a parser (with reason) and the reverse
PRINT_ONLY = {}
PARSE_ONLY = {}

# largest / smallest value the printer emits for valid dates, per specifier (calendar facts)
LIMITS = {"DT_SPFL_N_MON": (1, 12), "DT_SPFL_N_DCNT_MON": (1, 31), "DT_SPFL_N_DCNT_WEEK": (1, 7), "DT_SPFL_N_WCNT_MON": (1, 5),
          "DT_SPFL_N_DCNT_YEAR": (1, 366), "DT_SPFL_N_WCNT_YEAR": (0, 53), "DT_SPFL_N_HOUR": (0, 23), "DT_SPFL_N_MIN": (0, 59),
          "DT_SPFL_N_SEC": (0, 60), "DT_SPFL_N_QTR": (1, 4)}
READERS = ("strtoi_lim", "padstrtoi_lim", "romstrtoi_lim")
DIGITS = {"ui99topstr": 2, "ui999topstr": 3, "ui9999topstr": 4}


def spec_groups(fn, param="s"):
    """first switch over <param>.spfl: {spec name: [statements incl. fall-through]}"""
    for sw in fn.switches():
        op = strip(sw["c"][0])
        if op is not None and op.get("k") == "MemberExpr" and op.get("n") == "spfl":
            groups = switch_cases(sw)
            out = {}
            for i, g in enumerate(groups):
                stmts = list(g["stmts"])
                j = i
                while groups[j].get("falls") and j + 1 < len(groups):
                    j += 1
                    stmts += groups[j]["stmts"]
                for l in g["labels"]:
                    if l["en"] and l["en"] != "default":
                        out[l["en"]] = stmts
            return out, sw
    return None, None


def _does_something(stmts, fn):
    """a printing / parsing case that is more than break / goto fail"""
    for s in stmts:
        for x in walk(s):
            if x.get("k") in ("CallExpr", "BinaryOperator", "CompoundAssignOperator", "UnaryOperator") and x.get("op") not in (None,) or \
                    x.get("k") == "CallExpr":
                return True
    return False


def _fields(fn, stmts, rec_param, write):
    out = set()
    for s in stmts:
        for x in walk(s):
            if x.get("k") != "MemberExpr":
                continue
            b, path = member_path(x)
            if b is None or b.get("k") != "DeclRefExpr" or b.get("d") != rec_param or not path or path[0] == "flags":
                continue
            par = fn.parent(x)
            while par is not None and par.get("k") in CASTS:
                par = fn.parent(par)
            is_w = par is not None and ((par.get("k") in ("BinaryOperator", "CompoundAssignOperator") and par.get("op", "").endswith("=")
                                        and par.get("op") not in ("==", "!=", "<=", ">=") and
                                        any(y is x for y in walk(par["c"][0]))))
            if is_w == write:
                out.add(path[0])
    return out


def check_pairs(P, R):
    n = 0
    for obj, pname, fname, what in FAMILIES:
        tu = P.tu(obj)
        pf, ff = tu.func(pname), tu.func(fname)
        if pf is None or ff is None:
            raise AnalysisBroken("%s / %s vanished" % (pname, fname))
        R.saw(pf)
        R.saw(ff)
        pg, _ = spec_groups(pf)
        fg, _ = spec_groups(ff)
        if not pg or not fg:
            raise AnalysisBroken("specifier switches of %s / %s not recognised" % (pname, fname))
        prec = [p_["d"] for p_ in pf.params if pf.tu.types[p_["t"]].get("ptr") and "strp" in pf.tu.types[p_["t"]].get("c", "")]
        frec = [p_["d"] for p_ in ff.params if ff.tu.types[p_["t"]].get("ptr") and "strp" in ff.tu.types[p_["t"]].get("c", "")]
        for spec in sorted(set(pg) | set(fg)):
            if spec.startswith("DT_SPFL_UNK"):
                continue
            n += 1
            pd = spec in pg and _does_something(pg[spec], pf)
            fd = spec in fg and _does_something(fg[spec], ff)
            if fd and not pd and spec not in PRINT_ONLY:
                R.finding("RF9-pairs", pf, "%s %s" % (what, spec), "%s prints %s but %s has no case for it: the text cannot be read back"
                          % (fname, spec, pname))
                continue
            if pd and not fd and spec not in PARSE_ONLY:
                R.finding("RF9-pairs", ff, "%s %s" % (what, spec), "%s parses %s but %s prints nothing for it" % (pname, spec, fname))
                continue
            R.ob("RF9-pairs", "%s: %s handled by both %s and %s" % (what, spec, pname, fname), True)
            if not (pd and fd) or not prec or not frec:
                continue
            # fields
            wr = _fields(pf, pg[spec], prec[0], True)
            rd = _fields(ff, fg[spec], frec[0], False) | _fields(ff, fg[spec], frec[0], True)
            if not wr or not rd:
                continue      # literals, or values computed from the date itself
            if wr & rd:
                R.ob("RF9-field", "%s: %s parsed into %s, printed from %s" % (what, spec, sorted(wr), sorted(rd)), True)
            else:
                R.finding("RF9-field", pf, "%s %s" % (what, spec), "%s stores %s into field(s) %s, %s prints it from %s"
                          % (pname, spec, sorted(wr), fname, sorted(rd)))
            # padding
            pads = any(y.get("k") == "CallExpr" and y.get("callee") == "padchar" for s in fg[spec] for y in walk(s))
            if pads:
                aware = any(y.get("k") == "CallExpr" and y.get("callee") == "padstrtoi_lim" for s in pg[spec] for y in walk(s))
                numeric = any(y.get("k") == "CallExpr" and y.get("callee") in READERS for s in pg[spec] for y in walk(s))
                if aware:
                    R.ob("RF9-pad", "%s: %s printed with the padding modifier, read by a padding-aware reader" % (what, spec), True)
                elif numeric:
                    R.finding("RF9-pad", pf, "%s %s" % (what, spec), "%s honours the padding modifier for %s, %s reads the field with a reader "
                              "that stops at the padding: '%% ' padded output cannot be read back" % (fname, spec, pname))
            # limits
            if spec in LIMITS:
                lo, hi = LIMITS[spec]
                worst = None
                for s in pg[spec]:
                    for y in walk(s):
                        if y.get("k") == "CallExpr" and y.get("callee") in READERS:
                            a = call_args(y)
                            l, h = const_of(a[2]), const_of(a[3])
                            if l is None or h is None:
                                continue
                            worst = (l, h) if worst is None else (min(worst[0], l), max(worst[1], h))
                if worst is None:
                    continue
                if worst[0] <= lo and worst[1] >= hi:
                    R.ob("RF9-lim", "%s: %s accepts %d..%d, values printed lie in %d..%d" % (what, spec, worst[0], worst[1], lo, hi), True)
                else:
                    R.finding("RF9-lim", pf, "%s %s" % (what, spec), "%s accepts %d..%d for %s but valid values printed reach %d..%d"
                              % (pname, worst[0], worst[1], spec, lo, hi))
    R.floor("RF9-pairs", "specifier cases", n, 28)


def check_width(P, R):
    rule = "RF9-width"
    n = 0
    seen = set()
    for tu in P.tus:
        if not tu.obj.startswith("libdut_a-"):
            continue
        for fn in tu.funclist:
            for c in fn.calls():
                if c.get("callee") in DIGITS:
                    key = (fn.file, fn.name, c.get("l"), c.get("i"))
                    if key in seen:
                        continue
                    seen.add(key)
                    n += 1
                    R.saw(fn)
                    dg = DIGITS[c["callee"]]
                    w = call_args(c)[3]
                    cw = const_of(w)
                    if cw is not None:
                        rg = (cw, cw)
                    else:
                        iv = Intervals(fn).run()
                        rg = iv.range_at(c, w)
                    site = "%s(.., %s, ..)" % (c["callee"], expr_text(strip(w))[:50])
                    if rg is not None and rg[0] is not None and rg[1] is not None and 1 <= rg[0] and rg[1] <= dg:
                        R.ob(rule, "%s: %s width within 1..%d" % (fn.name, site, dg), True)
                    else:
                        R.finding(rule, fn, site, "%s prints at most %d digits; the width asked for ranges over %s, so the omit-padding modifier "
                                  "has no effect (or the field is over-padded) and the text differs from what the parser expects"
                                  % (c["callee"], dg, rg), c)
    R.floor(rule, "digit printer calls", n, 10)


def _subst(e, fn, values):
    """copy of expression e with member reads `x->name` / `x.name` replaced by constants from values[name]"""
    if e is None:
        return None
    if e.get("k") == "MemberExpr" and e.get("n") in values:
        return {"k": "IntegerLiteral", "v": values[e["n"]], "t": e.get("t")}
    if e.get("k") == "DeclRefExpr" and e.get("n") in values and e.get("dk") in ("var", "parm"):
        return {"k": "IntegerLiteral", "v": values[e["n"]], "t": e.get("t")}
    out = dict(e)
    if "c" in e:
        out["c"] = [_subst(c, fn, values) if c is not None else None for c in e["c"]]
    return out


def check_ampm(P, R):
    rule = "RF2-ampm"
    tu = P.tu("libdut_a-time-core.o")
    ff = tu.func("__strft_card")
    gt = tu.func("__guess_ttyp")
    if ff is None or gt is None:
        raise AnalysisBroken("%s: __strft_card / __guess_ttyp vanished" % rule)
    R.saw(ff)
    R.saw(gt)
    fg, _ = spec_groups(ff)
    # printer: marker condition
    pcond = None
    for s in fg.get("DT_SPFL_S_AMPM", []):
        for x in walk(s):
            if x.get("k") == "IfStmt":
                then = x["c"][1]
                chars = [const_of(y["c"][0]) for y in walk(then) if y.get("k") == "BinaryOperator" and y.get("op") == "|"]
                if 80 in chars:       # 'P'
                    pcond = ("P", x["c"][0])
                elif 65 in chars:
                    pcond = ("A", x["c"][0])
    # printer: hour digits in 12-hour mode
    hexpr = None
    for s in fg.get("DT_SPFL_N_HOUR", []):
        for x in walk(s):
            if x.get("k") == "IfStmt":
                hexpr = x
    # parser: h %= K; h += pm ? A : B  under the am_pm flag
    mod = addp = addn = None
    for x in gt.walk():
        if x.get("k") == "CompoundAssignOperator" and x.get("op") == "%=":
            mod = const_of(x["c"][1])
            if mod is None:
                try:
                    mod = ceval(x["c"][1], {}, tu.types)
                except NotConst:
                    mod = None
        if x.get("k") == "CompoundAssignOperator" and x.get("op") == "+=":
            r = strip(x["c"][1])
            if r is not None and r.get("k") == "ConditionalOperator":
                addp, addn = const_of(r["c"][1]), const_of(r["c"][2])
    if pcond is None or hexpr is None or None in (mod, addp, addn):
        raise AnalysisBroken("%s: 12-hour clock code not recognised (%s %s %s %s %s)" % (rule, pcond, bool(hexpr), mod, addp, addn))
    bad = []
    for h in range(24):
        try:
            pm = bool(ceval(_subst(pcond[1], ff, {"h": h}), {}, tu.types))
            if pcond[0] == "A":
                pm = not pm
            # hour digits: if (!s.sc12 || (1 <= h <= 12)) h else (h ? h - 12 : 12)
            c = ceval(_subst(hexpr["c"][0], ff, {"h": h, "sc12": 1}), {}, tu.types)
            if c:
                digits = h
            else:
                init = None
                for y in walk(hexpr["c"][2] if len(hexpr["c"]) > 2 and hexpr["c"][2] else hexpr):
                    if y.get("k") == "Var" and kids(y):
                        init = kids(y)[0]
                if init is None:
                    raise AnalysisBroken("%s: 12-hour digits expression not recognised" % rule)
                digits = ceval(_subst(init, ff, {"h": h}), {}, tu.types)
        except NotConst as e:
            raise AnalysisBroken("%s: cannot fold the 12-hour code: %s" % (rule, e))
        back = digits % mod + (addp if pm else addn)
        if back != h or not (1 <= digits <= 12):
            bad.append((h, digits, "PM" if pm else "AM", back))
    if not bad:
        R.ob(rule, "for every hour 0..23 the printed 12-hour digits and AM/PM marker read back as the same hour", True,
             sample={"rule": rule, "parser": "h %% %d + (pm ? %d : %d)" % (mod, addp, addn)})
    else:
        h, dg, m, back = bad[0]
        R.finding(rule, ff, "12-hour clock", "hour %d is printed as %d %s, which the parser reads as hour %d (%d hours affected: %s)"
                  % (h, dg, m, back, len(bad), [b[0] for b in bad]))


def check_roman(P, R):
    """the Roman printer is a decimal cascade: thousands by repeated subtraction, then hundreds / tens / units by division.  The
    digit helper only knows the digits 0..9, so each stage must leave less than its unit: the subtraction loop runs while
    d >= 1000 with step 1000, and every later stage divides by a unit and reduces modulo the same unit, a tenth of the one before"""
    rule = "RF9-roman"
    tu = P.tu("libdut_a-strops.o")
    fn = tu.func("ui32tostrrom")
    hp = tu.func("__rom_pr1")
    if fn is None or hp is None:
        raise AnalysisBroken("ui32tostrrom / __rom_pr1 vanished")
    R.saw(fn)
    R.saw(hp)
    d = fn.params[2]["d"]
    # digits the helper handles
    digits = set()
    for sw in hp.switches():
        for g in switch_cases(sw):
            for l in g["labels"]:
                if l["lo"] is not None:
                    digits.update(range(l["lo"], l["hi"] + 1))
    if digits != set(range(1, 10)):
        R.finding(rule, hp, "digit cases", "the Roman digit helper has cases for %s, the decimal digits 1..9 are needed" % sorted(digits))
    else:
        R.ob(rule, "__rom_pr1 has a case for each digit 1..9", True)
    loops = [x for x in fn.walk() if x.get("k") in ("ForStmt", "WhileStmt")]
    if len(loops) != 1:
        raise AnalysisBroken("%s: the thousands loop of ui32tostrrom was not recognised" % rule)
    lp = loops[0]
    bound = step = None
    bop = None
    for x in walk(lp):
        if x.get("k") == "BinaryOperator" and x.get("op") in (">=", ">") and strip(x["c"][0]).get("k") == "DeclRefExpr" and \
                strip(x["c"][0]).get("d") == d and const_of(x["c"][1]) is not None:
            bound, bop = const_of(x["c"][1]), x["op"]
        if x.get("k") == "CompoundAssignOperator" and x.get("op") == "-=" and strip(x["c"][0]).get("d") == d:
            step = const_of(x["c"][1])
    stages = []       # (divisor, node) from the helper calls, moduli from `d %= K`
    for c in fn.calls("__rom_pr1"):
        a = strip(call_args(c)[2])
        if a is not None and a.get("k") == "BinaryOperator" and a.get("op") == "/" and strip(a["c"][0]).get("d") == d:
            stages.append(const_of(a["c"][1]))
        elif a is not None and a.get("k") == "DeclRefExpr" and a.get("d") == d:
            stages.append(1)
        else:
            stages.append(None)
    mods = [const_of(x["c"][1]) for x in fn.walk() if x.get("k") == "CompoundAssignOperator" and x.get("op") == "%=" and strip(x["c"][0]).get("d") == d]
    ok = (bop == ">=" and bound is not None and bound == step and stages and stages[0] is not None and bound == 10 * stages[0] and
          all(sv is not None for sv in stages) and all(stages[i] == 10 * stages[i + 1] for i in range(len(stages) - 1)) and stages[-1] == 1 and
          mods == stages[:-1])
    if ok:
        R.ob(rule, "ui32tostrrom: while d >= %d: d -= %d; then digits d / %s with d %%= %s" % (bound, step, stages, mods), True)
    else:
        R.finding(rule, fn, "decimal cascade", "thousands loop `d %s %s` step %s, digit divisors %s, moduli %s: every stage must leave less than "
                  "its unit (loop while d >= 1000 step 1000, then /100 %%100, /10 %%10, units), otherwise the digit helper is handed 10 and "
                  "prints nothing: 2000 comes out as M" % (bop, bound, step, stages, mods), lp)


def check_name_ranges(P, R):
    """the byte-length range of a locale's names bounds the window in which the line scanner looks for a name in front of the
    first literal: the running minimum and maximum (initialised to the extreme sentinels) must be updated independently -- in an
    else-if chain the first name only ever updates one of them"""
    rule = "RF-minmax"
    from core import guards_of, norm_cond
    tu = P.tu("libdut_a-dt-locale.o")
    fn = tu.func("tokenise")
    if fn is None:
        raise AnalysisBroken("tokenise vanished")
    R.saw(fn)
    ups = {}
    for x in fn.walk():
        if x.get("k") == "BinaryOperator" and x.get("op") == "=":
            l = strip(x["c"][0])
            if l is not None and l.get("k") == "MemberExpr" and l.get("n") in ("min", "max") and strip(x["c"][1]).get("k") == "DeclRefExpr":
                ups.setdefault(l["n"], []).append(x)
    if set(ups) != {"min", "max"}:
        raise AnalysisBroken("%s: running min / max updates of tokenise not recognised" % rule)
    for nm, other, op in (("min", "max", "<"), ("max", "min", ">")):
        for x in ups[nm]:
            gs = [(g, norm_cond(g["cond"], g["pol"])) for g in guards_of(fn, x) if "pol" in g]
            flip = {"<": ">", ">": "<"}[op]
            own = any((o == op and nm in b) or (o == flip and nm in a) for _, (o, a, b) in gs)      # len < min, or min > len
            cross = [g for g, (o, a, b) in gs if other in b or other in a]
            if own and not cross:
                R.ob(rule, "tokenise: running %s updated under its own comparison only" % nm, True)
            else:
                R.finding(rule, fn, "running %s" % nm, "the running %s of the name lengths is updated only when the comparison for the %s "
                          "fails (else-if): the first name, which always raises the maximum from 0, never lowers the minimum, so the "
                          "scanner's window misses names shorter than the recorded minimum" % (nm, other), x)


def check(P, R, tier):
    import fmtdecode
    nf = fmtdecode.run_parallel(R, P, "RF2-fmt", every=(tier == "thorough"), jobs=14, parse=True, reprs=True)
    R.floor("RF2-fmt", "printed and re-parsed texts", nf, 30000)
    check_name_ranges(P, R)
    check_roman(P, R)
    check_pairs(P, R)
    check_width(P, R)
    try:
        check_ampm(P, R)
    except AnalysisBroken as e:
        # the pattern rule knows one way of writing the 12-hour clock; the decode below decides the behaviour either way
        R.notes.append("RF2-ampm not applied: %s" % str(e)[:160])
    import tfmtdecode
    nt = tfmtdecode.run_parallel(R, P, "RF2-tfmt", every=(tier == "thorough"), jobs=12)
    R.floor("RF2-tfmt", "printed and re-parsed time texts", nt, 5000)
    import dtfmtdecode
    nd = dtfmtdecode.run_parallel(R, P, "RF2-dtfmt", jobs=12)
    R.floor("RF2-dtfmt", "printed and re-parsed date-time texts", nd, 3000)


LEVEL = ("Decides the case-by-case agreement of the separately written parser and printer switches for every specifier: a case on "
         "both sides, the same scratch field, padding read where padding is printed, accepted limits containing the printable "
         "range, digit-printer widths within the helper's capacity, and the 12-hour clock table folded over the 24 hours.  "
         "On top of that dates (RF2-fmt, 16 formats), times (RF2-tfmt, 10 formats incl. every hour / AM-PM pairing) and date-times (RF2-dtfmt, 8 "
         "formats incl. the format-less route and the epoch seconds %s on both sides of 1970 and of the 32-bit range) are printed and parsed "
         "back by folding the routines themselves on grids of days and of times.  "
         "Equality parse(format(x)) = x for all values and format strings is NOT decided: it also depends on the computed "
         "digits, on adjacent variable-width fields and on the calendar guess from the parsed field set.")
RULE = "obligation = one specifier of one family (pair / field / pad / limits), one digit-printer call, the AM/PM table"
ASSUME = ["the tokenizer maps a format to the same specifier sequence for parser and printer (it is shared code, C10 decides its safety)",
          "LIMITS in rules/c09.py are calendar facts"]
