"""C13 — results do not depend on what was processed before (no hidden state).

 RF7c-inv   closed inventory of every non-const object with static storage duration that is written (or whose
            address escapes) in the tools and libraries: each must be a row of STATE with its category and its
            writer functions; a new object or a new writer is a finding.
 RF7c-cache the one cache that answers lookups (zif->cache) is written only as a whole from one __find_zrng result
            (or zeroed), compared half-open, and carries a full-width index (shared with C12's rules).
 RF7c-valid the zeroed cache of a fresh zone is the empty range: narrowing the search with its transition number requires an
            emptiness test, and a search that finds nothing may hand out (and cache) the whole time line only for a zone
            without transitions.
 RF7c-gen   generation-counter scratch table (strops.c table/cycle): generation 0 means `never marked', so the
            counter may only be incremented under a wrap guard and only be reset to a non-zero value together with
            clearing the table.
 RF7c-key   the name registry of opened zones (alist) reports a hit only for the whole name
 RF8        per-item loops of the tools (stdin lines / argument list): every variable that lives across iterations
            and is modified inside is a counter, a sticky status, or is (re)defined before any use in each iteration.
"""
import collections
import re
from core import (AnalysisBroken, strip, kids, const_of, call_args, expr_text, walk, global_accesses, guards_of,
                  norm_cond, member_path)
import tzrules

EXEMPT_OBJ = ("ltrcc-", "tzmap-", "tzraw-", "strptime-")

# object name -> (category, allowed writer functions, reason)
STATE = {
    "base": ("write-once singleton / option state", {"dt_set_base", "dt_get_base"}, "--base or, once, the clock"),
    "tv": ("write-once singleton", {"now_tv"}, "consistent `now' for the run"),
    "tm": ("write-once singleton", {"now_tm"}, "broken-down `now'"),
    "table": ("scratch, regenerated per call", {"set_up_table"}, "character-class table of xstrspn & co"),
    "cycle": ("scratch generation counter", {"set_up_table"}, "see RF7c-gen"),
    "zones": ("exact-key registry", {"__io_zone", "dt_io_clear_zones"}, "zone name -> open handle"),
    "tzmaps": ("exact-key registry", {"dt_io_zone", "dt_io_clear_zones"}, "map name -> open map"),
    "tzmfn": ("scratch, written before read", {"__local"}, "readlink buffer"),
    "buf": ("scratch, written before read", {"dt_io_write"}, "output line buffer"),
    "gbuf": ("scratch, written before read", {"dz_io_write", "dz_write_nxtr", "dz_write_prtr"}, "dzone output buffer"),
    "__ctx": ("stream reader context", {"init_prchunk"}, "one per process, holds the unconsumed tail by design"),
    "coord_zifs": ("constant instances", {"zif_open"}, "UTC/TAI/GPS pseudo zones; lookups return before touching the cache"),
    "ckv_fmt": ("option state", {"main"}, "input formats for the expression parser"),
    "ckv_nfmt": ("option state", {"main"}, "input formats for the expression parser"),
    "ite_p1": ("constant instance", {"main"}, "default +1 increment of dseq"),
    "cmdline": ("constant instance", {"spawn_sort", "spawn_cut"}, "argv of the child processes"),
    "__abbr_mon": ("read-only table", {"__strf_reset_abbr_mon", "__strp_reset_abbr_mon"}, "default names (address only)"),
    "__abbr_wday": ("read-only table", {"__strf_reset_abbr_wday", "__strp_reset_abbr_wday"}, "default names (address only)"),
    "__long_mon": ("read-only table", {"__strf_reset_long_mon", "__strp_reset_long_mon"}, "default names (address only)"),
    "__long_wday": ("read-only table", {"__strf_reset_long_wday", "__strp_reset_long_wday"}, "default names (address only)"),
    "_bom": ("read-only table", {"__get_mdays_hijri", "__ldn_to_ummulqura", "__ummulqura_fixup", "__ummulqura_to_ldn", "dt_strpd_special"},
             "Hijri month table (not const-qualified, never written)"),
    "__mon_yday": ("read-only table", {"ffff_gmtime", "__md_get_yday"}, "cumulative month lengths"),
}
LOCALE = re.compile(r"(dut|duf)_r?(long|abbr)_(wday|mon)$")   # option state of --locale/--from-locale, decided by C20's RF7b

# loop-carried variables that are accepted with a reason: (unit, variable)
LOOP_OK = {
    ("dadd-dadd.o", "st"): "durations may be spread over several arguments: the parse state accumulates by design",
    ("dround-dround.o", "st"): "durations may be spread over several arguments",
    ("dseq-dseq.o", "st"): "increment may be spread over several arguments",
    ("dround-dround.o", "dt_given_p"): "classification of the argument list (first date argument), not per-item processing",
    ("dround-dround.o", "inp"): "the first argument that is not a duration is the date operand",
    ("dadd-dadd.o", "dt_given_p"): "classification of the argument list",
    ("dzone-dzone.o", "nd"): "argument classification: dates are appended to an array",
    ("dzone-dzone.o", "nz"): "argument classification: zones are appended to an array",
    ("dtest-dtest.o", "ep"): "end pointer of the parse just made (written by the callee before it is read)",
}


def check_inventory(P, R):
    rule = "RF7c-inv"
    objs = {}
    for t in P.tus:
        if t.obj.startswith(EXEMPT_OBJ):
            continue
        for g in t.globals:
            if g.get("def") and not g.get("const"):
                objs.setdefault(g["name"], g)
    seen = collections.defaultdict(set)
    sites = {}
    for f in P.all_functions():
        if f.tu.obj.startswith(EXEMPT_OBJ):
            continue
        for nm, mode, n in global_accesses(f):
            if nm in objs and mode in ("w", "rw", "addr"):
                if nm.startswith("yy") or f.name.startswith("yy"):
                    continue
                seen[nm].add(f.name)
                sites.setdefault((nm, f.name), (f, n))
    nobj = 0
    for nm in sorted(seen):
        if LOCALE.match(nm):
            continue
        if nm in ("gperf_downcase",):
            continue
        nobj += 1
        row = STATE.get(nm)
        if row is None:
            f, n = sites[(nm, sorted(seen[nm])[0])]
            R.finding(rule, f, "object %s" % nm,
                      "static-storage object `%s` is written (or its address escapes) in %s but is not in the inventory of "
                      "run-wide state: results may depend on earlier inputs" % (nm, ", ".join(sorted(seen[nm]))), n)
            continue
        cat, writers, why = row
        extra = seen[nm] - writers
        if extra:
            f, n = sites[(nm, sorted(extra)[0])]
            R.finding(rule, f, "writer %s of %s" % (sorted(extra)[0], nm),
                      "`%s` (%s) is modified outside its listed writers %s" % (nm, cat, sorted(writers)), n)
        else:
            R.ob(rule, "%s: %s, writers %s" % (nm, cat, sorted(seen[nm])), True,
                 sample={"rule": rule, "object": nm, "category": cat, "writers": sorted(seen[nm])})
    R.floor(rule, "written static objects", nobj, 15)
    for nm, (cat, w, why) in STATE.items():
        R.exceptions.append("state %s: %s — %s" % (nm, cat, why))


def check_cache(P, R):
    rule = "RF7c-cache"
    tu = P.tu("tzraw.c")
    n = 0
    for fn in tu.funclist:
        for x in fn.walk():
            if x.get("k") != "BinaryOperator" or x.get("op") != "=" and x.get("k") != "CompoundAssignOperator":
                continue
            l = strip(x["c"][0])
            b, path = member_path(l)
            if "cache" not in path:
                continue
            n += 1
            R.saw(fn)
            r = strip(x["c"][1])
            if path[-1] != "cache":
                R.finding(rule, fn, "partial update %s" % expr_text(l),
                          "the lookup cache must be replaced as a whole (range bounds, offset and index from one lookup); "
                          "a single field is written here", x)
                continue
            ok = False
            if r is not None and r.get("k") == "CallExpr" and r.get("callee") == "__find_zrng":
                ok = True
            elif r is not None and r.get("k") == "CompoundLiteralExpr":
                ok = all(const_of(y) == 0 for y in walk(r) if y.get("k") in ("IntegerLiteral",))
            if ok:
                R.ob(rule, "%s: cache = %s" % (fn.name, expr_text(r)[:40]), True)
            else:
                R.finding(rule, fn, "cache source %s" % expr_text(r)[:40],
                          "the cache may only take the result of __find_zrng() for the looked-up instant (or be zeroed)", x)
    R.floor(rule, "writes of zif->cache", n, 3)
    # reads of the cache outside __offs
    for fn in P.all_functions():
        if fn.name == "__offs" or not fn.file.endswith(("tzraw.c",)):
            continue
        for x in fn.walk():
            if x.get("k") == "MemberExpr" and x.get("n") == "cache":
                par = fn.parent(x)
                if par is not None and par.get("k") == "BinaryOperator" and par.get("op") == "=" and kids(par)[0] is x:
                    continue
                R.finding(rule, fn, "read of cache", "the lookup cache is consulted outside __offs", x)
    nh = tzrules.halfopen_ranges(P, R, "RF-halfopen")
    R.floor("RF-halfopen", "comparisons against zrng_s bounds", nh, 4)
    import zonedecode
    nz = zonedecode.run(R, P, "RF2-zone")
    R.floor("RF2-zone", "decoded (zone, cache state, instant) points of the offset lookup", nz, 40000)
    nv = tzrules.cache_validity(P, R, "RF7c-valid")
    R.floor("RF7c-valid", "narrowing reads of the cache / whole-time-line ranges", nv, 2)
    tzrules.index_narrowing(P, R, "RF3-index", ["tzraw.c"], {"__find_trno", "zif_find_trans"}, {"ntr", "trno"},
                            [("zrng_s", "trno", 31)])


def check_generation(P, R):
    rule = "RF7c-gen"
    tu = P.tu("strops.c")
    fn = tu.func("set_up_table")
    if fn is None:
        raise AnalysisBroken("set_up_table vanished")
    R.saw(fn)
    n = 0
    for x in fn.walk():
        tgt = None
        kind = None
        if x.get("k") == "BinaryOperator" and x.get("op") == "=":
            l = strip(x["c"][0])
            if l is not None and l.get("k") == "DeclRefExpr" and l.get("n") == "cycle":
                tgt = x
                r = strip(x["c"][1])
                kind = ("const", const_of(r)) if const_of(r) is not None else ("incr", None)
        elif x.get("k") == "CompoundAssignOperator" or (x.get("k") == "UnaryOperator" and x.get("op") in ("++", "--")):
            l = strip(x["c"][0])
            if l is not None and l.get("k") == "DeclRefExpr" and l.get("n") == "cycle":
                tgt, kind = x, ("incr", None)
        if tgt is None:
            continue
        n += 1
        gs = [norm_cond(g["cond"], g["pol"]) for g in guards_of(fn, tgt) if "pol" in g]
        if kind[0] == "const":
            if kind[1] == 0:
                R.finding(rule, fn, "cycle = 0", "generation 0 marks `never in any set' (the table is zero-initialised): the "
                          "counter must not take that value", tgt)
                continue
            # must come with clearing the table on the same branch
            cleared = False
            par = fn.parent(tgt)
            while par is not None and par.get("k") != "CompoundStmt":
                par = fn.parent(par)
            if par is not None:
                for c in walk(par):
                    if c.get("k") == "CallExpr" and c.get("callee") == "memset":
                        a0 = strip(call_args(c)[0])
                        if a0 is not None and a0.get("k") == "DeclRefExpr" and a0.get("n") == "table":
                            cleared = True
            if cleared:
                R.ob(rule, "cycle = %d together with memset(table)" % kind[1], True)
            else:
                R.finding(rule, fn, "cycle = %d without clearing" % kind[1],
                          "restarting the generation counter without clearing the table revives stale marks", tgt)
        else:
            guarded = any(op in ("!=", "<") and a == "cycle" and b in ("255", "(256 - 1)") for op, a, b in gs)
            if guarded:
                R.ob(rule, "cycle incremented under a wrap guard", True)
            else:
                R.finding(rule, fn, "unguarded increment of cycle",
                          "the 8-bit generation counter is incremented without excluding 255: it wraps to 0, the value of "
                          "never-marked table entries, so every byte is `in the set' on every 256th call", tgt)
    R.floor(rule, "writes of the generation counter", n, 2)


def _loops(fn):
    return [n for n in fn.walk() if n.get("k") in ("ForStmt", "WhileStmt", "DoStmt")]


def check_item_loops(P, R):
    rule = "RF8"
    nloops = 0
    for t in P.tus:
        mf = t.functions.get("main")
        if mf is None or t.obj.startswith(EXEMPT_OBJ):
            continue
        mf.nodes
        cfg = mf.cfg
        allloops = _loops(mf)
        item = []
        for lp in allloops:
            if any((x.get("k") == "CallExpr" and x.get("callee") == "prchunk_getline") or
                   (x.get("k") == "MemberExpr" and x.get("n") == "args") for x in walk(lp)):
                item.append(lp)
        # innermost item loops only (the for over lines inside the while over fills)
        inner = [lp for lp in item if not any(o is not lp and any(y is o for y in walk(lp)) for o in item)]
        for lp in inner:
            nloops += 1
            R.saw(mf)
            inner_decl = {v["d"] for x in walk(lp) if x.get("k") == "DeclStmt" for v in kids(x) if v.get("k") == "Var"}
            acc = collections.defaultdict(list)
            for x in walk(lp):
                if x.get("k") == "DeclRefExpr" and x.get("dk") in ("var", "gvar") and x["d"] not in inner_decl:
                    cur, par = x, mf.parent(x)
                    while par is not None and par.get("k") in ("MemberExpr", "ArraySubscriptExpr") and kids(par)[0] is cur:
                        cur, par = par, mf.parent(par)
                    mode = "r"
                    val = None
                    if par is not None:
                        pk = par.get("k")
                        if pk == "BinaryOperator" and par.get("op") == "=" and kids(par)[0] is cur:
                            mode = "w"
                            val = const_of(par["c"][1])
                        elif pk == "CompoundAssignOperator" and kids(par)[0] is cur:
                            mode = "rw" + par.get("op")
                        elif pk == "UnaryOperator" and par.get("op") in ("++", "--"):
                            mode = "rw" + par["op"]
                        elif pk == "UnaryOperator" and par.get("op") == "&":
                            mode = "addr"
                    acc[(x["n"], x["d"])].append((mode, x, val, cur is x))
            for (name, did), uses in sorted(acc.items(), key=lambda kv: kv[0][0]):
                modes = {m for m, _, _, _ in uses}
                if modes <= {"r"}:
                    continue
                site = "%s loop@%s var %s" % (t.obj.split("-")[0], _loop_kind(lp), name)
                if (t.obj, name) in LOOP_OK:
                    R.ob(rule, site + " (accepted)", True)
                    if ("loop var %s in %s: %s" % (name, t.obj, LOOP_OK[(t.obj, name)])) not in R.exceptions:
                        R.exceptions.append("loop var %s in %s: %s" % (name, t.obj, LOOP_OK[(t.obj, name)]))
                    continue
                # counter / sticky status
                if modes <= {"rw++", "rw--"}:
                    R.ob(rule, site + ": counter", True)
                    continue
                # the loop's own index, declared outside the loop: stepped by one and tested in the loop's condition -- it says which
                # item is worked on, it carries nothing from one item to the next
                cnd = lp["c"][1] if lp["k"] == "ForStmt" else (lp["c"][0] if lp["k"] == "WhileStmt" else lp["c"][1])
                if modes <= {"r", "rw++", "rw--"} and cnd is not None and any(y.get("k") == "DeclRefExpr" and y.get("d") == did for y in walk(cnd)):
                    R.ob(rule, site + ": the loop's index", True)
                    continue
                if modes <= {"w", "rw|="} and all(v is not None for m, _, v, _ in uses if m == "w"):
                    R.ob(rule, site + ": sticky status", True)
                    continue
                # (re)defined before use in every iteration: no read reachable from the loop's body entry without a write
                if _def_before_use(mf, lp, did, uses):
                    R.ob(rule, site + ": defined before use in each iteration", True,
                         sample={"rule": rule, "unit": t.obj, "var": name, "discipline": "def-before-use"})
                else:
                    w = [x for m, x, _, _ in uses if m != "r"][0]
                    R.finding(rule, mf, "%s carried across items" % name,
                              "variable `%s` is modified inside the per-item loop and can be read in a later iteration before it "
                              "is assigned again: the result for one item depends on the items before it" % name, w)
    R.floor(rule, "per-item loops", nloops, 12)


# parsers that append to a caller-held state record (argument index of the state): what they have collected for one item must be
# dropped before the next item on every path
ACCUM = {"dt_io_strpdtdur": 0}


def check_state_reset(P, R):
    """RF8-state: in a per-item loop, a parser state that lives outside the loop and is handed to an accumulating parser is reset on
    every path through the loop body (not only on the path that used what was collected)"""
    rule = "RF8-state"
    n = 0
    # a helper that hands its own pointer parameter on to an accumulating parser accumulates into it as well
    accum = dict(ACCUM)
    changed = True
    while changed:
        changed = False
        for t in P.tus:
            for fn in t.funclist:
                if getattr(fn, "body", None) is None or fn.name in accum:
                    continue
                for c in fn.walk():
                    if c.get("k") == "CallExpr" and c.get("callee") in accum and len(call_args(c)) > accum[c["callee"]]:
                        a = strip(call_args(c)[accum[c["callee"]]])
                        if a is not None and a.get("k") == "DeclRefExpr" and a.get("dk") == "parm":
                            idx = [i for i, p_ in enumerate(fn.params) if p_["d"] == a.get("d")]
                            if idx:
                                accum[fn.name] = idx[0]
                                changed = True
    for t in P.tus:
        if t.obj.startswith(EXEMPT_OBJ):
            continue
        for fn in t.funclist:
            if getattr(fn, "body", None) is None:
                continue
            for lp in _loops(fn):
                if not any(x.get("k") == "CallExpr" and x.get("callee") == "prchunk_getline" for x in walk(lp)):
                    continue
                inner_decl = {v["d"] for x in walk(lp) if x.get("k") == "DeclStmt" for v in kids(x) if v.get("k") == "Var"}
                states = {}
                for c in walk(lp):
                    if c.get("k") == "CallExpr" and c.get("callee") in accum and len(call_args(c)) > accum[c["callee"]]:
                        a = strip(call_args(c)[accum[c["callee"]]])
                        if a is not None and a.get("k") == "UnaryOperator" and a.get("op") == "&":
                            v = strip(a["c"][0])
                            if v is not None and v.get("k") == "DeclRefExpr" and v.get("d") not in inner_decl:
                                states[v["d"]] = v.get("n")
                if not states:
                    continue
                cfg = fn.cfg
                fn.nodes

                def blk(node):
                    cur = node
                    while cur is not None:
                        if "i" in cur:
                            sb = cfg.stmt_block(cur["i"])
                            if sb is not None:
                                return sb[0]
                        cur = fn.parent(cur)
                    return None
                body = lp["c"][-1]
                first = kids(body)[0] if body.get("k") == "CompoundStmt" and kids(body) else body
                entry = blk(first)
                cond = lp["c"][1] if lp["k"] == "ForStmt" else lp["c"][0]
                head = blk(cond) if cond is not None else None
                for did, name in states.items():
                    n += 1
                    R.saw(fn)
                    resets = []
                    for x in walk(body):
                        if x.get("k") == "BinaryOperator" and x.get("op") == "=" and const_of(x["c"][1]) == 0:
                            l = strip(x["c"][0])
                            if l is not None and l.get("k") == "MemberExpr" and (strip(l["c"][0]) or {}).get("d") == did:
                                resets.append(x)
                        if x.get("k") == "CallExpr" and x.get("callee") == "memset" and any(y.get("k") == "DeclRefExpr" and y.get("d") == did for y in walk(x)):
                            resets.append(x)
                    site = "%s: state `%s` of the loop at line %s" % (fn.name, name, lp.get("l"))
                    if entry is None or head is None:
                        raise AnalysisBroken("%s: loop blocks of %s not found" % (rule, fn.name))
                    rb = {blk(x) for x in resets}
                    # a turn of the loop that never passes a reset: from the body's entry to the loop's test avoiding the reset blocks
                    around = head in cfg.reachable_from(entry, avoid=rb) if entry not in rb else False
                    if resets and not around:
                        R.ob(rule, "%s is reset on every path through the body" % site, True)
                    else:
                        R.finding(rule, fn, site, "the parser state `%s` collects durations for one line; %s, so what a rejected line has "
                                  "collected is added to the next line's result: the output for a line depends on the lines before it"
                                  % (name, "it is never reset in the loop" if not resets else "a path through the loop body leads back to "
                                     "the loop's test without passing the reset (line %s)" % resets[0].get("l")), resets[0] if resets else lp)
    R.floor(rule, "parser states held across a per-item loop", n, 1)


def _loop_kind(lp):
    return {"ForStmt": "for", "WhileStmt": "while", "DoStmt": "do"}[lp["k"]]


def _def_before_use(fn, lp, did, uses):
    cfg = fn.cfg
    body = lp["c"][-1]
    blocks_in = set()
    for x in walk(lp):
        if "i" in x:
            sb = cfg.stmt_block(x["i"])
            if sb:
                blocks_in.add(sb[0])
    # entry of an iteration: blocks of the loop condition (for/while) or the first body block (do)
    cond = lp["c"][1] if lp["k"] == "ForStmt" else (lp["c"][0] if lp["k"] == "WhileStmt" else None)
    starts = set()
    if cond is not None:
        for x in walk(cond):
            if "i" in x:
                sb = cfg.stmt_block(x["i"])
                if sb:
                    starts.add(sb[0])
    if not starts:
        for x in walk(body):
            if "i" in x:
                sb = cfg.stmt_block(x["i"])
                if sb:
                    starts.add(sb[0])
                    break
    # per block: ordered events for this variable, with the member path they touch (() = the whole object)
    ev = collections.defaultdict(list)
    for m, x, v, whole in uses:
        cur = x
        path = []
        par = fn.parent(cur)
        while par is not None and par.get("k") in ("MemberExpr", "ArraySubscriptExpr") and kids(par)[0] is cur:
            path.append(par.get("n") if par.get("k") == "MemberExpr" else "[]")
            cur, par = par, fn.parent(par)
        sb = None
        c2 = x
        while c2 is not None and sb is None:
            if "i" in c2:
                sb = cfg.stmt_block(c2["i"])
            if sb is None:
                c2 = fn.parent(c2)
        if sb is None:
            continue
        ev[sb[0]].append((sb[1], m, tuple(path)))
    written = {pth for evs in ev.values() for _, m, pth in evs if m != "r"}
    if any(m not in ("r", "w") for evs in ev.values() for _, m, _ in evs):
        targets = [()]                 # read-modify-write or address taken: judge the object as a whole
    elif () in written:
        targets = [()]
    else:
        # only members are assigned: each assigned member must be (re)assigned before it -- or the whole object -- is read;
        # members that are never assigned in the loop are loop-invariant
        targets = sorted(written)

    def overlaps(a, b):
        n = min(len(a), len(b))
        return a[:n] == b[:n]
    for tgt in targets:
        if "[]" in tgt:
            return False               # element writes: which element is not tracked
        seen, st = set(), list(starts)
        while st:
            b = st.pop()
            if b in seen or b not in blocks_in and b not in starts:
                continue
            seen.add(b)
            stop = False
            for idx, m, pth in sorted(ev.get(b, [])):
                if not overlaps(pth, tgt):
                    continue
                if m == "w" and len(pth) <= len(tgt):
                    stop = True        # the target (or an enclosing object) is assigned
                    break
                if m == "w":
                    continue           # a part of the target is assigned: not yet a full definition
                return False           # read, read-modify-write or address taken before the assignment
            if stop:
                continue
            for s in cfg.succs[b]:
                if s in blocks_in:
                    st.append(s)
    return True


def check_registry_key(P, R):
    """the registry of opened zones / maps (src/alist.c) is keyed by name: a hit must mean the whole name is equal.  With a prefix
    match, `EST5EDT` asked after `EST` gets EST's handle: the answer depends on what was opened before"""
    rule = "RF7c-key"
    tu = P.tu("libdutio_a-alist.o")
    fn = tu.func("__assoc")
    if fn is None:
        raise AnalysisBroken("__assoc vanished")
    R.saw(fn)
    key = fn.params[1]["d"]
    hits = [r for r in fn.walk() if r.get("k") == "ReturnStmt" and kids(r) and const_of(kids(r)[0]) != 0]
    if not hits:
        raise AnalysisBroken("%s: hit return of __assoc not recognised" % rule)
    # cursor variables: the one that walks the key
    keycur = {key}
    for x in fn.walk():
        if x.get("k") == "BinaryOperator" and x.get("op") == "=":
            l, r = strip(x["c"][0]), strip(x["c"][1])
            if l is not None and r is not None and l.get("k") == "DeclRefExpr" and r.get("k") == "DeclRefExpr" and r.get("d") in keycur:
                keycur.add(l["d"])
        if x.get("k") == "Var" and kids(x):
            r = strip(kids(x)[0])
            if r is not None and r.get("k") == "DeclRefExpr" and r.get("d") in keycur:
                keycur.add(x["d"])

    def deref_of(e):
        e = strip(e)
        if e is not None and e.get("k") == "UnaryOperator" and e.get("op") == "*":
            b = strip(e["c"][0])
            if b is not None and b.get("k") == "DeclRefExpr":
                return b["d"]
        return None
    for r in hits:
        full = False
        nul = set()
        for g in guards_of(fn, r):
            if "pol" not in g:
                continue
            c, pol = strip(g["cond"]), g["pol"]
            while c is not None and c.get("k") == "UnaryOperator" and c.get("op") == "!":
                pol = not pol
                c = strip(c["c"][0])
            if c is not None and c.get("k") == "BinaryOperator" and c.get("op") in ("==", "!="):
                a, b = deref_of(c["c"][0]), deref_of(c["c"][1])
                if a is not None and b is not None and (a in keycur) != (b in keycur) and ((c["op"] == "==") == pol):
                    full = True
            d = deref_of(c) if c is not None else None
            if d is not None and not pol:
                nul.add(d in keycur)
        if full or nul == {True, False}:
            R.ob(rule, "__assoc: a hit requires the stored name and the key to end together", True)
        else:
            R.finding(rule, fn, "hit condition", "__assoc returns a hit without comparing the byte where the stored name ends with the key's "
                      "byte there: a stored name that is a prefix of the key matches, so a zone asked for after a zone whose name is a "
                      "prefix of its own gets the earlier zone's handle", r)


def check(P, R, tier):
    check_registry_key(P, R)
    check_inventory(P, R)
    check_cache(P, R)
    check_generation(P, R)
    check_item_loops(P, R)
    check_state_reset(P, R)


LEVEL = ("Structural decision that there is no hidden state: closed inventory of all written static-storage objects with "
         "their writer sets (whole program), whole-value/half-open/full-width discipline of the one answer cache, wrap "
         "discipline of the generation-counter scratch table, and loop-carried-variable analysis (CFG def-before-use) of "
         "every per-item loop of the tools.  History independence is a structural property; nothing is sampled.")
RULE = ("obligation = one static object with its writer set, one write of the cache / generation counter, one comparison "
        "against a cached range, or one loop-carried variable of a per-item loop")
ASSUME = ["heap state reachable only through the inventoried registries (zones/tzmaps hold zone handles; their cache is covered)",
          "flex/bison generated statics (yy*) are reset by each parse; locale tables are option state decided by C20",
          "callee side effects through pointers to locals declared outside the loop are visible as `addr' uses and listed"]
