"""C01 — calendar conversions agree with the proleptic Gregorian / ISO 8601 calendar.

Numerical equality of every conversion for all 911,280 days is a statement about computed values; it is NOT decided.
Decided are the parts of the conversions that are data or closed formulas in the source, against an independent
first-principles oracle (rules/oracle/gregorian.py), for the whole supported range at once:

 RF2-jan01    the 28-year Jan-01 weekday table, the interval on which __get_jan01_wday uses it directly (its guard
              constants) and the 400-year equivalence map used outside that interval
 RF2-monyday  the cumulative month table of __md_get_yday and its leap-day threshold
 RF2-isowk    the 53-week-year case labels of __get_isowk and the hang-over labels of __get_z31wk
 RF2-leap     the leap year predicate (folded over one 400-year cycle)
 RF2-jan00    the year-start formula __jan00_daisy (a closed formula without control flow, folded over every supported year)
 RF2-base     day-number bases (Lilian, Julian, Matlab) and the Unix epoch base, seconds per day
 RF2-ymd2daisy the closed formula __ymd_to_daisy (Neri-Schneider), folded for the first of each of the 29,940 months, and additive
              in the day of the month
 RF2-range    the validity bound of __daisy_to_ymd covers every day of the supported range
 RF9-yearadj  the readjustment tests of __daisy_get_year agree with each other and with the convention day count = year start +
              day of year (>= 1)
 RF7-leapsrc  the period-length helpers (__get_mdays, __get_ydays, __md_get_yday) use the year only as a call argument: the leap rule
              has one source, __leapp
 RF9-hang     every week carry across a year boundary tests the leapness of the year that is crossed (y++ forward, --y backward)
 RF1-conv     every converter dt_conv_to_* handles every source representation the property names
"""
import re
from core import (AnalysisBroken, strip, kids, const_of, call_args, expr_text, walk, CASTS, ceval, NotConst, switch_cases,
                  switch_handles, init_value, global_value)
from oracle import gregorian as G

WD = {1: "Mon", 2: "Tue", 3: "Wed", 4: "Thu", 5: "Fri", 6: "Sat", 7: "Sun"}


def _years(tu):
    lo, hi = tu.enum_value("DT_MIN_YEAR"), tu.enum_value("DT_MAX_YEAR")
    if lo is None or hi is None:
        lo = lo or _macro_int(tu, "DT_MIN_YEAR")
        hi = hi or _macro_int(tu, "DT_MAX_YEAR")
    if lo is None or hi is None:
        raise AnalysisBroken("DT_MIN_YEAR / DT_MAX_YEAR not found")
    return lo, hi


def _macro_int(tu, name):
    m = tu.macro(name)
    if not m:
        return None
    mm = re.search(r"\(?\s*(-?\d+)[uUlL]*\s*\)?", m.get("body", ""))
    return int(mm.group(1)) if mm else None


def _table(tu, fn, name):
    g = tu.global_var(name, func=fn.name) or tu.global_var(name)
    if g is None or g.get("init") is None:
        return None
    vals = []
    for e in kids(g["init"]):
        v = const_of(e)
        if v is None:
            try:
                v = ceval(e, {}, tu.types)
            except NotConst:
                return None
        vals.append(v)
    return vals


def check_jan01(P, R, tu, ymin, ymax):
    rule = "RF2-jan01"
    fn = tu.func("__get_jan01_wday")
    if fn is None:
        raise AnalysisBroken("__get_jan01_wday vanished")
    R.saw(fn)
    year = fn.params[0]["d"]
    # the table lookup: T[year % P]
    tab = per = None
    for x in fn.walk():
        if x.get("k") == "ArraySubscriptExpr":
            b = strip(x["c"][0])
            i = strip(x["c"][1])
            if b is not None and b.get("k") == "DeclRefExpr" and i is not None and i.get("k") == "BinaryOperator" and i.get("op") == "%":
                tab = _table(tu, fn, b["n"])
                per = const_of(i["c"][1])
                tname = b["n"]
    sw = list(fn.switches())
    if tab is None and sw:
        # switch variant: case r: return W
        s0 = sw[0]
        op = strip(s0["c"][0])
        if op is not None and op.get("k") == "BinaryOperator" and op.get("op") == "%":
            per = const_of(op["c"][1])
            tab = [None] * per
            for g in switch_cases(s0):
                rv = [const_of(kids(s)[0]) for s in g["stmts"] if s.get("k") == "ReturnStmt" and kids(s)]
                for l in g["labels"]:
                    if l["lo"] is not None and rv:
                        for r in range(l["lo"], l["hi"] + 1):
                            tab[r] = rv[0]
            tname = "switch"
    if tab is None or per is None or len(tab) < per or any(v is None for v in tab[:per]):
        raise AnalysisBroken("%s: the Jan-01 weekday table of __get_jan01_wday was not recognised" % rule)
    # the guard: year > HI || year < LO  ->  year = equiv(year)
    lo, hi = ymin, ymax
    equiv = None
    for st in fn.walk():
        if st.get("k") == "IfStmt":
            asg = [x for x in walk(st["c"][1]) if x.get("k") == "BinaryOperator" and x.get("op") == "=" and
                   strip(x["c"][0]).get("k") == "DeclRefExpr" and strip(x["c"][0]).get("d") == year and
                   strip(x["c"][1]).get("k") == "CallExpr"]
            if not asg:
                continue
            equiv = strip(asg[0]["c"][1]).get("callee")
            glo = ghi = None
            for c in walk(st["c"][0]):
                if c.get("k") == "BinaryOperator" and c.get("op") in ("<", ">", "<=", ">="):
                    l, r = strip(c["c"][0]), strip(c["c"][1])
                    if l is not None and l.get("k") == "DeclRefExpr" and l.get("d") == year and const_of(r) is not None:
                        v = const_of(r)
                        if c["op"] == ">":
                            ghi = v
                        elif c["op"] == ">=":
                            ghi = v - 1
                        elif c["op"] == "<":
                            glo = v
                        elif c["op"] == "<=":
                            glo = v + 1
            lo = glo if glo is not None else ymin
            hi = ghi if ghi is not None else ymax
    lo, hi = max(lo, ymin), min(hi, ymax)
    bad = [y for y in range(lo, hi + 1) if tab[y % per] != G.wday(y, 1, 1)]
    if not bad:
        R.ob(rule, "table[year %% %d] is the weekday of Jan 01 for every year it is used for directly, %d..%d" % (per, lo, hi), True,
             sample={"rule": rule, "table": tname, "period": per, "direct": [lo, hi]})
    else:
        R.finding(rule, fn, "direct interval", "the %d-year table is used directly for %d..%d but gives the wrong weekday of Jan 01 for %s "
                  "(e.g. %d: table %s, calendar %s)" % (per, lo, hi, _ranges(bad), bad[0], WD.get(tab[bad[0] % per], tab[bad[0] % per]),
                                                        WD[G.wday(bad[0], 1, 1)]))
    if lo > ymin or hi < ymax:
        if equiv is None:
            raise AnalysisBroken("%s: years outside the direct interval are not mapped by a recognised helper" % rule)
        ef = tu.func(equiv)
        if ef is None:
            raise AnalysisBroken("%s: %s vanished" % (rule, equiv))
        R.saw(ef)
        m = _decode_equiv(ef)
        if m is None:
            raise AnalysisBroken("%s: the piecewise map of %s was not recognised" % (rule, equiv))
        cyc, pieces, dflt = m
        badr = []
        for r in range(cyc):
            add = dflt
            for thr, a in pieces:
                if r > thr:
                    add = a
                    break
            e = r + add
            if not (lo <= e <= hi) or G.wday(e, 1, 1) != G.wday(2000 + r if cyc == 400 else e, 1, 1) or (e - r) % 400:
                if not (lo <= e <= hi) or G.wday(e, 1, 1) != G.wday(2000 + r, 1, 1):
                    badr.append((r, e))
        # only residues that can occur outside the direct interval matter
        need = {y % cyc for y in range(ymin, ymax + 1) if not (lo <= y <= hi)}
        badr = [(r, e) for r, e in badr if r in need]
        if cyc != 400:
            R.finding(rule, ef, "cycle", "the equivalence map reduces the year modulo %d; weekdays repeat every 400 years" % cyc)
        elif not badr:
            R.ob(rule, "%s maps every year outside %d..%d to a year inside it with the same Jan 01 weekday" % (equiv, lo, hi), True,
                 sample={"rule": rule, "pieces": pieces, "default": dflt})
        else:
            r, e = badr[0]
            R.finding(rule, ef, "equivalent year", "year = %d (mod 400) is mapped to %d, which is %s (%d residues)" %
                      (r, e, "outside the interval %d..%d the table is valid for" % (lo, hi) if not (lo <= e <= hi) else
                       "a year whose Jan 01 is a %s, not a %s" % (WD[G.wday(e, 1, 1)], WD[G.wday(2000 + r, 1, 1)]), len(badr)))


def _decode_equiv(ef):
    """year = year % C; if (year > t1) return year + a1; else if ... ; return year + a0"""
    p = ef.params[0]["d"]
    cyc = None
    for x in ef.walk():
        if x.get("k") == "BinaryOperator" and x.get("op") == "=" and strip(x["c"][0]).get("d") == p:
            r = strip(x["c"][1])
            if r.get("k") == "BinaryOperator" and r.get("op") == "%" and strip(r["c"][0]).get("d") == p:
                cyc = const_of(r["c"][1])
    if cyc is None:
        return None
    pieces = []
    dflt = None

    def ret_add(s):
        for x in walk(s):
            if x.get("k") == "ReturnStmt" and kids(x):
                e = strip(kids(x)[0])
                if e.get("k") == "BinaryOperator" and e.get("op") == "+" and strip(e["c"][0]).get("d") == p:
                    return const_of(e["c"][1])
        return None
    body = kids(ef.body)
    for s in body:
        if s.get("k") == "IfStmt":
            cur = s
            while cur is not None and cur.get("k") == "IfStmt":
                c = strip(cur["c"][0])
                if not (c.get("k") == "BinaryOperator" and c.get("op") == ">" and strip(c["c"][0]).get("d") == p):
                    return None
                a = ret_add(cur["c"][1])
                if a is None:
                    return None
                pieces.append((const_of(c["c"][1]), a))
                cur = cur["c"][2] if len(cur["c"]) > 2 else None
            if cur is not None:
                dflt = ret_add(cur)
        elif s.get("k") == "ReturnStmt":
            dflt = ret_add(s)
    if dflt is None or sorted(pieces, reverse=True) != pieces:
        return None
    return cyc, pieces, dflt


def _ranges(xs):
    xs = sorted(xs)
    out, a, b = [], xs[0], xs[0]
    for x in xs[1:]:
        if x == b + 1:
            b = x
        else:
            out.append((a, b))
            a = b = x
    out.append((a, b))
    return ", ".join("%d" % a if a == b else "%d..%d" % (a, b) for a, b in out[:6]) + (" ..." if len(out) > 6 else "")


def check_monyday(P, R, tu):
    rule = "RF2-monyday"
    fn = tu.func("__md_get_yday")
    if fn is None:
        raise AnalysisBroken("__md_get_yday vanished")
    R.saw(fn)
    tab = None
    for x in fn.walk():
        if x.get("k") == "ArraySubscriptExpr":
            b = strip(x["c"][0])
            if b is not None and b.get("k") == "DeclRefExpr":
                tab = _table(tu, fn, b["n"])
                idx = strip(x["c"][1])
    if tab is None:
        raise AnalysisBroken("%s: cumulative month table not recognised (is the DIVREM variant active?)" % rule)
    exp = [sum(G.MDAYS[1:m]) for m in range(1, 14)]     # days before month m, m = 1..13
    got = tab[1:14]
    if got == exp:
        R.ob(rule, "__mon_yday[m] = days before month m in a common year, m = 1..13", True, sample={"rule": rule, "table": got})
    else:
        badm = [m for m in range(1, 14) if m - 1 < len(got) and got[m - 1] != exp[m - 1]] or [len(got)]
        R.finding(rule, fn, "cumulative table", "entry for month %d is %s, the calendar has %d days before that month"
                  % (badm[0], got[badm[0] - 1] if badm[0] - 1 < len(got) else None, exp[badm[0] - 1]))
    # leap day threshold: + (leap && mon >= 3)
    thr = None
    for x in fn.walk():
        if x.get("k") == "BinaryOperator" and x.get("op") in (">=", ">"):
            l = strip(x["c"][0])
            if l is not None and l.get("k") == "DeclRefExpr" and l.get("d") == fn.params[1]["d"] and const_of(x["c"][1]) is not None:
                thr = const_of(x["c"][1]) + (1 if x["op"] == ">" else 0)
    if thr == 3:
        R.ob(rule, "leap day added from March on", True)
    else:
        R.finding(rule, fn, "leap threshold", "the leap day is added for months >= %s; it lies before March, month 3" % thr)


def _label_set(sw, want_ret=None):
    labs = set()
    for g in switch_cases(sw):
        rets = [const_of(kids(s)[0]) for s in g["stmts"] if s.get("k") == "ReturnStmt" and kids(s)]
        for l in g["labels"]:
            if l["lo"] is not None and (want_ret is None or (rets and rets[0] == want_ret)):
                labs.update(range(l["lo"], l["hi"] + 1))
    return labs


def check_isowk(P, R, tu):
    rule = "RF2-isowk"
    for name, pred, what in (("__get_isowk", lambda y: G.iso_weeks_in_year(y) == 53, "years with 53 ISO weeks"),
                             ("__get_z31wk", lambda y: G.iso_week(y, 12, 31)[1] != 52, "years whose Dec 31 lies in week 53 or hangs over into week 1")):
        fn = tu.func(name)
        if fn is None:
            raise AnalysisBroken("%s vanished" % name)
        R.saw(fn)
        sws = list(fn.switches())
        if len(sws) != 1:
            raise AnalysisBroken("%s: %s is not a single switch" % (rule, name))
        op = strip(sws[0]["c"][0])
        if not (op.get("k") == "BinaryOperator" and op.get("op") == "%" and const_of(op["c"][1])):
            raise AnalysisBroken("%s: switch operand of %s is not year %% cycle" % (rule, name))
        cyc = const_of(op["c"][1])
        # value of the function per residue: the return of the label's group, else the return the function falls out to
        groups = switch_cases(sws[0])
        val = {}
        dflt = None
        for g in groups:
            rets = [const_of(kids(s_)[0]) for s_ in g["stmts"] if s_.get("k") == "ReturnStmt" and kids(s_)]
            for l in g["labels"]:
                if l["lo"] is not None and rets:
                    for r_ in range(l["lo"], l["hi"] + 1):
                        val[r_] = rets[0]
                elif l["en"] == "default" and rets:
                    dflt = rets[0]
        if dflt is None:
            tail = [const_of(kids(s_)[0]) for s_ in kids(fn.body) if s_.get("k") == "ReturnStmt" and kids(s_)]
            dflt = tail[-1] if tail else None
        if dflt is None or any(v is None for v in val.values()):
            raise AnalysisBroken("%s: return values of %s not recognised" % (rule, name))
        labs = {r_ for r_ in range(cyc) if val.get(r_, dflt) == 53}
        if any(v not in (52, 53) for v in list(val.values()) + [dflt]):
            R.finding(rule, fn, "week counts", "%s returns values other than 52 and 53" % name)
        if cyc == 400:
            dom = range(400)
            exp = {r for r in dom if pred(2000 + r)}
            used = set(dom)
        else:
            # shorter cycle: must hold for every supported year the variant is compiled for
            ymin, ymax = _years(tu)
            exp = None
            bad = [y for y in range(ymin, ymax + 1) if ((y % cyc) in labs) != pred(y)]
            if bad:
                R.finding(rule, fn, "case labels", "the %d-year cycle gives the wrong answer for %s" % (cyc, _ranges(bad)))
            else:
                R.ob(rule, "%s: %d-year cycle labels right for every supported year" % (name, cyc), True)
            continue
        if labs == exp:
            R.ob(rule, "%s: the %d case labels returning 53 are exactly the %s in the 400-year cycle" % (name, len(labs), what), True,
                 sample={"rule": rule, "function": name, "labels": len(labs)})
        else:
            miss, extra = sorted(exp - labs), sorted(labs - exp)
            R.finding(rule, fn, "case labels", "%s: residues mod 400 missing from the 53-week labels: %s; wrongly listed: %s"
                      % (what, miss[:8], extra[:8]))


def check_leap(P, R, tu):
    rule = "RF2-leap"
    fn = tu.func("__leapp")
    if fn is None:
        raise AnalysisBroken("__leapp vanished")
    R.saw(fn)
    rets = [r for r in fn.walk() if r.get("k") == "ReturnStmt" and kids(r)]
    ymin, ymax = _years(tu)
    p = fn.params[0]["d"]
    if len(rets) != 1 or any(x.get("k") in ("IfStmt", "SwitchStmt", "ForStmt", "WhileStmt") for x in fn.walk()):
        raise AnalysisBroken("%s: __leapp is not a single closed expression" % rule)
    bad = []
    for y in range(ymin, ymax + 1):
        try:
            v = ceval(kids(rets[0])[0], {p: y}, tu.types)
        except NotConst as e:
            raise AnalysisBroken("%s: cannot fold __leapp: %s" % (rule, e))
        if bool(v) != G.leapp(y):
            bad.append(y)
    if not bad:
        R.ob(rule, "leap year predicate agrees with the Gregorian rule for %d..%d" % (ymin, ymax), True)
    else:
        R.finding(rule, fn, "predicate", "the leap year expression is wrong for %s" % _ranges(bad))


def check_jan00(P, R, tu):
    rule = "RF2-jan00"
    fn = tu.func("__jan00_daisy")
    if fn is None:
        raise AnalysisBroken("__jan00_daisy vanished")
    R.saw(fn)
    ymin, ymax = _years(tu)
    p = fn.params[0]["d"]
    stmts = kids(fn.body)
    if any(x.get("k") in ("SwitchStmt", "ForStmt", "WhileStmt", "DoStmt", "GotoStmt") for x in fn.walk()):
        raise AnalysisBroken("%s: __jan00_daisy is not a closed formula" % rule)
    bad = []

    def run(stmts, env):
        for s in stmts:
            k = s.get("k")
            if k == "DeclStmt":
                for v in kids(s):
                    if v.get("k") == "Var" and kids(v):
                        env[v["d"]] = ceval(kids(v)[0], env, tu.types)
            elif k == "BinaryOperator" and s.get("op") == "=":
                env[strip(s["c"][0])["d"]] = ceval(s["c"][1], env, tu.types)
            elif k == "CompoundAssignOperator":
                d = strip(s["c"][0])["d"]
                synth = {"k": "BinaryOperator", "op": s["op"][:-1], "c": [s["c"][0], s["c"][1]], "t": s.get("t")}
                env[d] = ceval(synth, env, tu.types)
            elif k == "IfStmt":
                # a guarded correction (other base years): the guard is a comparison of the year with a constant
                if ceval(s["c"][0], env, tu.types):
                    r = run(kids(s["c"][1]) if s["c"][1].get("k") == "CompoundStmt" else [s["c"][1]], env)
                    if r is not None:
                        return r
                elif len(s["c"]) > 2 and s["c"][2] is not None:
                    r = run(kids(s["c"][2]) if s["c"][2].get("k") == "CompoundStmt" else [s["c"][2]], env)
                    if r is not None:
                        return r
            elif k == "ReturnStmt":
                return ceval(kids(s)[0], env, tu.types)
            elif k in ("NullStmt",):
                pass
            else:
                raise NotConst(k)
        return None
    vals = {}
    for y in range(ymin, ymax + 1):
        try:
            vals[y] = run(stmts, {p: y})
        except NotConst as e:
            raise AnalysisBroken("%s: cannot fold __jan00_daisy: %s" % (rule, e))
    # the base year is the one whose Jan 00 is day 0
    zeros = [y for y, v in vals.items() if v == 0]
    if len(zeros) != 1:
        raise AnalysisBroken("%s: no unique base year (year whose start is day 0): %s" % (rule, zeros[:3]))
    base = zeros[0]
    bad = [y for y, v in vals.items() if v != G.daisy(y - 1, 12, 31, base)]
    if not bad:
        R.ob(rule, "__jan00_daisy(y) = day count of Dec 31 of y-1 for every y in %d..%d (base year %d)" % (ymin, ymax, base), True)
    else:
        R.finding(rule, fn, "year start formula", "the formula is wrong for %s" % _ranges(bad))
    return base


from core import NotConst as core_NotConst


def check_bases(P, R, tu, dtu, base):
    rule = "RF2-base"
    d0 = (base - 1, 12, 31)      # daisy 0
    exp = {"__daisy_to_ldn": G.rata(*d0) - G.rata(1582, 10, 15),   # the repo documents "days since 15 Oct 1582" "__daisy_to_mdn": G.rata(*d0) + 366,
           "__daisy_to_jdn": G.jdn(*d0) - 0.5}
    inv = {"__daisy_to_ldn": "__ldn_to_daisy", "__daisy_to_mdn": "__mdn_to_daisy", "__daisy_to_jdn": "__jdn_to_daisy"}
    for name, want in exp.items():
        for fname, sign in ((name, "+"), (inv[name], "-")):
            fn = tu.func(fname)
            if fn is None:
                raise AnalysisBroken("%s vanished" % fname)
            R.saw(fn)
            got = None
            for x in fn.walk():
                if x.get("k") == "BinaryOperator" and x.get("op") == sign:
                    c = _num(x["c"][1])
                    if c is not None and strip(x["c"][0]).get("k") == "DeclRefExpr":
                        got = c
            if got is None:
                raise AnalysisBroken("%s: base constant of %s not recognised" % (rule, fname))
            if got == want:
                R.ob(rule, "%s uses base %s = day number of %04d-%02d-%02d" % (fname, got, *d0), True)
            else:
                R.finding(rule, fn, "base constant", "%s uses %s; the day number of %04d-%02d-%02d is %s" % (fname, got, *d0, want))
    # unix epoch
    fn = dtu.func("__to_unix_epoch")
    if fn is None:
        raise AnalysisBroken("__to_unix_epoch vanished")
    R.saw(fn)
    want = G.daisy(1970, 1, 1, base)
    got = mult = None
    for x in fn.walk():
        if x.get("k") == "BinaryOperator" and x.get("op") == "*":
            a = strip(x["c"][0])
            if a is not None and a.get("k") == "BinaryOperator" and a.get("op") == "-" and const_of(a["c"][1]) is not None \
                    and strip(a["c"][0]).get("k") == "CallExpr":
                got = const_of(a["c"][1])
                mult = const_of(x["c"][1])
    if got is None:
        # another spelling of the formula: the decode below decides it
        R.notes.append("%s: (daisy - base) * seconds of __to_unix_epoch not recognised as one expression; decided by decoding" % rule)
    elif got == want and mult == 86400:
        R.ob(rule, "__to_unix_epoch: (day - %d) * %d, day %d = 1970-01-01" % (got, mult, want), True)
    else:
        R.finding(rule, fn, "unix base", "__to_unix_epoch uses (day - %s) * %s; 1970-01-01 is day %d and a day has 86400 s" % (got, mult, want))
    # the function itself, folded over the whole range (arithmetic of the width it is written in)
    import datetime
    import fold
    libs = [dtu, tu, P.tu("libdut_a-time-core.o")]

    def resolve(name):
        for l in libs:
            f = l.func(name)
            if f is not None and getattr(f, "body", None) is not None:
                return f
        return None
    fold.RESOLVE["fn"] = resolve
    E = {k: dtu.enum_value(k) for k in ("DT_YMD", "DT_HMS")}
    bad = []
    npts = 0
    try:
        for (y, m, d) in ((1601, 1, 1), (1700, 3, 1), (1901, 12, 13), (1901, 12, 14), (1969, 12, 31), (1970, 1, 1), (2000, 2, 29), (2038, 1, 19),
                          (2038, 1, 20), (2100, 1, 1), (2106, 2, 8), (3000, 7, 4), (4095, 12, 31)):
            for (h, mi, se) in ((0, 0, 0), (12, 30, 15), (23, 59, 59)):
                rec = {"typ": E["DT_YMD"], "sandwich": 1, "d.typ": E["DT_YMD"], "d.ymd.y": y, "d.ymd.m": m, "d.ymd.d": d,
                       "t.typ": E["DT_HMS"], "t.hms.h": h, "t.hms.m": mi, "t.hms.s": se, "t.hms.ns": 0}
                r = fold.Folder(fn, calls={}, inline=True, max_steps=400000).run([rec])
                e = int((datetime.datetime(y, m, d, h, mi, se) - datetime.datetime(1970, 1, 1)).total_seconds())
                npts += 1
                if r != e:
                    bad.append(("%04d-%02d-%02dT%02d:%02d:%02d" % (y, m, d, h, mi, se), r, e))
    except (core_NotConst, fold.Abort) as e:
        raise AnalysisBroken("%s: __to_unix_epoch left the foldable fragment (%s)" % (rule, e))
    if bad:
        R.finding(rule, fn, "unix seconds decoded", "%d of %d date-times across the range give other epoch seconds than 86400 x days since "
                  "1970-01-01 + seconds of the day; first: %s gives %s, it is %s" % (len(bad), npts, bad[0][0], bad[0][1], bad[0][2]))
    else:
        R.ob(rule, "__to_unix_epoch decoded on %d date-times from 1601 to 4095 (both sides of the 32-bit range): 86400 x days since 1970-01-01 "
             "+ seconds of the day" % npts, True)


def _num(n):
    c = const_of(n)
    if c is not None:
        return c
    n = strip(n)
    while n is not None and n.get("k") in CASTS:
        n = strip(n["c"][0])
    if n is not None and n.get("k") == "FloatingLiteral":
        return n.get("fv", n.get("v"))
    return None


def check_range(P, R, tu, base):
    rule = "RF2-range"
    fn = tu.func("__daisy_to_ymd")
    if fn is None:
        raise AnalysisBroken("__daisy_to_ymd vanished")
    R.saw(fn)
    ymin, ymax = _years(tu)
    last = G.daisy(ymax, 12, 31, base)
    p = fn.params[0]["d"]
    bound = None
    for x in fn.walk():
        if x.get("k") == "BinaryOperator" and x.get("op") in (">", ">="):
            l = strip(x["c"][0])
            if l is not None and l.get("k") == "DeclRefExpr" and l.get("d") == p and const_of(x["c"][1]) is not None:
                bound = const_of(x["c"][1]) - (1 if x["op"] == ">=" else 0)
                node = x
    if bound is None:
        # no upper bound: every day is converted
        R.ob(rule, "__daisy_to_ymd has no upper cut-off", True)
        return
    if bound == last:
        R.ob(rule, "__daisy_to_ymd converts day counts up to %d = %d-12-31" % (bound, ymax), True)
    elif bound < last:
        y, m, d = G.from_rata(bound + G.rata(base - 1, 12, 31))
        R.finding(rule, fn, "upper bound %d" % bound, "day counts above %d (%04d-%02d-%02d) are rejected although the supported range ends with "
                  "day %d (%d-12-31): the last %d days convert to 0000-00-00" % (bound, y, m, d, last, ymax, last - bound), node)
    else:
        R.finding(rule, fn, "upper bound %d" % bound, "day counts up to %d are accepted, beyond %d-12-31 (day %d): the 12-bit year wraps" % (bound, ymax, last), node)


def _subst_members(e, values):
    """copy of an expression / statement tree with reads of members (by name) replaced by integer literals"""
    if e is None:
        return None
    if e.get("k") == "MemberExpr" and e.get("n") in values:
        return {"k": "IntegerLiteral", "v": values[e["n"]], "t": e.get("t")}
    out = dict(e)
    if "c" in e:
        out["c"] = [_subst_members(c, values) if c is not None else None for c in e["c"]]
    return out


def _fold_straightline(tu, stmts, env):
    """fold a loop-free statement list: declarations, assignments, if (folded), return"""
    for s in stmts:
        k = s.get("k")
        if k == "DeclStmt":
            for v in kids(s):
                if v.get("k") == "Var" and kids(v):
                    env[v["d"]] = ceval(kids(v)[0], env, tu.types)
        elif k == "BinaryOperator" and s.get("op") == "=":
            env[strip(s["c"][0])["d"]] = ceval(s["c"][1], env, tu.types)
        elif k == "CompoundAssignOperator":
            d = strip(s["c"][0])["d"]
            synth = {"k": "BinaryOperator", "op": s["op"][:-1], "c": [s["c"][0], s["c"][1]], "t": s.get("t")}
            env[d] = ceval(synth, env, tu.types)
        elif k == "IfStmt":
            br = s["c"][1] if ceval(s["c"][0], env, tu.types) else (s["c"][2] if len(s["c"]) > 2 else None)
            if br is not None:
                r = _fold_straightline(tu, kids(br) if br.get("k") == "CompoundStmt" else [br], env)
                if r is not None:
                    return r
        elif k == "CompoundStmt":
            r = _fold_straightline(tu, kids(s), env)
            if r is not None:
                return r
        elif k == "ReturnStmt":
            return ("ret", ceval(kids(s)[0], env, tu.types))
        elif k == "NullStmt":
            pass
        else:
            raise NotConst(k)
    return None


def check_ymd2daisy(P, R, tu, base):
    """__ymd_to_daisy is a closed formula (no loop, no table): folded for the first of every month of every supported year it
    must give the oracle's day count, and the day of the month must enter additively (checked on the formula's polynomial)"""
    rule = "RF2-ymd2daisy"
    fn = tu.func("__ymd_to_daisy")
    if fn is None:
        raise AnalysisBroken("__ymd_to_daisy vanished")
    R.saw(fn)
    if any(x.get("k") in ("ForStmt", "WhileStmt", "DoStmt", "SwitchStmt", "GotoStmt") for x in fn.walk()):
        raise AnalysisBroken("%s: __ymd_to_daisy is not a closed formula any more" % rule)
    ymin, ymax = _years(tu)
    # additivity in the day: the polynomial summary has d.d with coefficient 1 outside every quotient
    import conserve
    sm = conserve.Summariser(fn)
    try:
        paths = sm.summarise()
    except AnalysisBroken as e:
        raise AnalysisBroken("%s: %s" % (rule, e))
    dk = (fn.params[0]["d"], "d")
    add_ok = bool(paths)
    for p_ in paths:
        r = p_.ret
        if not isinstance(r, conserve.Poly):
            add_ok = False
            continue
        dsym = ("in", dk)
        lin = r.get((dsym,), 0)
        inside = any(dsym in m_ and m_ != (dsym,) for m_ in r) or any(repr(dsym) in repr(sy) for m_ in r for sy in m_ if sy != dsym)
        if lin != 1 or inside:
            add_ok = False
    if add_ok:
        R.ob(rule, "__ymd_to_daisy: the day of the month enters the result additively with coefficient 1", True)
    else:
        R.finding(rule, fn, "day term", "the day of the month does not enter the day count as a plain summand")
    body = kids(fn.body)
    bad = []
    for y in range(ymin, ymax + 1):
        for m in range(1, 13):
            st = [_subst_members(s_, {"y": y, "m": m, "d": 1}) for s_ in body]
            try:
                r = _fold_straightline(tu, st, {})
            except NotConst as e:
                raise AnalysisBroken("%s: cannot fold __ymd_to_daisy: %s" % (rule, e))
            if r is None or r[1] != G.daisy(y, m, 1, base):
                bad.append((y, m, r and r[1]))
    if not bad:
        R.ob(rule, "__ymd_to_daisy(y-m-01) is the day count of the first of the month for all %d months of %d..%d" % ((ymax - ymin + 1) * 12, ymin, ymax), True)
    else:
        y, m, got = bad[0]
        R.finding(rule, fn, "closed formula", "the formula gives %s for %04d-%02d-01, the day count is %d (%d of %d months wrong)"
                  % (got, y, m, G.daisy(y, m, 1, base), len(bad), (ymax - ymin + 1) * 12))


def check_leap_source(P, R, tu):
    """the leap rule lives in __leapp (checked by RF2-leap): the period-length helpers must take the year's leapness from there,
    i.e. use their year parameter only as an argument of calls, never in arithmetic of their own"""
    rule = "RF7-leapsrc"
    n = 0
    for name, yi in (("__get_mdays", 0), ("__get_ydays", 0), ("__md_get_yday", 0)):
        fn = tu.func(name)
        if fn is None:
            raise AnalysisBroken("%s vanished" % name)
        R.saw(fn)
        y = fn.params[yi]["d"]
        bad = None
        uses = 0
        for x in fn.walk():
            if x.get("k") == "DeclRefExpr" and x.get("d") == y:
                uses += 1
                par = fn.parent(x)
                while par is not None and par.get("k") in CASTS:
                    par = fn.parent(par)
                if not (par is not None and par.get("k") == "CallExpr"):
                    bad = par if par is not None else x
        n += 1
        if bad is None:
            R.ob(rule, "%s hands its year to helpers only (%d uses)" % (name, uses), True)
        else:
            R.finding(rule, fn, "own year arithmetic", "%s computes with the year itself (`%s`) instead of asking __leapp: a private leap "
                      "rule (every 4th year) is wrong for 1700, 1800, 1900, 2100, ..." % (name, expr_text(bad)[:60]), bad)
    R.floor(rule, "period length helpers", n, 3)


def check_hang(P, R, tu):
    """ISO week dates cache the offset of the week grid against the year (`hang`).  When a week carry crosses a year boundary the
    offset moves by the length of the year that is crossed: going forward that is the year being left (leapness tested before the
    year is incremented), going backward the year being entered (tested after the decrement).  All sites must agree on that."""
    rule = "RF9-hang"
    n = 0
    for fn in tu.funclist:
        if not fn.file.endswith("ywd.c"):
            continue
        for c in fn.calls("__leapp"):
            a = strip(call_args(c)[0])
            if a is None or a.get("k") != "UnaryOperator" or a.get("op") not in ("++", "--"):
                continue
            n += 1
            R.saw(fn)
            form = (a["op"], bool(a.get("postfix")))
            if form in (("++", True), ("--", False)):
                R.ob(rule, "%s: __leapp(%s) tests the year that is crossed" % (fn.name, "y++" if form[0] == "++" else "--y"), True)
            else:
                R.finding(rule, fn, "__leapp(%s)" % expr_text(a), "the carry tests the leapness of the wrong year: going forward the year "
                          "being left decides (y++), going backward the year being entered (--y); `%s` looks at the other one, so the "
                          "cached offset is a day off whenever exactly one of the two years is a leap year" % expr_text(a), c)
    R.floor(rule, "year-crossing leap tests in the ISO week code", n, 4)


def check_yearadj(P, R, tu):
    """the year of a day count: estimate, then step back while the year's day 0 is not before the day.  __yd_to_daisy defines
    the convention (day count = year start + day of year, day of year >= 1), so `start >= d` is the only test that is right
    on the last day of a year; the two readjustments are siblings and must agree with it"""
    rule = "RF9-yearadj"
    fn = tu.func("__daisy_get_year")
    ydd = tu.func("__yd_to_daisy")
    if fn is None or ydd is None:
        raise AnalysisBroken("__daisy_get_year / __yd_to_daisy vanished")
    R.saw(fn)
    R.saw(ydd)
    # convention: __yd_to_daisy returns __jan00_daisy(y) + yday without offset
    conv = False
    for r in ydd.walk():
        if r.get("k") == "ReturnStmt" and kids(r):
            e = strip(kids(r)[0])
            if e is not None and e.get("k") == "BinaryOperator" and e.get("op") == "+":
                a, b = strip(e["c"][0]), strip(e["c"][1])
                if a.get("k") == "CallExpr" and a.get("callee") == "__jan00_daisy" and b.get("k") == "MemberExpr":
                    conv = True
    if not conv:
        raise AnalysisBroken("%s: __yd_to_daisy is no longer year start + day of year; the convention the rule relies on changed" % rule)
    d = fn.params[0]["d"]
    tests = []
    for x in fn.walk():
        if x.get("k") == "BinaryOperator" and x.get("op") in ("<", "<=", ">", ">=", "==", "!="):
            l, r = strip(x["c"][0]), strip(x["c"][1])
            for a, b, op in ((l, r, x["op"]), (r, l, {"<": ">", ">": "<", "<=": ">=", ">=": "<=", "==": "==", "!=": "!="}[x["op"]])):
                if a is not None and a.get("k") == "CallExpr" and a.get("callee") == "__jan00_daisy" and b is not None \
                        and b.get("k") == "DeclRefExpr" and b.get("d") == d:
                    tests.append((op, x))
    if len(tests) < 1:
        raise AnalysisBroken("%s: readjustment tests of __daisy_get_year not recognised" % rule)
    for i, (op, x) in enumerate(tests):
        if op == ">=":
            R.ob(rule, "__daisy_get_year: readjustment %d steps back while year start >= day" % (i + 1), True)
        else:
            R.finding(rule, fn, "readjustment %d" % (i + 1), "readjustment %d steps back on `year start %s day`; a year's days are the day counts "
                      "after its start (day of year >= 1), so the test must be `>=`: the last day of a year is put into the following "
                      "year" % (i + 1, op), x)


SOURCES = ("DT_YMD", "DT_YMCW", "DT_YWD", "DT_YD", "DT_DAISY", "DT_LDN", "DT_JDN", "DT_MDN")
TARGETS = ("dt_conv_to_daisy", "dt_conv_to_ymd", "dt_conv_to_ymcw", "dt_conv_to_ywd", "dt_conv_to_yd")


def check_conv(P, R, tu):
    rule = "RF1-conv"
    n = 0
    for tname in TARGETS:
        fn = tu.func(tname)
        if fn is None:
            raise AnalysisBroken("%s vanished" % tname)
        R.saw(fn)
        sws = list(fn.switches())
        if not sws:
            raise AnalysisBroken("%s: %s has no dispatch switch" % (rule, tname))
        for s in SOURCES:
            v = tu.enum_value(s)
            if v is None:
                raise AnalysisBroken("%s: enumerator %s vanished" % (rule, s))
            n += 1
            if switch_handles(sws[0], v):
                R.ob(rule, "%s handles %s" % (tname, s), True)
            else:
                R.finding(rule, fn, "%s <- %s" % (tname, s), "%s has no case for source representation %s: such dates convert to the "
                          "zero date" % (tname, s), sws[0])
    R.floor(rule, "converter x source pairs", n, 40)


def check(P, R, tier):
    tu = P.tu("libdut_a-date-core.o")
    dtu = P.tu("libdut_a-dt-core.o")
    ymin, ymax = _years(tu)
    check_jan01(P, R, tu, ymin, ymax)
    check_monyday(P, R, tu)
    check_isowk(P, R, tu)
    check_leap(P, R, tu)
    base = check_jan00(P, R, tu)
    check_bases(P, R, tu, dtu, base)
    check_range(P, R, tu, base)
    check_yearadj(P, R, tu)
    check_leap_source(P, R, tu)
    check_hang(P, R, tu)
    check_ymd2daisy(P, R, tu, base)
    check_conv(P, R, tu)
    import convdecode
    nc = convdecode.run_parallel(R, tu, "RF2-conv", quick=(tier != "thorough"), jobs=12)
    R.floor("RF2-conv", "decoded converter results over the 21 year classes", nc, 100000)
    ns = convdecode.run_sweep(R, tu, "RF2-conv", jobs=12)
    R.floor("RF2-conv", "day-number conversions swept over all years", ns, 30000)
    import lentab
    n = lentab.check(P, R, tu, {"mdays", "m01wd", "ydays"}, rule="RF2-closed")
    R.floor("RF2-closed", "entries of calendar tables spelled as closed forms", n, 200)


LEVEL = ("Decides the data and closed formulas the conversions are built from, against a first-principles Gregorian / ISO 8601 "
         "oracle and for the whole supported range: Jan-01 weekday table with its direct-use interval and 400-year equivalence "
         "map, cumulative month table, 53-week and hang-over case labels, leap year predicate, year-start formula, day-number "
         "and Unix bases, the validity bound of the day-count -> ymd conversion, and the converter dispatch matrix.  On top of these "
         "year-level facts all 20 converters and getters are decoded over the 21 year classes (weekday of 1 January x leap x previous "
         "year leap) for every day of a representative year and compared with the calendar (RF2-conv), which together covers every "
         "day of the range.  NOT decided: the Hijri calendar, and the last 606 days of the range (known finding D21).")
RULE = "obligation = one table / formula / constant / case-label set against the oracle, one converter x source pair"
ASSUME = ["the oracle (rules/oracle/gregorian.py, ~60 lines, written from the calendar definition) is right",
          "tables are folded from their initialisers, closed formulas without loops are folded over their finite domain"]
