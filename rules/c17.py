"""C17 — dgrep selects exactly the lines whose dates satisfy the expression.

 RF1-kv     the value slot `kv` of an expression node (a union member) is read only where the node's type has been
            tested to be DEX_VAL on that access path (CFG guards)
 RF-eval    the matcher combines the two children of a conjunction with && and of a disjunction with ||, and
            evaluates values with dexkv_matches_p: ordinary Boolean semantics on the tree as it is
 RF2-nega   negation push-down: the type map applied under a negation flag is the involution CONJ<->DISJ, both
            children's flags are toggled (folded over {0,1}), a value's operator is complemented
 RF2-ops    operator tables decoded by constant folding over cmp in {-1,0,1}: each operator accepts exactly the
            comparison results its name says, identically for whole dates and for specifier values (line value on the
            left), and __nega_kv maps every operator the parser can produce to one with the complementary accept set
 RF6-own    every rewrite of __dnf leaves a tree: no node is reachable through two parent slots (symbolic execution of
            the pointer assignments of each branch), because free_dexpr releases every slot
 RF2-expr   all 5,394 expression trees with up to four atoms (every bracketing, && / || at every inner node, a negation flag at
            every node) are built as heap cells as the parser builds them, normalised by dexpr_simplify and evaluated by
            dexpr_matches_p -- src/dexpr.c folded as it stands -- on dates realising all 16 truth combinations of the atoms:
            ordinary Boolean semantics of the tree as written
 RF-rewrite every rewrite of __dnf keeps the Boolean function: the routine is executed symbolically on all 72 trees with a
            conjunction / disjunction root over value, opaque-conjunction and two-leaf-disjunction children (recursive calls
            summarised by their contract: meaning kept, a conjunction may come back as a disjunction), truth tables compared
 RF2-act    parser actions in the generated parser: `!` toggles the negation flag; the scratch atom is cleared as a whole per atom
 RF2-gram   operator precedence lines of the grammar: OR < AND < NOT, %expect 0
 RF2-lex    the date/time token of the scanner neither begins nor ends with a blank (first / last character sets of its pattern)
            and the integer rule precedes it: `04 ` is the integer 04
 RF11-line  dgrep's proc_line writes a matching line (or, with -v, a non-matching one) exactly once, whole, plus newline
"""
import os
import re
from core import (AnalysisBroken, strip, kids, const_of, call_args, expr_text, walk, guards_of, norm_cond, switch_cases,
                  member_path, ceval, NotConst, REPO, CASTS)
import absint
from absint import Interp, State

DEBUG_FUNCS = {"__pr_val", "__pr", "__pr_infix"}


def _tu(P):
    return P.tu("dgrep.c")


def check_kv(P, R):
    rule = "RF1-kv"
    tu = _tu(P)
    n = 0
    for fn in tu.funclist:
        if not fn.file.endswith(("dexpr.c", "dgrep.c")) or fn.name in DEBUG_FUNCS or fn.name.startswith("yy"):
            continue
        for x in fn.walk():
            if x.get("k") != "MemberExpr" or x.get("n") != "kv":
                continue
            rec = fn.tu.recs_by_id.get(x.get("rec"))
            base = expr_text(strip(x["c"][0]))
            n += 1
            R.saw(fn)
            ok = False
            for g in guards_of(fn, x):
                c = strip(g["cond"])
                if "pol" in g:
                    op, a, b = norm_cond(g["cond"], g["pol"])
                    if op == "==" and a in (base + "->type", base + ".type") and b == "DEX_VAL":
                        ok = True
                else:
                    labs = [l.get("en") for l in g["cases"] if l is not None and l.get("k") == "CaseStmt"]
                    if expr_text(c) in (base + "->type", base + ".type") and labs == ["DEX_VAL"]:
                        ok = True
            # writes that establish the tag right there (parser action: `x->type = DEX_VAL; x->kv[0] = ...`)
            site = "%s reads %s->kv" % (fn.name, base)
            if ok:
                R.ob(rule, site, True, sample={"rule": rule, "site": fn.where(x), "guard": "%s->type == DEX_VAL" % base})
            else:
                R.finding(rule, fn, "kv of %s" % base,
                          "the value slot of node `%s` is read without a test that the node is a DEX_VAL on this path; for a "
                          "junction node the bytes are its child pointers" % base, x)
    R.floor(rule, "reads of the kv slot", n, 2)


def check_eval(P, R):
    rule = "RF-eval"
    tu = _tu(P)
    fn = tu.func("dexpr_matches_p")
    if fn is None:
        raise AnalysisBroken("dexpr_matches_p vanished")
    R.saw(fn)
    sws = [s for s in fn.switches() if expr_text(strip(s["c"][0])).endswith("type")]
    if not sws:
        raise AnalysisBroken("%s: dexpr_matches_p does not dispatch on the node type (shape not recognised)" % rule)
    want = {"DEX_CONJ": "&&", "DEX_DISJ": "||"}
    seen = {}
    for g in switch_cases(sws[0]):
        labs = [l["en"] for l in g["labels"]]
        rets = [x for s in g["stmts"] for x in walk(s) if x.get("k") == "ReturnStmt"]
        for lab in labs:
            if lab in want and rets:
                e = strip(kids(rets[0])[0])
                ok = (e is not None and e.get("k") == "BinaryOperator" and e.get("op") == want[lab])
                if ok:
                    sides = []
                    for side in e["c"]:
                        c = strip(side)
                        if c is not None and c.get("k") == "CallExpr" and c.get("callee") in ("dexpr_matches_p",):
                            a0 = strip(call_args(c)[0])
                            sides.append(a0.get("n") if a0 is not None and a0.get("k") == "MemberExpr" else None)
                    ok = sorted(x or "?" for x in sides) == ["left", "right"]
                seen[lab] = ok
                if ok:
                    R.ob(rule, "%s: left %s right" % (lab, want[lab]), True)
                else:
                    R.finding(rule, fn, "case %s" % lab, "a %s node must evaluate to match(left) %s match(right); found `%s`"
                              % (lab, want[lab], expr_text(e)), rets[0])
            if lab == "DEX_VAL" and rets:
                e = strip(kids(rets[0])[0])
                ok = e is not None and e.get("k") == "CallExpr" and e.get("callee") == "dexkv_matches_p"
                seen[lab] = ok
                if ok:
                    R.ob(rule, "DEX_VAL: dexkv_matches_p(kv)", True)
                else:
                    R.finding(rule, fn, "case DEX_VAL", "a value node must be decided by dexkv_matches_p", rets[0])
    for lab in ("DEX_VAL", "DEX_CONJ", "DEX_DISJ"):
        if lab not in seen:
            R.finding(rule, fn, "missing case %s" % lab, "the matcher has no case for %s nodes" % lab)


def check_nega(P, R):
    rule = "RF2-nega"
    tu = _tu(P)
    fn = tu.func("__denega")
    if fn is None:
        raise AnalysisBroken("__denega vanished")
    R.saw(fn)
    # the switch under `if (root->nega)`
    tmap = {}
    for sw in fn.switches():
        gs = [norm_cond(g["cond"], g["pol"]) for g in guards_of(fn, sw) if "pol" in g]
        if not any(op == "!=" and a.endswith("nega") and b == "0" for op, a, b in gs):
            continue
        for g in switch_cases(sw):
            for s in g["stmts"]:
                for x in walk(s):
                    if x.get("k") == "BinaryOperator" and x.get("op") == "=":
                        l = strip(x["c"][0])
                        r = strip(x["c"][1])
                        if l is not None and l.get("k") == "MemberExpr" and l.get("n") == "type" and r is not None and r.get("k") == "DeclRefExpr":
                            for lab in g["labels"]:
                                if lab["en"]:
                                    tmap[lab["en"]] = (r["n"], x)
    want = {"DEX_CONJ": "DEX_DISJ", "DEX_DISJ": "DEX_CONJ"}
    for k, w in want.items():
        if k not in tmap:
            R.finding(rule, fn, "type map of %s" % k, "negating a %s node does not change its type to %s" % (k, w))
        elif tmap[k][0] != w:
            R.finding(rule, fn, "type map of %s" % k, "De Morgan: a negated %s must become %s, it becomes %s" % (k, w, tmap[k][0]), tmap[k][1])
        else:
            R.ob(rule, "!%s -> %s" % (k, w), True)
    # children's flags are toggled
    ntog = 0
    for x in fn.walk():
        if x.get("k") == "BinaryOperator" and x.get("op") == "=":
            l = strip(x["c"][0])
            if l is None or l.get("k") != "MemberExpr" or l.get("n") != "nega" or l.get("bw") != 1:
                continue
            base = strip(l["c"][0])
            if base is None or base.get("k") != "DeclRefExpr" or base["n"] not in ("left", "right"):
                continue
            ntog += 1
            vals = {}
            try:
                for v in (0, 1):
                    # fold the right-hand side with the field's current value substituted
                    vals[v] = _fold_with_member(x["c"][1], l, v, tu.types) & 1
            except NotConst as e:
                raise AnalysisBroken("%s: cannot fold `%s`: %s" % (rule, expr_text(x), e))
            if vals == {0: 1, 1: 0}:
                R.ob(rule, "%s->nega toggled" % base["n"], True)
            else:
                R.finding(rule, fn, "%s->nega update" % base["n"], "pushing a negation down must toggle the child's flag (0->1, 1->0: a "
                          "double negation cancels); `%s` maps %s" % (expr_text(x), vals), x)
    R.floor(rule, "child flag updates in __denega", ntog, 2)
    # the node's own flag is cleared
    cleared = any(x.get("k") == "BinaryOperator" and x.get("op") == "=" and expr_text(strip(x["c"][0])) == "root->nega" and const_of(x["c"][1]) == 0
                  for x in fn.walk())
    if cleared:
        R.ob(rule, "root->nega cleared after push-down", True)
    else:
        R.finding(rule, fn, "root->nega", "the node's own negation flag must be cleared once it is pushed down")


def _fold_with_member(expr, member, value, types):
    mt = expr_text(member)
    cache = []
    for y in walk(expr):
        if y.get("k") == "MemberExpr" and expr_text(y) == mt:
            cache.append((y, dict(y)))
            y.clear()
            y.update({"k": "IntegerLiteral", "v": value, "t": cache[-1][1].get("t")})
    try:
        return ceval(expr, {}, types)
    finally:
        for y, saved in cache:
            y.clear()
            y.update(saved)


def check_ops(P, R):
    rule = "RF2-ops"
    tu = _tu(P)
    fn = tu.func("dexkv_matches_p")
    if fn is None:
        raise AnalysisBroken("dexkv_matches_p vanished")
    R.saw(fn)
    ops = {n: v for e in tu.enums for n, v in e["items"] if n.startswith("OP_")}
    sem = {"OP_EQ": {0}, "OP_NE": {-1, 1}, "OP_LT": {-1}, "OP_LE": {-1, 0}, "OP_GT": {1}, "OP_GE": {0, 1}, "OP_TRUE": {-1, 0, 1}}
    tables = []
    for sw in fn.switches():
        if not expr_text(strip(sw["c"][0])).endswith("op"):
            continue
        tab = {}
        for g in switch_cases(sw):
            asg = [x for s in g["stmts"] for x in walk(s) if x.get("k") == "BinaryOperator" and x.get("op") == "="]
            if len(asg) != 1:
                continue
            rhs = asg[0]["c"][1]
            acc = set()
            for cv in (-1, 0, 1):
                try:
                    # `cmp` is the comparison result resp. the line's field value; the expression's value is folded as 0
                    v = _fold_cmp(rhs, cv, tu.types)
                except NotConst as e:
                    raise AnalysisBroken("%s: cannot fold `%s`: %s" % (rule, expr_text(asg[0]), e))
                if v:
                    acc.add(cv)
            for lab in g["labels"]:
                if lab["en"] and lab["en"] != "default":
                    tab[lab["en"]] = acc
        tables.append((sw, tab))
    if len(tables) != 2:
        raise AnalysisBroken("%s: expected two operator switches in dexkv_matches_p, found %d" % (rule, len(tables)))
    for which, (sw, tab) in zip(("whole date", "specifier"), tables):
        for op, want in sem.items():
            if op not in tab:
                R.finding(rule, fn, "%s switch lacks %s" % (which, op), "operator %s is not handled for %s comparisons" % (op, which), sw)
            elif tab[op] != want:
                R.finding(rule, fn, "%s %s" % (which, op),
                          "%s comparison with %s accepts (line value - expression value) signs %s, expected %s: operand roles or "
                          "operator are wrong" % (which, op, sorted(tab[op]), sorted(want)), sw)
            else:
                R.ob(rule, "%s: %s accepts %s" % (which, op, sorted(want)), True,
                     sample={"rule": rule, "switch": which, "op": op, "accepts sign(line - expr)": sorted(want)})
    # negation of operators: interpret __nega_kv with the op cell set to each parser-producible value
    nk = tu.func("__nega_kv")
    if nk is None:
        raise AnalysisBroken("__nega_kv vanished")
    R.saw(nk)
    rec = tu.record("dexkv_s")
    cell = None
    for p, off, w, sg in tu.flatten_record(rec):
        if p == "op":
            cell = (off, w)
    if cell is None:
        raise AnalysisBroken("dexkv_s.op vanished")
    std = tables[0][1]
    kvp = nk.params[0]
    byval = {v: n for n, v in ops.items() if n != "OP_FALSE"}
    for opname in ("OP_UNK", "OP_EQ", "OP_NE", "OP_LT", "OP_LE", "OP_GT", "OP_GE"):
        I = Interp(P)
        I.track_types = ("dexkv_s",)
        st = State()
        st.set((kvp["d"], cell[0], cell[1]), ops[opname])
        exits = I.run(nk, st)
        outs = {e.get((kvp["d"], cell[0], cell[1])) for e in exits}
        if len(outs) != 1 or not isinstance(next(iter(outs)), int):
            raise AnalysisBroken("%s: cannot determine __nega_kv(%s): %s" % (rule, opname, outs))
        res = next(iter(outs)) & ((1 << cell[1]) - 1)
        rname = byval.get(res, str(res))
        before = std.get(opname, set())
        after = std.get(rname)
        if after is None:
            R.finding(rule, nk, "negation of %s" % opname, "!%s yields operator value %d which the matcher does not know" % (opname, res))
        elif after == {-1, 0, 1} - before:
            R.ob(rule, "!%s = %s" % (opname, rname), True, sample={"rule": rule, "negation": "%s -> %s" % (opname, rname)})
        else:
            R.finding(rule, nk, "negation of %s" % opname,
                      "!%s becomes %s: it accepts %s but the complement of %s is %s"
                      % (opname, rname, sorted(after), sorted(before), sorted({-1, 0, 1} - before)))


def _fold_cmp(rhs, cv, types):
    """fold `cmp OP 0`, `cmp OP dkv->s` (s := 0) with cmp := cv"""
    subs = []
    for y in walk(rhs):
        if y.get("k") == "DeclRefExpr" and y.get("n") == "cmp":
            subs.append((y, dict(y), cv))
        elif y.get("k") == "MemberExpr" and y.get("n") == "s":
            subs.append((y, dict(y), 0))
    for y, saved, v in subs:
        y.clear()
        y.update({"k": "IntegerLiteral", "v": v, "t": saved.get("t")})
    try:
        return ceval(rhs, {}, types)
    finally:
        for y, saved, v in subs:
            y.clear()
            y.update(saved)


# --------------------------------------------------------------------------- ownership (symbolic heap)
class Heap:
    def __init__(self):
        self.slots = {}     # (node, field) -> node
        self.fresh = 0
        self.vars = {}

    def new(self, tag):
        self.fresh += 1
        return "%s#%d" % (tag, self.fresh)

    def get(self, node, field):
        k = (node, field)
        if k not in self.slots:
            self.slots[k] = self.new("init")
        return self.slots[k]

    def copy(self):
        h = Heap()
        h.slots = dict(self.slots)
        h.fresh = self.fresh
        h.vars = dict(self.vars)
        return h


def _eval_ptr(fn, e, h, aliasing):
    e = strip(e)
    if e is None:
        return None
    k = e.get("k")
    if k == "DeclRefExpr":
        return h.vars.get(e["d"], "var:" + e["n"]) if e.get("dk") != "parm" else h.vars.setdefault(e["d"], "P:" + e["n"])
    if k == "MemberExpr" and e.get("n") in ("left", "right"):
        b = _eval_ptr(fn, _skip_anon(e["c"][0]), h, aliasing)
        return h.get(b, e["n"]) if b is not None else None
    if k == "CallExpr":
        c = e.get("callee")
        if c in aliasing:
            return _eval_ptr(fn, call_args(e)[0], h, aliasing)
        if c in ("make_dexpr", "dexpr_copy", "dexpr_copy_j", "calloc", "malloc"):
            return h.new("new")
        return h.new("call")
    if k == "BinaryOperator" and e.get("op") == "=":
        v = _eval_ptr(fn, e["c"][1], h, aliasing)
        _assign(fn, e["c"][0], v, h, aliasing)
        return v
    if "v" in e and e["v"] == 0:
        return None
    return None


def _skip_anon(e):
    """`x->right` goes through the anonymous union/struct members of struct dexpr_s"""
    e = strip(e)
    while e is not None and e.get("k") == "MemberExpr" and not e.get("n"):
        e = strip(e["c"][0])
    return e


def _assign(fn, lhs, v, h, aliasing):
    l = strip(lhs)
    if l is None:
        return
    if l.get("k") == "DeclRefExpr":
        h.vars[l["d"]] = v
    elif l.get("k") == "MemberExpr" and l.get("n") in ("left", "right"):
        b = _eval_ptr(fn, _skip_anon(l["c"][0]), h, aliasing)
        if b is not None:
            h.slots[(b, l["n"])] = v


def _exec(fn, stmts, heaps, aliasing):
    """symbolically execute a list of statements on each heap; `if` forks; returns the list of resulting heaps"""
    for s in stmts:
        k = s.get("k")
        nxt = []
        for h in heaps:
            if k == "CompoundStmt":
                nxt += _exec(fn, kids(s), [h], aliasing)
            elif k == "DeclStmt":
                for v in kids(s):
                    if v.get("k") == "Var" and kids(v) and fn.tu.types[v["t"]].get("ptr"):
                        h.vars[v["d"]] = _eval_ptr(fn, kids(v)[0], h, aliasing)
                nxt.append(h)
            elif k == "BinaryOperator" and s.get("op") == "=":
                lt = fn.tu.types[s["t"]] if s.get("t") is not None else {}
                if lt.get("ptr"):
                    _eval_ptr(fn, s, h, aliasing)
                nxt.append(h)
            elif k == "IfStmt":
                # evaluate pointer assignments inside the condition, then fork
                for y in walk(s["c"][0]):
                    if y.get("k") == "BinaryOperator" and y.get("op") == "=" and fn.tu.types[y["t"]].get("ptr"):
                        _eval_ptr(fn, y, h, aliasing)
                h2 = h.copy()
                a = _exec(fn, [s["c"][1]], [h], aliasing)
                b = _exec(fn, [s["c"][2]], [h2], aliasing) if len(s["c"]) > 2 and s["c"][2] is not None else [h2]
                nxt += a + b
            else:
                nxt.append(h)
        heaps = nxt
    return heaps


def _reach_dups(h, root):
    seen, dups = {}, []
    st = [(root, "root")]
    while st:
        n, via = st.pop()
        if n is None:
            continue
        if n in seen:
            dups.append((n, seen[n], via))
            continue
        seen[n] = via
        for f in ("left", "right"):
            if (n, f) in h.slots:
                st.append((h.slots[(n, f)], "%s->%s" % (via, f)))
    return dups


def check_ownership(P, R):
    rule = "RF6-own"
    tu = _tu(P)
    fn = tu.func("__dnf")
    if fn is None:
        raise AnalysisBroken("__dnf vanished")
    R.saw(fn)
    # which helpers may return their argument (alias)?
    aliasing = set()
    for name in ("dexpr_copy_j", "dexpr_copy"):
        f = tu.func(name)
        if f is None:
            continue
        pd = {p["d"] for p in f.params}
        for r in f.walk():
            if r.get("k") == "ReturnStmt" and kids(r):
                v = strip(kids(r)[0])
                if v is not None and v.get("k") == "DeclRefExpr" and v.get("d") in pd:
                    aliasing.add(name)
    # rewrite blocks: compound statements of if-branches that assign child slots
    blocks = []
    for x in fn.walk():
        if x.get("k") == "IfStmt":
            for br in (x["c"][1], x["c"][2] if len(x["c"]) > 2 else None):
                if br is not None and br.get("k") == "CompoundStmt":
                    direct = [y for y in kids(br)]
                    if any(z.get("k") == "BinaryOperator" and z.get("op") == "=" and strip(z["c"][0]).get("k") == "MemberExpr" and
                           strip(z["c"][0]).get("n") in ("left", "right") for z in direct):
                        blocks.append(br)
    # a block nested in another rewrite block is part of that rewrite (its intermediate states are not final)
    blocks = [b for b in blocks if not any(o is not b and any(y is b for y in walk(o)) for o in blocks)]
    R.floor(rule, "rewrite blocks in __dnf", len(blocks), 4)
    rootp = fn.params[0]
    for bi, br in enumerate(blocks):
        h = Heap()
        h.vars[rootp["d"]] = "ROOT"
        # materialise the initial tree two levels deep so that initial children are distinct nodes
        for f1 in ("left", "right"):
            n1 = h.get("ROOT", f1)
            for f2 in ("left", "right"):
                h.get(n1, f2)
        heaps = _exec(fn, kids(br), [h], aliasing)
        bad = []
        for hh in heaps:
            bad += _reach_dups(hh, "ROOT")
        first = kids(br)[0]
        site = "rewrite block #%d (line-independent: %s)" % (bi + 1, _block_desc(br))
        if bad:
            n, via1, via2 = bad[0]
            R.finding(rule, fn, "sharing in %s" % _block_desc(br),
                      "after this rewrite the same node is reachable as %s and as %s; free_dexpr() releases every slot, so it is "
                      "freed twice (and evaluated as two different operands)" % (via1, via2), first)
        else:
            R.ob(rule, "%s: tree stays a tree on %d path(s)" % (site, len(heaps)), True,
                 sample={"rule": rule, "block": _block_desc(br), "paths": len(heaps)})
    # the release routine frees both slots of junctions
    fr = tu.func("free_dexpr")
    if fr is None:
        raise AnalysisBroken("free_dexpr vanished")
    freed = sorted({strip(call_args(c)[0]).get("n") for c in fr.calls("free") if strip(call_args(c)[0]).get("k") == "MemberExpr"})
    if freed == ["left", "right"]:
        R.ob(rule, "free_dexpr releases left and right", True)
    else:
        R.finding(rule, fr, "release", "free_dexpr must release both child slots; it frees %s" % freed)


def _block_desc(br):
    asg = []
    for z in kids(br):
        if z.get("k") == "BinaryOperator" and z.get("op") == "=":
            asg.append(expr_text(strip(z["c"][0])))
    return ",".join(asg[:3])


def check_grammar(P, R):
    rule = "RF2-gram"
    path = os.path.join(REPO, "src", "dexpr-parser.y")
    txt = open(path).read()
    prec = re.findall(r"^%(left|right|nonassoc)\s+(\w+)", txt, re.M)
    want = [("left", "TOK_OR"), ("left", "TOK_AND"), ("left", "TOK_NOT")]
    if prec == want:
        R.ob(rule, "precedence OR < AND < NOT, all left associative", True)
    else:
        R.finding(rule, None, "precedence lines", "precedence declarations must be %s in this order; found %s" % (want, prec),
                  file="src/dexpr-parser.y", line=1)
    if re.search(r"^%expect\s+0\s*$", txt, re.M):
        R.ob(rule, "%expect 0", True)
    else:
        R.finding(rule, None, "%expect", "the grammar must declare %expect 0 (no tolerated conflicts)", file="src/dexpr-parser.y", line=1)
    # the operator tokens set the matching OP_ constant
    acts = dict(re.findall(r"spec\s+(TOK_\w+)\s*\{\s*ckv->op\s*=\s*(OP_\w+);", txt))
    want_a = {"TOK_LT": "OP_LT", "TOK_GT": "OP_GT", "TOK_LE": "OP_LE", "TOK_GE": "OP_GE", "TOK_EQ": "OP_EQ", "TOK_NE": "OP_NE"}
    if acts == want_a:
        R.ob(rule, "operator tokens map to their OP_ constants", True)
    else:
        R.finding(rule, None, "token actions", "token -> operator actions are %s, expected %s" % (acts, want_a), file="src/dexpr-parser.y", line=1)
    # scanner: operator spellings
    lpath = os.path.join(REPO, "src", "dexpr-scanner.l")
    ltxt = open(lpath).read()
    spell = {}
    for m in re.finditer(r'^"([^"]+)"\s*\{[^}]*?return\s+(TOK_\w+);', ltxt, re.M | re.S):
        spell[m.group(1)] = m.group(2)
    want_s = {"<": "TOK_LT", ">": "TOK_GT", "<=": "TOK_LE", ">=": "TOK_GE", "!=": "TOK_NE", "&&": "TOK_AND", "||": "TOK_OR", "!": "TOK_NOT"}
    bad = {k: (spell.get(k), v) for k, v in want_s.items() if k in spell and spell[k] != v}
    if bad:
        R.finding(rule, None, "scanner spellings", "operator spellings map to the wrong tokens: %s" % bad, file="src/dexpr-scanner.l", line=1)
    elif spell:
        R.ob(rule, "scanner spellings %d" % len(spell), True)


def _re_ends(pattern):
    """(can be empty, set of members of {' ', '\t'} a match can start with, ... end with) for a flex pattern without definitions"""
    try:
        import re._parser as sre_parse
    except ImportError:
        import sre_parse
    tree = sre_parse.parse(pattern)

    def cls_has(items, ch):
        neg = False
        hit = False
        for op, av in items:
            op = str(op)
            if op == "NEGATE":
                neg = True
            elif op == "LITERAL":
                hit = hit or av == ord(ch)
            elif op == "RANGE":
                hit = hit or av[0] <= ord(ch) <= av[1]
            elif op == "CATEGORY":
                hit = hit or ("SPACE" in str(av) and "NOT" not in str(av))
        return hit != neg

    def ana(seq):
        """-> (nullable, firsts, lasts) over the two blank characters"""
        items = []
        for op, av in seq:
            op = str(op)
            if op == "LITERAL":
                st = {c for c in " \t" if av == ord(c)}
                items.append((False, st, st))
            elif op == "NOT_LITERAL":
                st = {c for c in " \t" if av != ord(c)}
                items.append((False, st, st))
            elif op == "ANY":
                items.append((False, {" ", "\t"}, {" ", "\t"}))
            elif op == "IN":
                st = {c for c in " \t" if cls_has(av, c)}
                items.append((False, st, st))
            elif op in ("MAX_REPEAT", "MIN_REPEAT"):
                lo, hi, sub = av
                n, f, l = ana(sub)
                items.append((n or lo == 0, f, l))
            elif op == "SUBPATTERN":
                items.append(ana(av[-1]))
            elif op == "BRANCH":
                parts = [ana(b) for b in av[1]]
                items.append((any(p_[0] for p_ in parts), set().union(*[p_[1] for p_ in parts]), set().union(*[p_[2] for p_ in parts])))
            else:
                raise AnalysisBroken("RF2-lex: regular expression operator %s not understood" % op)
        nullable = all(i[0] for i in items)
        firsts, lasts = set(), set()
        for i in items:
            firsts |= i[1]
            if not i[0]:
                break
        for i in reversed(items):
            lasts |= i[2]
            if not i[0]:
                break
        return nullable, firsts, lasts
    return ana(tree)


def check_lexer(P, R):
    """RF2-lex: a value token of the expression language never begins or ends with a blank.  The date/time token may contain
    blanks (`2012-01-01 12:00:00`), and flex takes the longest match: if the token could also *end* in a blank, `04 ` in
    `%d>=04 && ...` would be a date/time (3 characters) rather than the integer 04 (2 characters), and the atom would lose its
    specifier.  Decided on the pattern itself: first / last character sets of the regular expression."""
    rule = "RF2-lex"
    ltxt = open(os.path.join(REPO, "src", "dexpr-scanner.l")).read()
    body = ltxt.split("%%")
    if len(body) < 3:
        raise AnalysisBroken("%s: rule section of dexpr-scanner.l not found" % rule)
    rules = body[1]
    m = re.search(r"^(\S[^\n]*?)\t\{[^}]*?RETURN_TOKEN\(TOK_DATETIME\)", rules, re.M | re.S)
    if not m:
        raise AnalysisBroken("%s: the rule returning TOK_DATETIME was not found" % rule)
    pat = m.group(1).strip()
    nullable, firsts, lasts = _re_ends(pat)
    if nullable:
        R.finding(rule, None, "date/time token", "the date/time pattern `%s` matches the empty string" % pat, file="src/dexpr-scanner.l", line=1)
    if not firsts and not lasts:
        R.ob(rule, "the date/time token `%s` neither begins nor ends with a blank" % pat, True)
    else:
        R.finding(rule, None, "date/time token ends in a blank" if lasts else "date/time token begins with a blank",
                  "the date/time pattern `%s` can %s with a blank; flex prefers the longest match, so a number followed by a blank is lexed "
                  "as a date/time instead of an integer: `dgrep '%%d>=04 && %%d>25'` matches nothing" % (pat, "end" if lasts else "begin"),
                  file="src/dexpr-scanner.l", line=1)
    # digits alone are an integer: the integer rule comes first (ties go to the earlier rule)
    pi, pd = rules.find("RETURN_TOKEN(TOK_INT)"), rules.find("RETURN_TOKEN(TOK_DATETIME)")
    if 0 <= pi < pd:
        R.ob(rule, "the integer rule precedes the date/time rule", True)
    else:
        R.finding(rule, None, "rule order", "the integer rule must precede the date/time rule (equal-length matches go to the earlier rule)",
                  file="src/dexpr-scanner.l", line=1)


def check_actions(P, R):
    """parser actions, read from the generated parser as compiled into dgrep: `!` toggles the node's negation flag (so that a
    double negation cancels), and the static scratch atom is cleared as a whole before every atom (the bare-value production
    assigns no operator and relies on it)"""
    rule = "RF2-act"
    tu = P.tu("dgrep-dgrep.o")
    fn = tu.func("yyparse")
    if fn is None:
        raise AnalysisBroken("%s: yyparse not found in the dgrep unit" % rule)
    R.saw(fn)
    n = 0
    for x in fn.walk():
        tgt = None
        if x.get("k") in ("BinaryOperator", "CompoundAssignOperator") and x.get("op", "").endswith("=") and x.get("op") not in ("==", "!=", "<=", ">="):
            l = strip(x["c"][0])
            if l is not None and l.get("k") == "MemberExpr" and l.get("n") == "nega":
                tgt = x
        if tgt is None:
            continue
        n += 1
        r = strip(tgt["c"][1])
        toggle = False
        if tgt["k"] == "CompoundAssignOperator" and tgt["op"] == "^=" and const_of(r) == 1:
            toggle = True
        if tgt["k"] == "BinaryOperator" and r is not None and r.get("k") == "UnaryOperator" and r.get("op") == "!" and \
                any(y.get("k") == "MemberExpr" and y.get("n") == "nega" for y in walk(r)):
            toggle = True
        if toggle:
            R.ob(rule, "the `!` action toggles the negation flag", True)
        else:
            R.finding(rule, fn, "negation action", "the parser action for `!` stores %s into the negation flag instead of toggling it: "
                      "`!!x` selects the lines that do not match x" % expr_text(r), tgt)
    if n == 0:
        raise AnalysisBroken("%s: the action that sets the negation flag was not found in yyparse" % rule)
    # scratch atom reset
    ckv = None
    resets = []
    for c in fn.calls("memset"):
        a = call_args(c)
        d0 = strip(a[0])
        resets.append((c, d0, a))
    okr = False
    bad = None
    for c, d0, a in resets:
        if d0 is not None and d0.get("k") == "DeclRefExpr" and const_of(a[1]) == 0:
            # whole object: size equals the size of what the pointer points to
            t = tu.types[d0["t"]]
            base = re.sub(r"\[[^\]]*\]", "", t.get("c", "")).replace("*", "").replace("struct ", "").replace("const ", "").strip()
            rec = tu.record(base)
            if rec is not None and const_of(a[2]) == rec["size"]:
                okr = True
            else:
                bad = c
        elif d0 is not None and d0.get("k") == "UnaryOperator" and d0.get("op") == "&":
            bad = c
    if okr and bad is None:
        R.ob(rule, "the scratch atom is cleared as a whole before each atom", True)
    else:
        R.finding(rule, fn, "scratch reset", "the static scratch atom of the parser is not cleared as a whole before every atom: a bare "
                  "value (no operator of its own) inherits the operator of the atom parsed before it", bad)


def check_proc_line(P, R):
    rule = "RF11-line"
    tu = _tu(P)
    fn = tu.func("proc_line")
    if fn is None:
        raise AnalysisBroken("dgrep proc_line vanished")
    R.saw(fn)
    cfg = fn.cfg
    writes = [c for c in fn.calls("__io_write")]
    if len(writes) != 2:
        raise AnalysisBroken("%s: expected two write sites in proc_line, found %d" % (rule, len(writes)))
    wb = [cfg.stmt_block(w["i"])[0] for w in writes]
    # no path executes both writes / one write twice: after a write the function must return without another write
    for i, b in enumerate(wb):
        reach = cfg.reachable_from(b) - {b}
        again = [x for x in wb if x in reach]
        if again or b in set().union(*[cfg.reachable_from(s) for s in cfg.succs[b]]):
            R.finding(rule, fn, "write #%d repeated" % (i + 1), "a line can be written more than once on a path", writes[i])
        else:
            R.ob(rule, "write #%d is final on its path" % (i + 1), True)
    # guards of the two writes
    g0 = {norm_cond(g["cond"], g["pol"]) for g in guards_of(fn, writes[0]) if "pol" in g}
    g1 = {norm_cond(g["cond"], g["pol"]) for g in guards_of(fn, writes[1]) if "pol" in g}
    ok0 = any(a.startswith("dexpr_matches_p(") and op == "!=" for op, a, b in g0) and ("==", "ctx.invert_match_p", "0") in g0
    ok1 = ("!=", "ctx.invert_match_p", "0") in g1
    if ok0:
        R.ob(rule, "match path: written iff matched and not -v", True)
    else:
        R.finding(rule, fn, "match write guard", "the matching line must be written under `matches && !invert`; guards: %s" % sorted(g0), writes[0])
    if ok1:
        R.ob(rule, "-v path: written iff no date matched and -v", True)
    else:
        R.finding(rule, fn, "invert write guard", "with -v a line is written only after no date matched; guards: %s" % sorted(g1), writes[1])
    # what is written: [sp, ep) with a newline stored at *ep++ first; without -o the whole line
    for i, w in enumerate(writes):
        a = [expr_text(strip(x)) for x in call_args(w)]
        m = re.match(r"\((\w+) - (\w+)\)$", a[1])
        if m and m.group(2) == a[0]:
            R.ob(rule, "write #%d emits [%s, %s)" % (i + 1, a[0], m.group(1)), True)
        else:
            R.finding(rule, fn, "write #%d extent" % (i + 1), "the write must emit start..end of one range; found __io_write(%s, %s)" % (a[0], a[1]), w)
    whole = 0
    for x in fn.walk():
        if x.get("k") == "BinaryOperator" and x.get("op") == "=" and expr_text(strip(x["c"][1])) == "(line + llen)":
            whole += 1
    if whole >= 2:
        R.ob(rule, "whole-line extent line..line+llen on both paths", True)
    else:
        R.finding(rule, fn, "whole-line extent", "without --only-matching the range must be line .. line + llen on both paths")
    nl = [x for x in fn.walk() if x.get("k") == "BinaryOperator" and x.get("op") == "=" and const_of(x["c"][1]) == 10]
    if len(nl) >= 2:
        R.ob(rule, "newline restored before each write", True)
    else:
        R.finding(rule, fn, "newline", "the terminating newline (overwritten by the reader) must be stored back before writing")


def check_rewrites(P, R):
    """RF-rewrite (rules/dnfsym.py): symbolic execution of __dnf on all 72 small tree shapes; the Boolean function at every exit
    equals the function at the entry"""
    import dnfsym
    rule = "RF-rewrite"
    tu = _tu(P)
    fn = tu.func("__dnf")
    if fn is None:
        raise AnalysisBroken("__dnf vanished")
    E = {k: tu.enum_value(k) for k in ("DEX_UNK", "DEX_VAL", "DEX_CONJ", "DEX_DISJ")}
    if None in E.values():
        raise AnalysisBroken("%s: node type enumerators not found" % rule)
    try:
        res = dnfsym.run(fn, E)
    except dnfsym.Undecided as e:
        raise AnalysisBroken("%s: __dnf left the fragment the symbolic execution understands (%s)" % (rule, e))
    worlds = 0
    for desc, problem, n in res:
        worlds += n
        if n == 0:
            raise AnalysisBroken("%s: no exit reached for the shape `%s`" % (rule, desc))
        if problem is None:
            R.ob(rule, "shape `%s`: the Boolean function is kept on %d path(s)" % (desc, n), True)
        else:
            R.finding(rule, fn, "shape `%s`" % desc, "normalising an expression of the shape `%s` (x&y: a conjunction that its own "
                      "normalisation may turn into a disjunction x.1|x.2) changes what it means: %s" % (desc, problem))
    R.floor(rule, "tree shapes of the normaliser", len(res), 72)


def check(P, R, tier):
    import exprdecode
    nx = exprdecode.run_parallel(R, P, "RF2-expr", maxatoms=4, jobs=14)
    R.floor("RF2-expr", "decoded (expression tree, date) points", nx, 80000)
    check_rewrites(P, R)
    check_kv(P, R)
    check_eval(P, R)
    check_nega(P, R)
    check_ops(P, R)
    check_ownership(P, R)
    check_grammar(P, R)
    check_lexer(P, R)
    check_actions(P, R)
    check_proc_line(P, R)


LEVEL = ("The expression is a program; its interpreter is decided structurally for all expression trees: typestate of the "
         "node union (value slot read only under a DEX_VAL test), Boolean structure of the evaluator, the negation push-down "
         "as tables (type involution, flag toggle folded over {0,1}, operator complement obtained by abstract "
         "interpretation of __nega_kv and constant folding of the matcher's cases over sign in {-1,0,1}), ownership of heap "
         "nodes in each DNF rewrite by symbolic execution of the pointer assignments, preservation of the Boolean function by "
         "every rewrite (symbolic execution of the normaliser on 72 tree shapes with truth-table comparison), grammar precedence, and the "
         "write-once discipline of dgrep's line output (CFG).")
RULE = ("obligation = one kv read, one evaluator case, one negation table row, one operator x switch cell, one rewrite block "
        "x path, one grammar fact, one write site")
ASSUME = ["bison/flex implement the declared precedences", "dt_dtcmp/dt_dcmp/dt_tcmp are the order (C08)",
          "nodes are only created by the parser actions, make_dexpr and dexpr_copy"]
