"""Linear-form abstract interpretation over a clang CFG.

Domain: every integer / pointer variable (and record member reached through a variable) is either unknown or an exact
linear form  c0 + sum(ci * si)  over named symbols with integer coefficients.  Symbols stand for values the analysis does
not interpret further:
    ("base", site)        address of an object created at `site` (mmap / malloc result)
    ("rd", n, addr)       the n bytes of the immutable file image at address form `addr` (a frozen linear form)
    ("u", key, site)      value of `key` after an assignment the domain cannot express, made at node `site`
    ("phi", key, block)   value of `key` on entry to `block` where incoming values differ (loop-variant values)
Besides the environment a state carries a set of facts, each a linear form known to be >= 0; they come from the branch
conditions passed.  States are partitioned by the constant value of the function's switch operands (trace partitioning).

phi / u symbols are re-defined each time control passes their defining point: facts that mention them are dropped from
a state at that moment, so a fact about "i in this iteration" never leaks into the next one.

The client asks prove(form >= 0) in the state before a node.  The prover looks for a non-negative integer combination of
at most DEPTH facts that leaves a form all of whose coefficients are non-negative over symbols known to be non-negative
(values of unsigned type): a sound, incomplete, purely syntactic test (no solver).
"""
from core import (AnalysisBroken, strip, kids, const_of, call_args, member_path, CASTS, effective_cond, expr_text)

ONE = 1


def lf_const(c):
    return {ONE: c} if c else {}


def lf_add(a, b, k=1):
    out = dict(a)
    for s, v in b.items():
        nv = out.get(s, 0) + k * v
        if nv:
            out[s] = nv
        else:
            out.pop(s, None)
    return out


def lf_scale(a, k):
    return {s: v * k for s, v in a.items() if v * k}


def freeze(a):
    return tuple(sorted(a.items(), key=repr))


def thaw(f):
    return dict(f)


def mentions(obj, sym):
    return repr(sym) in repr(obj)


def lf_text(a, names=None):
    def sname(s):
        if s == ONE:
            return ""
        if s[0] == "base":
            return "&" + str(s[1])
        if s[0] == "rd":
            return "file%d[%s]" % (s[1], lf_text(thaw(s[2]), names))
        if s[0] in ("u", "phi"):
            k = s[1]
            if isinstance(k, tuple) and k and k[0] == "size":
                return "sizeof(%s)" % sname(k[1])
            nm = names.get(k[0] if isinstance(k, tuple) else k, "?") if names else str(k)
            if isinstance(k, tuple):
                nm += "." + str(k[1])
            return nm + ("'" if s[0] == "phi" else "")
        return str(s)
    parts = []
    for s, v in sorted(a.items(), key=repr):
        if s == ONE:
            parts.append("%+d" % v)
        else:
            parts.append(("%+d*" % v if v not in (1, -1) else ("+" if v > 0 else "-")) + sname(s))
    return " ".join(parts) or "0"


class State:
    __slots__ = ("env", "facts")

    def __init__(self, env=None, facts=None):
        self.env = dict(env or {})
        self.facts = set(facts or ())

    def copy(self):
        return State(self.env, self.facts)

    def drop_symbol(self, sym):
        for f in [f for f in self.facts if mentions(f, sym)]:
            self.facts.discard(f)
        for k in [k for k, v in self.env.items() if v is not None and mentions(freeze(v), sym)]:
            del self.env[k]


class LinForms:
    DEPTH = 4

    def __init__(self, fn, readers=None, allocators=None):
        self.fn = fn
        self.tu = fn.tu
        self.readers = readers or {}            # callee -> (param index, bytes read)
        self.allocators = allocators or {}      # callee -> index of its size argument
        self.objkind = {}                       # base symbol -> kind given by the allocator table; sizes live in the state
        self.instate = {}
        self.discriminators = []
        self.names = {}
        for x in fn.walk():
            if x.get("k") == "Var":
                self.names[x["d"]] = x.get("n")
        for p in fn.params:
            self.names[p["d"]] = p["n"]
        self._nolb = set()

    # ---- keys and types
    def key_of(self, n):
        n = strip(n)
        while n is not None and n.get("k") in CASTS and n.get("c"):
            n = strip(n["c"][0])
        if n is None:
            return None
        if n.get("k") == "DeclRefExpr" and n.get("dk") in ("var", "parm"):
            t = self.tu.types[n["t"]]
            if t.get("int") or t.get("ptr"):
                return n["d"]
            return None
        if n.get("k") == "MemberExpr":
            t = self.tu.types[n["t"]]
            if not (t.get("int") or t.get("ptr")):
                return None
            base, path = member_path(n)
            if base is not None and base.get("k") == "DeclRefExpr" and base.get("dk") in ("var", "parm") and path and "[]" not in path:
                return (base["d"], ".".join(path))
        return None

    def key_unsigned(self, key, node=None):
        if node is not None and node.get("t") is not None:
            t = self.tu.types[node["t"]]
            return bool(t.get("int")) and not t.get("sg")
        return False

    def elem_size(self, ptr_node):
        """size in bytes of what a pointer-typed expression points to"""
        t = self.tu.types[ptr_node["t"]]
        s = t.get("c", "")
        if (t.get("arr") is not None or s.endswith("[]")) and "[" in s:
            base = s[:s.index("[")].strip()
        elif s.endswith("*"):
            base = s[:-1].strip()
        else:
            return None
        for q in ("const ", "volatile ", "restrict "):
            base = base.replace(q, "")
        base = base.replace(" const", "").replace(" restrict", "").strip()
        prim = {"char": 1, "unsigned char": 1, "signed char": 1, "short": 2, "unsigned short": 2, "int": 4, "unsigned int": 4,
                "long": 8, "unsigned long": 8, "long long": 8, "unsigned long long": 8, "void": 1}
        if base in prim:
            return prim[base]
        if base.endswith("*"):
            return 8
        for tt in self.tu.types:
            if tt.get("c") == base and tt.get("w"):
                return tt["w"] // 8
        return None

    # ---- expression -> linear form (None = unknown)
    def lin(self, n, st):
        n = strip(n)
        if n is None:
            return None
        k = n.get("k")
        if k in CASTS:
            inner = self.lin(n["c"][0], st)
            if inner is None:
                return None
            if n.get("ck") == "IntegralCast":
                t = self.tu.types[n["t"]]
                src = strip(n["c"][0])
                ts = self.tu.types[src["t"]] if src is not None and src.get("t") is not None else {}
                # narrowing or sign-changing conversions of non-constants are not value preserving
                if t.get("int") and ts.get("int") and set(inner) - {ONE}:
                    if (t.get("w") or 0) < (ts.get("w") or 0):
                        return None
            return inner
        c = const_of(n)
        if c is not None and k != "DeclRefExpr":
            return lf_const(c)
        if k == "ConditionalOperator" and len(n.get("c", [])) == 3:
            # decided when the condition is a constant in this state (the version byte inside its partition, say)
            cv = self.lin(n["c"][0], st)
            if cv is not None and not (set(cv) - {ONE}):
                return self.lin(n["c"][1] if cv.get(ONE, 0) != 0 else n["c"][2], st)
            a_, b_ = self.lin(n["c"][1], st), self.lin(n["c"][2], st)
            return a_ if a_ is not None and a_ == b_ else None
        if k == "DeclRefExpr" and (n.get("dk") == "enum" or ("v" in n and n.get("dk") not in ("var", "parm"))):
            return lf_const(n["v"])
        key = self.key_of(n)
        if key is not None:
            v = st.env.get(key)
            return dict(v) if v is not None else None
        if k == "MemberExpr":
            # address of an array member (decays): base address + member offset
            t = self.tu.types[n["t"]]
            if t.get("arr") is not None or t.get("c", "").endswith("[]"):
                base, path = member_path(n)
                if base is not None and n.get("arrow") and len(path) == 1:
                    bl = self.lin(base, st)
                    off = self._member_offset(base, path[0])
                    if bl is not None and off is not None:
                        return lf_add(bl, lf_const(off))
            return None
        if k == "BinaryOperator":
            op = n.get("op")
            if op == ",":
                return self.lin(n["c"][1], st)
            if op == "=":
                return self.lin(n["c"][1], st)
            if op in ("+", "-", "*"):
                a, b = self.lin(n["c"][0], st), self.lin(n["c"][1], st)
                if a is None or b is None:
                    return None
                t = self.tu.types[n["t"]] if n.get("t") is not None else {}
                if t.get("ptr"):
                    # pointer arithmetic scales the integer operand
                    la, lb = n["c"][0], n["c"][1]
                    while la.get("k") == "ParenExpr":
                        la = la["c"][0]
                    while lb.get("k") == "ParenExpr":
                        lb = lb["c"][0]
                    ta = self.tu.types[la["t"]]
                    pa = bool(ta.get("ptr")) or ta.get("arr") is not None or ta.get("c", "").endswith("[]")
                    pn = la if pa else lb
                    es = self.elem_size(pn)
                    if es is None:
                        return None
                    if pa:
                        b = lf_scale(b, es)
                    else:
                        a = lf_scale(a, es)
                    return lf_add(a, b, 1 if op == "+" else -1)
                if op == "-" and not t.get("ptr"):
                    la, lb = strip(n["c"][0]), strip(n["c"][1])
                    if la is not None and lb is not None and self.tu.types[la["t"]].get("ptr") and self.tu.types[lb["t"]].get("ptr"):
                        es = self.elem_size(la)
                        d = lf_add(a, b, -1)
                        if es in (None, 1):
                            return d if es == 1 else None
                        if all(v % es == 0 for v in d.values()):
                            return {s: v // es for s, v in d.items()}
                        return None
                # integer arithmetic: only in 64 bits may we assume that sums of file counts do not wrap
                if t.get("int") and (t.get("w") or 0) < 64 and (set(a) - {ONE} or set(b) - {ONE}):
                    return None
                if op == "+":
                    return lf_add(a, b)
                if op == "-":
                    if not t.get("sg") and t.get("int"):
                        # unsigned difference: exact only if it cannot wrap; the client must prove a - b >= 0
                        d = lf_add(a, b, -1)
                        if self.prove(d, st):
                            return d
                        return None
                    return lf_add(a, b, -1)
                if op == "*":
                    if not (set(a) - {ONE}):
                        return lf_scale(b, a.get(ONE, 0))
                    if not (set(b) - {ONE}):
                        return lf_scale(a, b.get(ONE, 0))
                    return None
            return None
        if k == "CallExpr":
            cal = n.get("callee")
            if cal == "__builtin_expect":
                return self.lin(call_args(n)[0], st)
            if cal in self.readers:
                pi, nb, uns = self.readers[cal]
                a = self.lin(call_args(n)[pi], st)
                if a is not None and uns:
                    return {("rd", nb, freeze(a)): 1}
            return None
        if k == "ArraySubscriptExpr":
            t = self.tu.types[n["t"]] if n.get("t") is not None else {}
            if t.get("int") and not t.get("sg"):
                ad = self.addr_of(n, st)
                if ad is not None and any(s != ONE and s[0] == "base" and self.objkind.get(s) == "image" for s in ad):
                    return {("rd", (t.get("w") or 8) // 8, freeze(ad)): 1}
            return None
        if k == "UnaryOperator" and n.get("op") in ("++", "--"):
            v = self.lin(n["c"][0], st)
            if v is None:
                return None
            if n.get("postfix"):
                return lf_add(v, lf_const(-1 if n["op"] == "++" else 1))
            return v
        return None

    def _member_offset(self, base_expr, member):
        t = self.tu.types[base_expr["t"]]
        s = t.get("c", "")
        nm = s.replace("const ", "").replace("struct ", "").replace("*", "").strip()
        rec = self.tu.record(nm)
        if rec is None:
            return None
        for f in rec["fields"]:
            if f["n"] == member:
                return f["off"] // 8
        return None

    def addr_of(self, n, st):
        """address form of an lvalue that is an array element or a dereference; None if unknown"""
        n = strip(n)
        if n is None:
            return None
        if n.get("k") == "ArraySubscriptExpr":
            b, i = n["c"][0], n["c"][1]
            bl, il = self.lin(b, st), self.lin(i, st)
            if bl is None or il is None:
                return None
            es = self.elem_size(strip_casts_only(b))
            if es is None:
                return None
            return lf_add(bl, lf_scale(il, es))
        if n.get("k") == "UnaryOperator" and n.get("op") == "*":
            return self.lin(n["c"][0], st)
        return None

    # ---- prover
    def prove(self, form, st, depth=None):
        """form >= 0 ?"""
        depth = self.DEPTH if depth is None else depth
        neg = [s for s, v in form.items() if v < 0 or not self.nonneg(s)]
        if not neg:
            return True
        if depth == 0:
            return False
        s = neg[0]
        c = form[s]
        for f in st.facts:
            fd = thaw(f)
            fs = fd.get(s, 0)
            if fs == 0 or (fs > 0) != (c > 0):
                continue
            # subtract lam * fact so that the coefficient of s becomes >= 0 (or exactly 0 for symbols of unknown sign)
            if self.nonneg(s):
                lam = -(-c // fs) if c % fs else c // fs         # ceil(c / fs), both negative
            else:
                if c % fs:
                    continue
                lam = c // fs
            if lam <= 0:
                continue
            rest = lf_add(form, fd, -lam)
            if self.prove(rest, st, depth - 1):
                return True
        return False

    # ---- transfer
    def _fresh(self, key, site, node=None):
        sym = ("u", key, site)
        if node is not None and self.key_unsigned(key, node):
            self._unsigned_syms.add(sym)
        return sym

    def _set(self, st, key, val, site, node=None):
        # the previous value of key is gone: nothing to drop (symbols are values, not variables)
        if val is None:
            sym = self._fresh(key, site, node)
            st.drop_symbol(sym)
            st.env[key] = {sym: 1}
        else:
            st.env[key] = val

    def _kill_base(self, st, d, site):
        for kk in self._member_keys.get(d, ()):
            sym = ("u", kk, site)
            st.drop_symbol(sym)
            st.env[kk] = {sym: 1}

    def transfer(self, n, st):
        k = n.get("k")
        if k == "BinaryOperator" and n.get("op") == "=":
            lhs, rhs = n["c"][0], n["c"][1]
            key = self.key_of(lhs)
            if key is not None:
                val = self._value(rhs, st, n)
                self._set(st, key, val, n.get("i"), strip(lhs))
            else:
                l0 = strip(lhs)
                if l0 is not None and l0.get("k") == "UnaryOperator" and l0.get("op") == "*":
                    # *p = record: copy the member facts of the source record
                    p = strip(l0["c"][0])
                    r0 = strip(rhs)
                    while r0 is not None and r0.get("k") in CASTS:
                        r0 = strip(r0["c"][0])
                    if p is not None and p.get("k") == "DeclRefExpr":
                        self._kill_base(st, p["d"], n.get("i"))
                        if r0 is not None and r0.get("k") == "DeclRefExpr":
                            for kk, v in list(st.env.items()):
                                if isinstance(kk, tuple) and len(kk) == 2 and kk[0] == r0["d"]:
                                    st.env[(p["d"], kk[1])] = dict(v)
                elif l0 is not None and l0.get("k") == "MemberExpr":
                    base, path = member_path(l0)
                    if base is not None and base.get("k") == "DeclRefExpr":
                        pre = ".".join(path)
                        for kk in [x for x in st.env if isinstance(x, tuple) and len(x) == 2 and x[0] == base["d"] and
                                   isinstance(x[1], str) and (x[1] == pre or x[1].startswith(pre + "."))]:
                            sym = ("u", kk, n.get("i"))
                            st.drop_symbol(sym)
                            st.env[kk] = {sym: 1}
        elif k == "CompoundAssignOperator":
            key = self.key_of(n["c"][0])
            if key is not None:
                op = n.get("op", "")[:-1]
                val = None
                if op in ("+", "-", "*"):
                    synth = {"k": "BinaryOperator", "op": op, "c": [n["c"][0], n["c"][1]], "t": n.get("t"), "i": n.get("i")}
                    val = self.lin(synth, st)
                self._set(st, key, val, n.get("i"), strip(n["c"][0]))
        elif k == "UnaryOperator" and n.get("op") in ("++", "--"):
            key = self.key_of(n["c"][0])
            if key is not None:
                v = st.env.get(key)
                val = lf_add(v, lf_const(1 if n["op"] == "++" else -1)) if v is not None else None
                self._set(st, key, val, n.get("i"), strip(n["c"][0]))
        elif k in ("DeclStmt", "Var"):
            for v in ([n] if k == "Var" else kids(n)):
                if v.get("k") != "Var":
                    continue
                t = self.tu.types[v["t"]]
                if t.get("int") or t.get("ptr"):
                    if kids(v):
                        val = self._value(kids(v)[0], st, v)
                        if val is None:
                            sym = ("u", v["d"], v.get("i", v["d"]))
                            if t.get("int") and not t.get("sg"):
                                self._unsigned_syms.add(sym)
                            st.drop_symbol(sym)
                            val = {sym: 1}
                        st.env[v["d"]] = val
                    else:
                        st.env.pop(v["d"], None)
                else:
                    self._kill_base(st, v["d"], v.get("i"))
        elif k == "CallExpr":
            for a in call_args(n):
                x = strip(a)
                if x is not None and x.get("k") == "UnaryOperator" and x.get("op") == "&":
                    y = strip(x["c"][0])
                    key = self.key_of(y)
                    if key is not None:
                        self._set(st, key, None, n.get("i"), y)
                    if y is not None and y.get("k") == "DeclRefExpr":
                        self._kill_base(st, y["d"], n.get("i"))

    def _value(self, rhs, st, site_node):
        r0 = strip(rhs)
        while r0 is not None and r0.get("k") in CASTS and r0.get("c"):
            r0 = strip(r0["c"][0])
        if r0 is not None and r0.get("k") == "CallExpr" and r0.get("callee") in self.allocators:
            si, kind = self.allocators[r0["callee"]]
            sym = ("base", "%s@%s" % (r0["callee"], r0.get("l")))
            sz = self.lin(call_args(r0)[si], st)
            self.objkind[sym] = kind
            if sz is not None:
                st.env[("size", sym)] = sz
            else:
                st.env.pop(("size", sym), None)
            return {sym: 1}
        return self.lin(rhs, st)

    # ---- refinement
    def refine(self, cond, pol, st):
        c = strip(cond)
        while c is not None and (c.get("k") in CASTS or (c.get("k") == "UnaryOperator" and c.get("op") == "!")):
            if c.get("k") == "UnaryOperator":
                pol = not pol
            c = strip(c["c"][0])
        if c is None:
            return st
        k = c.get("k")
        if k == "CallExpr" and c.get("callee") == "__builtin_expect":
            return self.refine(call_args(c)[0], pol, st)
        if k == "BinaryOperator" and c.get("op") == ",":
            return self.refine(c["c"][1], pol, st)
        if k == "BinaryOperator" and c.get("op") in ("&&", "||"):
            if (c["op"] == "&&" and pol) or (c["op"] == "||" and not pol):
                s1 = self.refine(c["c"][0], pol, st)
                return self.refine(c["c"][1], pol, s1) if s1 is not None else None
            return st
        if k == "BinaryOperator" and c.get("op") in ("==", "!=", "<", ">", "<=", ">="):
            op = c["op"]
            if not pol:
                op = {"==": "!=", "!=": "==", "<": ">=", ">=": "<", ">": "<=", "<=": ">"}[op]
            l, r = c["c"][0], c["c"][1]
            ls = strip(l)
            if ls is not None and ls.get("k") == "BinaryOperator" and ls.get("op") == "=":
                l = ls["c"][0]
            # comparisons are exact only when neither side was converted to a narrower / other-signed type: lin() checks
            a, b = self.lin(l, st), self.lin(r, st)
            if a is None or b is None:
                return st
            d = lf_add(a, b, -1)          # a - b
            if not (set(d) - {ONE}):
                v = d.get(ONE, 0)
                truth = {"==": v == 0, "!=": v != 0, "<": v < 0, ">": v > 0, "<=": v <= 0, ">=": v >= 0}[op]
                return st if truth else None
            st = st.copy()
            if op == "<":
                st.facts.add(freeze(lf_add(lf_scale(d, -1), lf_const(-1))))
            elif op == "<=":
                st.facts.add(freeze(lf_scale(d, -1)))
            elif op == ">":
                st.facts.add(freeze(lf_add(d, lf_const(-1))))
            elif op == ">=":
                st.facts.add(freeze(d))
            elif op == "==":
                st.facts.add(freeze(d))
                st.facts.add(freeze(lf_scale(d, -1)))
                for x, other in ((l, b), (r, a)):
                    key = self.key_of(x)
                    if key is not None and not (set(other) - {ONE}):
                        st.env[key] = dict(other)
            elif op == "!=":
                # unsigned x != 0  ->  x >= 1
                for x, xv, other in ((l, a, b), (r, b, a)):
                    xs = strip(x)
                    if not (set(other)) and xs is not None and xs.get("t") is not None:
                        t = self.tu.types[xs["t"]]
                        if t.get("int") and not t.get("sg"):
                            st.facts.add(freeze(lf_add(xv, lf_const(-1))))
            return st
        # truth test of a value
        v = self.lin(c, st)
        if v is None:
            return st
        if not (set(v) - {ONE}):
            truth = v.get(ONE, 0) != 0
            return st if truth == pol else None
        st = st.copy()
        t = self.tu.types[c["t"]] if c.get("t") is not None else {}
        if pol:
            if t.get("int") and not t.get("sg"):
                st.facts.add(freeze(lf_add(v, lf_const(-1))))
        else:
            st.facts.add(freeze(v))
            st.facts.add(freeze(lf_scale(v, -1)))
            key = self.key_of(c)
            if key is not None:
                st.env[key] = {}
        return st

    # ---- driver
    def _signature(self, st):
        sig = []
        for d in self.discriminators:
            v = st.env.get(d)
            sig.append(v.get(ONE, 0) if v is not None and not (set(v) - {ONE}) else "?")
        return tuple(sig)

    def _join(self, b, contribs):
        """in-state of block b from the latest states of its incoming edges (all of the same partition)"""
        if len(contribs) == 1:
            return contribs[0].copy()
        keys = set(contribs[0].env)
        for c in contribs[1:]:
            keys &= set(c.env)
        phis = [k for k in keys if any(c.env[k] != contribs[0].env[k] for c in contribs[1:])]
        contribs = [c.copy() for c in contribs]
        lbs = {}
        for k in phis:
            sym = ("phi", k, b)
            # lower-bound inference for loop-variant values: phi - c >= 0 for the least constant among the incoming values,
            # provided every other incoming value satisfies it in its own state
            consts = [c.env[k].get(ONE, 0) for c in contribs if not (set(c.env[k]) - {ONE})]
            if consts:
                c0 = min(consts)
                if all(c.env[k] == {sym: 1} and freeze(lf_add({sym: 1}, lf_const(-c0))) in c.facts or
                       (c.env[k] != {sym: 1} and self.prove(lf_add(c.env[k], lf_const(-c0)), c)) for c in contribs):
                    lbs[k] = c0
        for k in phis:
            sym = ("phi", k, b)
            for c in contribs:
                if c.env.get(k) != {sym: 1}:
                    # the symbol is re-defined on this edge: what the edge knows about its previous incarnation is dropped
                    c.drop_symbol(sym)
                    c.env[k] = {sym: 1}
        env = {}
        for k in keys:
            if all(k in c.env for c in contribs):
                v0 = contribs[0].env[k]
                env[k] = v0 if all(c.env[k] == v0 for c in contribs[1:]) else {("phi", k, b): 1}
        facts = set(contribs[0].facts)
        for c in contribs[1:]:
            facts &= c.facts
        for k, c0 in lbs.items():
            if env.get(k) == {("phi", k, b): 1}:
                facts.add(freeze(lf_add({("phi", k, b): 1}, lf_const(-c0))))
        return State(env, facts)

    def run(self, entry_env=None, entry_facts=None):
        fn = self.fn
        cfg = fn.cfg
        if cfg is None:
            raise AnalysisBroken("no CFG for %s" % fn.name)
        self._unsigned_syms = set()
        self._lbcand = {}
        # unsigned keys: phi symbols of keys with unsigned integer type are non-negative
        self._key_unsigned = {}
        self._member_keys = {}
        for x in fn.walk():
            if x.get("k") == "Var":
                t = self.tu.types[x["t"]]
                self._key_unsigned[x["d"]] = bool(t.get("int")) and not t.get("sg")
            elif x.get("k") == "MemberExpr":
                key = self.key_of(x)
                if key is not None:
                    t = self.tu.types[x["t"]]
                    self._key_unsigned[key] = bool(t.get("int")) and not t.get("sg")
                    self._member_keys.setdefault(key[0], set()).add(key)
        for p in fn.params:
            t = self.tu.types[p["t"]]
            self._key_unsigned[p["d"]] = bool(t.get("int")) and not t.get("sg")
        cand = {}
        for sw in fn.switches():
            op = strip(sw["c"][0]) if sw.get("c") else None
            while op is not None and op.get("k") in CASTS:
                op = strip(op["c"][0])
            if op is not None and op.get("k") == "BinaryOperator" and op.get("op") == "=":
                op = op["c"][0]
            k = self.key_of(op) if op is not None else None
            if k is not None:
                cand[k] = cand.get(k, 0) + 1
        self.discriminators = sorted(cand, key=repr)
        env0 = {}
        for key in self._key_unsigned:
            if isinstance(key, tuple) or key in [p["d"] for p in fn.params]:
                env0[key] = {("u", key, "entry"): 1}
        env0.update(entry_env or {})
        st0 = State(env0, entry_facts or ())
        edges = {}         # (pred block, pred partition, succ block) -> state
        instate = {cfg.entry: {self._signature(st0): st0}}
        work = [(cfg.entry, self._signature(st0))]
        rounds = 0
        while work:
            b, sig = work.pop()
            cur = instate.get(b, {}).get(sig)
            if cur is None:
                continue
            rounds += 1
            if rounds > 20000:
                raise AnalysisBroken("linear-form analysis of %s does not converge" % fn.name)
            touched = set()
            for kk in [kk for kk in edges if kk[0] == b and kk[1] == sig]:
                touched.add((kk[2], self._signature(edges[kk])))
                del edges[kk]
            for s, ns in self._step(b, cur.copy()):
                prev = edges.get((b, sig, s))
                edges[(b, sig, s)] = ns if prev is None else self._join(s, [prev, ns])
                touched.add((s, self._signature(edges[(b, sig, s)])))
            for s, sg in touched:
                contribs = [stt for (pb, psig, sb), stt in sorted(edges.items(), key=lambda kv: repr(kv[0]))
                            if sb == s and self._signature(stt) == sg]
                part = instate.setdefault(s, {})
                if not contribs:
                    if s != cfg.entry:
                        part.pop(sg, None)
                    continue
                merged = self._join(s, contribs)
                old = part.get(sg)
                if old is None or old.env != merged.env or old.facts != merged.facts:
                    part[sg] = merged
                    work.append((s, sg))
        self.instate = {b: list(p.values()) for b, p in instate.items()}
        return self

    def nonneg(self, sym):
        if sym == ONE:
            return True
        if sym[0] == "rd":
            return True
        if sym[0] == "phi":
            return self._key_unsigned.get(sym[1], False)
        if sym[0] == "u":
            return sym in self._unsigned_syms or self._key_unsigned.get(sym[1], False)
        return False

    def _step(self, b, st):
        nodes = self.fn.nodes
        cfg = self.fn.cfg
        blk = cfg.blocks[b]
        for e in blk["e"]:
            n = nodes.get(e)
            if n is not None:
                self.transfer(n, st)
        outs = []
        ss = blk["s"]
        if blk.get("tk") == "SwitchStmt" and "cond" in blk:
            cond = nodes.get(blk["cond"])
            op = strip(cond) if cond is not None else None
            while op is not None and op.get("k") in CASTS:
                op = strip(op["c"][0])
            if op is not None and op.get("k") == "BinaryOperator" and op.get("op") == "=":
                op = op["c"][0]
            key = self.key_of(op) if op is not None else None
            cur = st.env.get(key) if key is not None else None
            labelled = []
            for s in ss:
                if s is None:
                    continue
                lab = nodes.get(cfg.blocks[s].get("label"))
                ns = st.copy()
                if lab is not None and lab.get("k") == "CaseStmt" and lab.get("lo") is not None and lab.get("hi", lab["lo"]) == lab["lo"]:
                    if cur is not None and not (set(cur) - {ONE}) and cur.get(ONE, 0) != lab["lo"]:
                        continue
                    if key is not None:
                        ns.env[key] = lf_const(lab["lo"])
                    labelled.append(lab["lo"])
                elif cur is not None and not (set(cur) - {ONE}) and cur.get(ONE, 0) in labelled:
                    continue
                outs.append((s, ns))
        elif len(ss) == 2 and "cond" in blk and ss[0] is not None and ss[1] is not None:
            cond = nodes.get(blk["cond"])
            if cond is not None:
                cond = effective_cond(cond)
            for s, pol in ((ss[0], True), (ss[1], False)):
                ns = self.refine(cond, pol, st.copy()) if cond is not None else st.copy()
                if ns is not None:
                    outs.append((s, ns))
        else:
            for s in ss:
                if s is not None:
                    outs.append((s, st.copy()))
        return outs

    def states_at_any(self, node, fn=None):
        """states before the nearest enclosing CFG element of `node`"""
        cur = node
        while cur is not None:
            if "i" in cur:
                sts = self.states_at(cur)
                if sts is not None:
                    return sts
            cur = self.fn.parent(cur)
        return []

    def states_at(self, node):
        cfg = self.fn.cfg
        sb = cfg.stmt_block(node["i"]) if "i" in node else None
        if sb is None:
            return None
        b, idx = sb
        out = []
        nodes = self.fn.nodes
        for st0 in self.instate.get(b, []):
            st = st0.copy()
            for e in cfg.blocks[b]["e"][:idx]:
                n = nodes.get(e)
                if n is not None:
                    self.transfer(n, st)
            out.append(st)
        return out


def strip_casts_only(n):
    n = strip(n)
    while n is not None and n.get("k") in CASTS and n.get("c"):
        n = strip(n["c"][0])
    return n
