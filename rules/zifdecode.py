"""RF2-zifopen: the zone file loader decoded on synthetic files, through to the offsets the zone then gives.

zif_open (lib/tzraw.c) is folded as it stands on TZif images built here (version 1 and version 2 / 3, the latter with a
deliberately different version 1 block in front): header decoding, the size guard, the big-endian readers, the copy into the zone
object and the merge of transitions that do not change the type.  open / fstat / mmap / malloc are stand-ins that hand the image
and a block of cells over.  Tables: no transition; one; several with no-op transitions (same type as the one before) at the
start, in the middle, twice in a row and at the end; 64-bit stamps beyond +-2^31.  The loaded zone must hold exactly the
transitions that change the type, in order, with their stamps and types; and __offs / zif_local_time on the loaded zone must give,
for instants next to every transition of the file, the offset of the last transition at or before the instant."""
import struct
from core import AnalysisBroken, NotConst
import fold
from fold import CPtr, Ptr
from fmtdecode import LIBC

# (transitions [(stamp, type)], offsets per type)
TABLES = [
    ([], [3600]),
    ([(1000, 1)], [0, 3600]),
    ([(1000, 1), (2000, 0), (3000, 1), (4000, 0)], [0, 3600]),
    ([(1000, 1), (2000, 1), (3000, 2), (4000, 1)], [0, 3600, 7200]),              # no-op in the middle, real ones after it
    ([(1000, 0), (2000, 1), (3000, 1), (4000, 1), (5000, 0), (6000, 2)], [0, 3600, 7200]),   # twice in a row
    ([(-5000, 1), (-4000, 2), (-3000, 2), (10, 0), (20, 0)], [0, -3600, 1800]),     # negative stamps, no-op at the end
    ([(1000, 1), (2000, 2), (3000, 2)], [0, 3600, 7200]),
    ([(-3000000000, 1), (-10, 0), (2500000000, 1), (3000000000, 1), (5000000000, 2)], [0, 3600, 7200]),   # 64-bit only
]


def _block(trs, ofs, wide):
    ntr, nty = len(trs), len(ofs)
    abbr = b"AAA\0"
    hdr = b"TZif" + (b"2" if wide else b"\0") + b"\0" * 15 + struct.pack(">6I", 0, 0, 0, ntr, nty, len(abbr))
    body = b"".join(struct.pack(">q" if wide else ">i", s) for s, _ in trs) + bytes(t for _, t in trs)
    body += b"".join(struct.pack(">iBB", o, 0, 0) for o in ofs) + abbr
    return hdr + body


def image(trs, ofs, version):
    if version == 1:
        b = _block(trs, ofs, False)
        return b"TZif\0" + b[5:]
    # version 2: a version 1 block (with 32-bit-representable stamps only, and one transition less: it must not be used), then the real one
    v1 = [(s, t) for s, t in trs if -2 ** 31 <= s < 2 ** 31][:-1]
    b1 = _block(v1, ofs, False)
    b1 = b"TZif2" + b1[5:]
    return b1 + _block(trs, ofs, True) + b"\nUTC0\n"


def _expect(trs):
    keep = []
    for i, (s, t) in enumerate(trs):
        if i == 0 or trs[i - 1][1] != t:
            keep.append((s, t))
    return keep


def _offset(trs, ofs, t):
    cur = None
    for s, ty in trs:
        if s <= t:
            cur = ty
    return ofs[0] if cur is None else ofs[cur]


def run(R, P, rule):
    tu = P.tu("libdut_a-tzraw.o")
    fz, fo_, fl = tu.func("zif_open"), tu.func("__offs"), tu.func("zif_local_time")
    for f in (fz, fo_, fl):
        if f is None or getattr(f, "body", None) is None:
            raise AnalysisBroken("%s: zif_open / __offs / zif_local_time vanished" % rule)
        R.saw(f)
    n = 0
    bad = []
    try:
        for trs, ofs in TABLES:
            for version in (1, 2):
                if version == 1 and any(not (-2 ** 31 <= s < 2 ** 31) for s, _ in trs):
                    continue
                img = list(image(trs, ofs, version))
                heap = []

                def _malloc(sz):
                    cell = {"data": CPtr([0] * 64, 0)}
                    fr = {"cell": cell}
                    heap.append(fr)
                    return Ptr(fr, "cell", None)

                def _fstat(fd, st):
                    st.env[st.d] = {"st_size": len(img)}
                    return 0
                calls = dict(LIBC)
                calls.update({"coord_zone": lambda f: 0, "__open_zif": lambda f: 3, "fstat": _fstat, "close": lambda fd: 0,
                              "mmap": lambda a, ln, pr, fl_, fd, off: CPtr(img, 0), "munmap": lambda m, ln: 0, "malloc": _malloc,
                              "free": lambda p: 0})
                what = "version %d file with transitions %s" % (version, trs)
                try:
                    z = fold.Folder(fz, calls=calls, inline=True, max_steps=400000).run([fold.cstr("Synthetic/Zone")])
                except fold.Abort as e:
                    bad.append((what, "the loader stops: %s" % e, "a loaded zone"))
                    continue
                n += 1
                if not isinstance(z, Ptr):
                    bad.append((what, "refused (%r)" % (z,), "a loaded zone"))
                    continue
                rec = z.env[z.d]
                ntr = rec.get("ntr")
                exp = _expect(trs)

                def arr(name, k):
                    p_ = rec.get(name)
                    return [p_.get(i) for i in range(k)] if isinstance(p_, CPtr) else None
                got = list(zip(arr("trs", ntr) or [], arr("tys", ntr) or [])) if isinstance(ntr, int) and 0 <= ntr <= 32 else None
                if got != exp or arr("ofs", len(ofs)) != ofs or rec.get("nty") != len(ofs):
                    bad.append((what, "loaded as transitions %s, offsets %s" % (got, arr("ofs", len(ofs))), "transitions %s, offsets %s" % (exp, ofs)))
                    continue
                # the loaded zone in use
                zt = [i for i in range(len(tu.types)) if tu.types[i].get("s") == "struct zif_s"]
                for s, _ in trs:
                    for t in (s - 1, s, s + 1):
                        if t < trs[0][0]:
                            continue        # the property speaks of instants from the first listed transition on
                        n += 1
                        for k_ in ("cache.prev", "cache.next", "cache.offs", "cache.trno"):
                            rec[k_] = 0
                        r = fold.Folder(fo_, calls={}, inline=True, max_steps=200000).run([Ptr(z.env, z.d, zt[0] if zt else None), t])
                        if r != _offset(trs, ofs, t):
                            bad.append((what, "offset %s at %d" % (r, t), "offset %d" % _offset(trs, ofs, t)))
    except NotConst as e:
        raise AnalysisBroken("%s: zif_open left the foldable fragment (%s)" % (rule, e))
    if bad:
        what, got, exp = bad[0]
        R.finding(rule, fz, "zone files decoded", "%d of the synthetic files are not loaded as written; first: a %s: %s, the file says %s"
                  % (len(bad), what, got, exp))
    else:
        R.ob(rule, "zif_open on %d synthetic files (versions 1 and 2, no-op transitions at the start / middle / twice / end, 64-bit "
             "stamps): the zone holds the type-changing transitions of the file and gives the file's offsets next to every transition"
             % (2 * len(TABLES) - 1), True)
    return n


def run_truncated(R, P, rule):
    """every prefix of a synthetic file: refused, or (when all tables the loader reads are inside) loaded as written; the loader
    never reads a byte outside the image (the folder's arrays abort on that)"""
    tu = P.tu("libdut_a-tzraw.o")
    fz = tu.func("zif_open")
    if fz is None or getattr(fz, "body", None) is None:
        raise AnalysisBroken("%s: zif_open vanished" % rule)
    R.saw(fz)
    n = 0
    bad = []
    try:
        for trs, ofs in (TABLES[3], TABLES[1]):
            for version in (1, 2):
                full = image(trs, ofs, version)
                # where the tables of the block in use end
                wide = version == 2
                v1 = [(s_, t_) for s_, t_ in trs if -2 ** 31 <= s_ < 2 ** 31][:-1]
                start = len(_block(v1, ofs, False)) if wide else 0
                need = start + 44 + len(trs) * (8 if wide else 4) + len(trs) + 6 * len(ofs)
                for L in range(0, len(full) + 1):
                    img = list(full[:L])

                    def _malloc(sz):
                        fr = {"cell": {"data": CPtr([0] * 64, 0)}}
                        return Ptr(fr, "cell", None)

                    def _fstat(fd, st, L=L):
                        st.env[st.d] = {"st_size": L}
                        return 0
                    calls = dict(LIBC)
                    calls.update({"coord_zone": lambda f: 0, "__open_zif": lambda f: 3, "fstat": _fstat, "close": lambda fd: 0,
                                  "mmap": lambda a, ln, pr, fl_, fd, off, img=img: CPtr(img, 0), "munmap": lambda m, ln: 0, "malloc": _malloc,
                                  "free": lambda p_: 0})
                    n += 1
                    try:
                        z = fold.Folder(fz, calls=calls, inline=True, max_steps=400000).run([fold.cstr("Synthetic/Zone")])
                    except fold.Abort as e:
                        bad.append((version, L, len(full), "reads outside the image (%s)" % e))
                        continue
                    if L < need and isinstance(z, Ptr):
                        bad.append((version, L, len(full), "is loaded although the tables end at byte %d" % need))
                    elif L >= need and not isinstance(z, Ptr):
                        bad.append((version, L, len(full), "is refused although the tables (ending at byte %d) are all there" % need))
    except NotConst as e:
        raise AnalysisBroken("%s: zif_open left the foldable fragment (%s)" % (rule, e))
    if bad:
        v, L, tot, what = bad[0]
        R.finding(rule, fz, "truncated zone files decoded", "%d of %d prefixes of the synthetic files are mishandled; first: a version %d file "
                  "cut to %d of %d bytes %s" % (len(bad), n, v, L, tot, what))
    else:
        R.ob(rule, "zif_open on every prefix of four synthetic files (%d images): refused while a table is cut, loaded once the tables are "
             "complete, and no byte outside the image is read" % n, True)
    return n


def run_badtypes(R, P, rule):
    """a transition that names a type the file does not have (its index is the number of types, or 255): the file must be refused --
    the index is used on the offsets table by every lookup"""
    tu = P.tu("libdut_a-tzraw.o")
    fz = tu.func("zif_open")
    if fz is None or getattr(fz, "body", None) is None:
        raise AnalysisBroken("%s: zif_open vanished" % rule)
    R.saw(fz)
    n = 0
    bad = []
    try:
        for trs, ofs in (TABLES[3], TABLES[1]):
            for version in (1, 2):
                for pos in (0, len(trs) // 2, len(trs) - 1):
                    for wrong in (len(ofs), 255):
                        t2 = [(s_, wrong if i == pos else t_) for i, (s_, t_) in enumerate(trs)]
                        img = list(image(t2, ofs, version))

                        def _malloc(sz):
                            fr = {"cell": {"data": CPtr([0] * 64, 0)}}
                            return Ptr(fr, "cell", None)

                        def _fstat(fd, st, L=len(img)):
                            st.env[st.d] = {"st_size": L}
                            return 0
                        calls = dict(LIBC)
                        calls.update({"coord_zone": lambda f: 0, "__open_zif": lambda f: 3, "fstat": _fstat, "close": lambda fd: 0,
                                      "mmap": lambda a, ln, pr, fl_, fd, off, img=img: CPtr(img, 0), "munmap": lambda m, ln: 0,
                                      "malloc": _malloc, "free": lambda p_: 0})
                        n += 1
                        try:
                            z = fold.Folder(fz, calls=calls, inline=True, max_steps=400000).run([fold.cstr("Synthetic/Zone")])
                        except fold.Abort as e:
                            bad.append((version, pos, wrong, "makes the loader stop (%s)" % e))
                            continue
                        if isinstance(z, Ptr):
                            bad.append((version, pos, wrong, "is loaded"))
    except NotConst as e:
        raise AnalysisBroken("%s: zif_open left the foldable fragment (%s)" % (rule, e))
    if bad:
        v, pos, wrong, what = bad[0]
        R.finding(rule, fz, "zone files with a transition to a missing type", "%d of %d such files are not refused; first: a version %d file "
                  "whose transition %d names type %d %s" % (len(bad), n, v, pos, wrong, what))
    else:
        R.ob(rule, "zif_open on %d synthetic files in which one transition names a type the file does not have: all refused" % n, True)
    return n
