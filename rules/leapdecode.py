"""RF2-leap: leap second arithmetic decoded against the list.

(a) __tai_offs / __gps_offs (lib/tzraw.c) folded with the instant as one symbolic parameter over the whole supported range
    (1970 .. 4095): the range falls into one piece per table entry, and on every piece the offset is the value lib/leap-seconds.list
    gives -- steps of one second exactly at the listed instants, the last value for ever after.
(b) dt_dtadd of N real seconds (the `rs' unit) folded with N symbolic over +-45 s from the seconds around inserted leap seconds and
    from ordinary times: the result is N SI seconds later, passing through 23:59:60 where one was inserted.
(c) the ddiff pipeline with -f %rS on pairs of date-times around leap seconds: the UTC difference plus the leap seconds in between,
    with the sign flipped when the operands are swapped."""
import datetime
import os
from core import AnalysisBroken, NotConst, REPO
import fold
from fold import Aff, CPtr, cstr
import fmtdecode

NTP = 2208988800
_G = {}


def _list():
    out = []
    for ln in open(os.path.join(REPO, "lib", "leap-seconds.list")):
        ln = ln.split("#", 1)[0].strip()
        f = ln.split()
        if len(f) >= 2 and f[0].isdigit():
            out.append((int(f[0]) - NTP, int(f[1])))
    return out


def _val(v, t):
    return v.c + v.k * t if isinstance(v, Aff) else v


_LG = {}


def _long_worker(idx):
    """(b') one share of the long additions (forked: the routine, the enumerators and the table cache come with the process)"""
    fadd, E, tabs, tasks = _LG["fadd"], _LG["E"], _LG["tabs"], _LG["tasks"]
    bad = []
    for i in idx:
        d, cnt, exp = tasks[i]
        src = {"typ": E["DT_YMD"], "sandwich": 1, "d.typ": E["DT_YMD"], "d.ymd.y": d.year, "d.ymd.m": d.month, "d.ymd.d": d.day,
               "t.typ": E["DT_HMS"], "t.hms.h": d.hour, "t.hms.m": d.minute, "t.hms.s": d.second, "t.hms.ns": 0}
        fo = fold.Folder(fadd, calls={}, inline=True, max_steps=3000000)
        fo._tabs = tabs
        r = fo.run([dict(src), {"durtyp": E["DT_DURS"], "dv": cnt, "neg": 0, "tai": 1}])
        got = tuple(r.get(f_) for f_ in ("d.ymd.y", "d.ymd.m", "d.ymd.d", "t.hms.h", "t.hms.m", "t.hms.s"))
        if got != exp:
            bad.append((d.isoformat(), cnt, str(got), str(exp)))
    return bad


def run(R, P, rule):
    tz = P.tu("libdut_a-tzraw.o")
    dtu = P.tu("libdut_a-dt-core.o")
    libs = [dtu, P.tu("libdut_a-date-core.o"), P.tu("libdut_a-time-core.o"), tz, P.tu("libdut_a-leaps.o"), P.tu("libdut_a-strops.o"), P.tu("libdut_a-token.o"),
            P.tu("libdut_a-dt-locale.o")]
    dd = P.tu("ddiff-ddiff.o")

    def resolve(name):
        for l in libs:
            f = l.func(name)
            if f is not None and getattr(f, "body", None) is not None:
                return f
        return None

    def glob(name):
        for l in [tz] + libs + [dd]:
            g = l.global_var(name)
            if g is not None and (g.get("init") is not None or "val" in g):
                return g
        return None
    fold.RESOLVE["fn"] = resolve
    fold.GLOBALS["fn"] = glob
    lst = _list()
    if len(lst) < 20:
        raise AnalysisBroken("%s: leap-seconds.list not readable" % rule)
    steps = [(t, c) for i, (t, c) in enumerate(lst) if i > 0]      # the first line is the initial 10 s of 1972-01-01
    t0, c0 = lst[0]

    def tai(t):
        c = c0          # before the first listed instant the table keeps the first value (10 s): no step on 1972-01-01
        for (ti, ci) in lst:
            if t >= ti:
                c = ci
        return c
    n = 0
    tabs = {}
    try:
        # ---- (a) offsets over the whole range
        hi = int((datetime.datetime(4095, 12, 31, 23, 59, 59) - datetime.datetime(1970, 1, 1)).total_seconds())
        for fname, shift in (("__tai_offs", 0), ("__gps_offs", 19)):
            fn = tz.func(fname)
            if fn is None:
                raise AnalysisBroken("%s vanished" % fname)
            R.saw(fn)
            bad = []
            work = [(0, hi)]
            pieces = 0
            while work:
                a, b = work.pop()
                if a > b:
                    continue
                try:
                    fo = fold.Folder(fn, calls={}, inline=True, max_steps=400000)
                    fo._tabs = tabs
                    v = fo.run([Aff(0, 1, (a, b)) if a < b else a])
                except fold.Split as sp:
                    work.append((a, sp.args[0] - 1))
                    work.append((sp.args[0], b))
                    continue
                pieces += 1
                for t in sorted({a, b, (a + b) // 2}):
                    n += 1
                    exp = tai(t) - shift if fname == "__tai_offs" or t >= 315964800 else 0
                    if fname == "__gps_offs" and t >= 315964800:
                        exp = tai(t) - 19
                    if _val(v, t) != exp:
                        bad.append((t, _val(v, t), exp))
                if isinstance(v, Aff) and v.k:
                    bad.append((a, "not constant on [%d, %d]" % (a, b), ""))
            # the pieces must be the table's: one per step inside the range (+ the initial one, + the GPS epoch)
            if bad:
                t, got, exp = bad[0]
                R.finding(rule, fn, "%s over the whole range" % fname, "%d probes of the %d pieces differ from the list; first: at %s (%d) the offset "
                          "is %s, the list gives %s" % (len(bad), pieces, datetime.datetime(1970, 1, 1) + datetime.timedelta(seconds=t), t, got, exp))
            else:
                R.ob(rule, "%s: on each of its %d pieces over 1970..4095 the offset is the list's (steps at the listed instants, the last value "
                     "for ever after)" % (fname, pieces), True)
        # ---- (a') the offset of an instant does not depend on which instants were asked before (a routine may remember its last
        #          table position in a variable with static storage: the remembered interval must be the table's own)
        for fname, shift in (("__tai_offs", 0), ("__gps_offs", 19)):
            fn = tz.func(fname)
            bad = []
            marks = [t for (t, c) in lst]
            for i, ti in enumerate(marks):
                probes = [ti - 2, ti - 1, ti, ti + 1]
                primes = sorted({q for j in (i - 1, i, i + 1) if 0 <= j < len(marks) for q in (marks[j] - 1, marks[j], marks[j] + 1, marks[j] + 40)}
                                | {0, marks[-1] + 10 ** 8})
                fresh = {}
                for p_ in probes:
                    fo = fold.Folder(fn, calls={}, inline=True, max_steps=400000)
                    fo._tabs = tabs
                    fo.statics = {}
                    fresh[p_] = fo.run([p_])
                for q in primes:
                    for p_ in probes:
                        if p_ < 0 or q < 0:
                            continue
                        st = {}
                        for arg in (q, p_):
                            fo = fold.Folder(fn, calls={}, inline=True, max_steps=400000)
                            fo._tabs = tabs
                            fo.statics = st
                            v = fo.run([arg])
                        n += 1
                        if v != fresh[p_]:
                            bad.append((p_, q, v, fresh[p_]))
            if bad:
                p_, q, got, exp = bad[0]
                R.finding(rule, fn, "%s asked twice" % fname, "%d (earlier instant, instant) pairs give another offset than the instant alone; first: "
                          "the offset at %s (%d) is %s, but %s when %s (%d) was asked before: what the routine remembers between calls "
                          "does not match its table" % (len(bad), datetime.datetime(1970, 1, 1) + datetime.timedelta(seconds=p_), p_, exp, got,
                                                        datetime.datetime(1970, 1, 1) + datetime.timedelta(seconds=q), q))
            else:
                R.ob(rule, "%s: around every listed instant the offset is the same whichever neighbouring instant was asked before" % fname, True)
        # ---- (b) adding real seconds
        E = {k: dtu.enum_value(k) for k in ("DT_YMD", "DT_HMS", "DT_DURS")}
        fadd = dtu.func("dt_dtadd")
        R.saw(fadd)

        def si(d, s60=False):
            """SI seconds since the epoch of a UTC date-time (23:59:60 as the extra second of its day)"""
            u = int((d - datetime.datetime(1970, 1, 1)).total_seconds())
            return u + tai(u) + (1 if s60 else 0) - (1 if s60 else 0) * 0

        def from_si(x):
            """UTC date-time (y, m, d, h, mi, s) of an SI count; s may be 60"""
            # find u with u + tai(u) == x; inside a leap second there is none: that is 23:59:60 of the day before the step
            for (ti, ci) in steps:
                if x == ti + ci - 1:
                    d = datetime.datetime(1970, 1, 1) + datetime.timedelta(seconds=ti - 1)
                    return (d.year, d.month, d.day, 23, 59, 60)
            u = x - tai(x)
            while u + tai(u) < x:
                u += 1
            while u + tai(u) > x:
                u -= 1
            d = datetime.datetime(1970, 1, 1) + datetime.timedelta(seconds=u)
            return (d.year, d.month, d.day, d.hour, d.minute, d.second)
        badb = []
        starts = []
        for (ti, ci) in steps[-6:] + steps[:2]:
            for off in (-30, -3, -1, 0, 1, 20):
                starts.append(datetime.datetime(1970, 1, 1) + datetime.timedelta(seconds=ti + off))
        starts += [datetime.datetime(2012, 3, 1, 12, 0, 0), datetime.datetime(2030, 1, 1, 0, 0, 0)]
        for d in starts:
            src = {"typ": E["DT_YMD"], "sandwich": 1, "d.typ": E["DT_YMD"], "d.ymd.y": d.year, "d.ymd.m": d.month, "d.ymd.d": d.day,
                   "t.typ": E["DT_HMS"], "t.hms.h": d.hour, "t.hms.m": d.minute, "t.hms.s": d.second, "t.hms.ns": 0}
            work = [(-45, 45)]
            while work:
                a, b = work.pop()
                if a > b:
                    continue
                try:
                    fo = fold.Folder(fadd, calls={}, inline=True, max_steps=3000000)
                    fo._tabs = tabs
                    r = fo.run([dict(src), {"durtyp": E["DT_DURS"], "dv": Aff(0, 1, (a, b)) if a < b else a, "neg": 0, "tai": 1}])
                except fold.Split as sp:
                    work.append((a, sp.args[0] - 1))
                    work.append((sp.args[0], b))
                    continue
                for t in range(a, b + 1):
                    n += 1
                    got = tuple(_val(r.get(k), t) for k in ("d.ymd.y", "d.ymd.m", "d.ymd.d", "t.hms.h", "t.hms.m", "t.hms.s"))
                    exp = from_si(si(d) + t)
                    if got != exp and len(badb) < 300:
                        badb.append((d.isoformat(), t, str(got), str(exp)))
        if badb:
            day, t, got, exp = sorted(badb)[0]
            R.finding(rule, fadd, "adding real seconds, decoded with a symbolic count", "%s%d (start, count) points differ; first: %s %+d real seconds "
                      "gives %s, %s is that many SI seconds later" % (">= " if len(badb) >= 300 else "", len(badb), day, t, got, exp))
        else:
            R.ob(rule, "adding N real seconds from %d starts around inserted leap seconds, N in +-45: exactly N SI seconds later, through 23:59:60" % len(starts), True)
        # ---- (b') long additions: from next to one inserted second to next to another one, several inserted seconds in between
        marks = steps[-4:] + steps[:2]
        tasks = []
        for (ti, ci) in marks:
            for off in (-9, 0, 1):
                d = datetime.datetime(1970, 1, 1) + datetime.timedelta(seconds=ti + off)
                for (tj, cj) in marks:
                    if tj == ti:
                        continue
                    for k in (-3, -2, -1, 0, 1, 2):
                        # SI count of (the inserted second + k): tj - 1 is 23:59:59, the inserted second follows it
                        target = (tj - 1) + tai(tj - 1) + 1 + k
                        cnt = target - si(d)
                        if -2 ** 31 < cnt < 2 ** 31:
                            tasks.append((d, cnt, from_si(target)))
        _LG.update(fadd=fadd, E=E, tabs=tabs, tasks=tasks)
        import multiprocessing as mp
        jobs = 12
        with mp.get_context("fork").Pool(jobs) as pool:
            parts = pool.map(_long_worker, [list(range(i_, len(tasks), jobs)) for i_ in range(jobs)])
        badl = [b for part in parts for b in part]
        nl = len(tasks)
        n += nl
        if badl:
            day, t, got, exp = sorted(badl)[0]
            R.finding(rule, fadd, "adding real seconds across several inserted seconds", "%d of %d (start, count) points differ; first: %s %+d real "
                      "seconds gives %s, %s is that many SI seconds later" % (len(badl), nl, day, t, got, exp))
        else:
            R.ob(rule, "adding real seconds from next to one inserted second to within 3 s of another one (%d spans, several inserted seconds in "
                 "between, both directions): exactly N SI seconds later" % nl, True)
        # ---- (b'') operands held in the other representations the leap table is looked up by (month-count-weekday values are not
        # ordered by their packed word within a month; day numbers): from the last three days of every leap month and the day
        # after, to 5 s past the inserted second and back
        E2 = {k: dtu.enum_value(k) for k in ("DT_YMCW", "DT_DAISY")}
        fz = resolve("__ymd_to_daisy")
        if fz is None:
            raise AnalysisBroken("%s: __ymd_to_daisy vanished" % rule)
        fo = fold.Folder(fz, calls={}, inline=True, max_steps=400000)
        fo._tabs = tabs
        dz0 = fo.run([{"y": 1917, "m": 1, "d": 1}])      # the library's day number of 1917-01-01 (its converters are decided under C01)
        if not isinstance(dz0, int):
            raise AnalysisBroken("%s: __ymd_to_daisy is not foldable" % rule)

        def other(tag, d):
            base = {"typ": E2[tag], "sandwich": 1, "d.typ": E2[tag], "t.typ": E["DT_HMS"], "t.hms.h": d.hour, "t.hms.m": d.minute,
                    "t.hms.s": d.second, "t.hms.ns": 0}
            if tag == "DT_YMCW":
                base.update({"d.ymcw.y": d.year, "d.ymcw.m": d.month, "d.ymcw.c": (d.day - 1) // 7 + 1, "d.ymcw.w": d.isoweekday()})
            else:
                base.update({"d.daisy": (d.date() - datetime.date(1917, 1, 1)).days + dz0})
            return base

        def read(tag, r, t=0):
            if tag == "DT_YMCW":
                y, m, c, w = (_val(r.get(k), t) for k in ("d.ymcw.y", "d.ymcw.m", "d.ymcw.c", "d.ymcw.w"))
                # the day of the month the (count, weekday) pair names
                first = datetime.date(y, m, 1).isoweekday() if isinstance(y, int) and 1 <= (m or 0) <= 12 and 1 <= y <= 9999 else None
                day = None if first is None or not c or w is None else ((w or 7) - first) % 7 + 1 + 7 * (c - 1)
                return (y, m, day) + tuple(_val(r.get(k), t) for k in ("t.hms.h", "t.hms.m", "t.hms.s"))
            dz = _val(r.get("d.daisy"), t)
            d0 = datetime.date(1917, 1, 1) + datetime.timedelta(days=dz - dz0) if isinstance(dz, int) and 0 < dz < 10 ** 6 else None
            return ((d0.year, d0.month, d0.day) if d0 else (None, None, None)) + tuple(_val(r.get(k), t) for k in ("t.hms.h", "t.hms.m", "t.hms.s"))
        bado = []
        no = 0
        for tag in ("DT_YMCW", "DT_DAISY"):
            for (ti, ci) in steps:
                after = datetime.datetime(1970, 1, 1) + datetime.timedelta(seconds=ti + 5)
                for days, hh in ((0, 43200), (0, 86390), (1, 43200), (2, 43200), (-1, 43200)):
                    # ti is 00:00:00 of the day after the leap day
                    d = datetime.datetime(1970, 1, 1) + datetime.timedelta(seconds=ti - 86400 * (days + 1) + hh)
                    for a, b in ((d, after), (after, d)):
                        cnt = si(b) - si(a)
                        try:
                            fo = fold.Folder(fadd, calls={}, inline=True, max_steps=3000000)
                            fo._tabs = tabs
                            r = fo.run([other(tag, a), {"durtyp": E["DT_DURS"], "dv": cnt, "neg": 0, "tai": 1}])
                            got = read(tag, r)
                        except fold.Abort as e:
                            got = "abort: %s" % e
                        no += 1
                        exp = (b.year, b.month, b.day, b.hour, b.minute, b.second)
                        if got != exp:
                            bado.append((tag, a.isoformat(), cnt, str(got), str(exp)))
        n += no
        if bado:
            tag, day, t, got, exp = sorted(bado)[0]
            R.finding(rule, fadd, "adding real seconds to operands held otherwise", "%d of %d (start, count) points differ; first: %s held as %s %+d "
                      "real seconds gives %s, %s is that many SI seconds later" % (len(bado), no, day, tag, t, got, exp))
        else:
            R.ob(rule, "adding real seconds to date-times held as month-count-weekday values and as day numbers, from the last days of every "
                 "leap month across the inserted second and back (%d spans): exactly N SI seconds later" % no, True)
        # ---- (c) differences in real seconds through the ddiff pipeline
        calls = dict(fmtdecode.LIBC)

        def call(name, *args):
            f = dd.func(name)
            if f is None or getattr(f, "body", None) is None:
                f = resolve(name)
            fo = fold.Folder(f, calls=calls, inline=True, max_steps=3000000)
            fo._tabs = tabs
            return fo.run(list(args))
        ED = {k: dd.enum_value(k) for k in ("DT_YMD", "DT_HMS")}

        def rec(p):
            return {"typ": ED["DT_YMD"], "sandwich": 1, "d.typ": ED["DT_YMD"], "d.ymd.y": p[0], "d.ymd.m": p[1], "d.ymd.d": p[2],
                    "t.typ": ED["DT_HMS"], "t.hms.h": p[3], "t.hms.m": p[4], "t.hms.s": p[5], "t.hms.ns": 0}

        def si6(p):
            d = datetime.datetime(p[0], p[1], p[2], p[3], p[4], min(p[5], 59))
            return si(d) + (1 if p[5] == 60 else 0)
        pts = []
        for (ti, ci) in steps[-3:] + steps[:1]:
            for off in (-15, -1, 0, 10):
                d = datetime.datetime(1970, 1, 1) + datetime.timedelta(seconds=ti + off)
                pts.append((d.year, d.month, d.day, d.hour, d.minute, d.second))
            d = datetime.datetime(1970, 1, 1) + datetime.timedelta(seconds=ti - 1)
            pts.append((d.year, d.month, d.day, 23, 59, 60))
        pts += [(2012, 3, 1, 0, 0, 0), (2012, 3, 1, 0, 0, 10), (2013, 1, 1, 12, 0, 0)]
        # far apart: the whole supported range lies between the first and the last of these
        pts += [(1970, 1, 1, 0, 0, 0), (2050, 1, 1, 0, 0, 0), (2200, 6, 30, 23, 59, 59), (4095, 12, 31, 23, 59, 59)]
        badc = []
        fmt = "%rS"
        f_ = call("determine_durfmt", cstr(fmt))
        for a in pts:
            for b in pts:
                d1, d2 = rec(a), rec(b)
                typ = call("determine_durtype", dict(d1), dict(d2), dict(f_))
                dur = call("dt_dtdiff", typ, dict(d1), dict(d2))
                buf = [0] * 64
                ln = call("__strfdtdur", CPtr(buf, 0), 64, cstr(fmt), dict(dur), dict(f_), 0)
                text = bytes(buf[:ln]).decode("latin-1")
                n += 1
                exp = str(si6(b) - si6(a))
                if text != exp and len(badc) < 300:
                    badc.append(("%04d-%02d-%02dT%02d:%02d:%02d" % a, "%04d-%02d-%02dT%02d:%02d:%02d" % b, text, exp))
        fnp = dd.func("__strfdtdur")
        R.saw(fnp)
        if badc:
            a, b, got, exp = sorted(badc)[0]
            R.finding(rule, fnp, "difference in real seconds, decoded", "%d of %d pairs print something else than the SI seconds between them; first: "
                      "ddiff %s %s -f %%rS prints `%s`, there are %s" % (len(badc), len(pts) ** 2, a, b, got, exp))
        else:
            R.ob(rule, "difference in real seconds for %d pairs around inserted leap seconds (23:59:60 included): the SI seconds between them, "
                 "antisymmetric" % (len(pts) ** 2), True)
    except NotConst as e:
        raise AnalysisBroken("%s: a routine left the foldable fragment (%s)" % (rule, e))
    return n
