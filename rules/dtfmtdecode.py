"""RF2-dtfmt: printing and parsing of date-times decoded.

dt_strfdt and dt_strpdt (lib/dt-core.c, lib/dt-core-strpf.c: the date-time layer on top of the date and the time printers / parsers,
with its own specifiers such as the epoch seconds %s) are folded as they stand for date-times on a grid -- the ends of the months of
a leap and a common year, the ends of the range of 32-bit epoch values, times next to midnight and noon -- and formats that mix date
and time specifiers: the printed text must be what the specifiers mean (computed independently) and parsing it with the same format
must return the same date-time, with all of the text consumed.  The standard (format-less) route is included: printing and parsing
without a format agree on the ISO 8601 form."""
import datetime
from core import AnalysisBroken, NotConst
import fold
from fold import CPtr, Ptr, cstr
from fmtdecode import LIBC
from durdecode import _strtol

EPOCH = datetime.datetime(1970, 1, 1)
MO = ["Jan", "Feb", "Mar", "Apr", "May", "Jun", "Jul", "Aug", "Sep", "Oct", "Nov", "Dec"]


def _expect(items, p):
    out = ""
    for it in items:
        if not it.startswith("%"):
            out += it
            continue
        sp = it[-1]
        if sp == "F":
            out += "%04d-%02d-%02d" % (p.year, p.month, p.day)
        elif sp == "T":
            out += "%02d:%02d:%02d" % (p.hour, p.minute, p.second)
        elif sp == "Y":
            out += "%04d" % p.year
        elif sp == "m":
            out += "%02d" % p.month
        elif sp == "d":
            out += "%02d" % p.day
        elif sp == "H":
            out += "%02d" % p.hour
        elif sp == "I":
            out += "%02d" % (p.hour % 12 or 12)
        elif sp == "M":
            out += "%02d" % p.minute
        elif sp == "S":
            out += "%02d" % p.second
        elif sp == "p":
            out += "PM" if p.hour >= 12 else "AM"
        elif sp == "b":
            out += MO[p.month - 1]
        elif sp == "j":
            out += "%03d" % p.timetuple().tm_yday
        elif sp == "s":
            out += str(int((p - EPOCH).total_seconds()))
        else:
            raise KeyError(it)
    return out


FORMATS = [
    None,
    ["%F", "T", "%T"],
    ["%Y", "-", "%m", "-", "%d", " ", "%H", ":", "%M", ":", "%S"],
    ["%s"],
    ["%d", " ", "%b", " ", "%Y", " ", "%I", ":", "%M", ":", "%S", " ", "%p"],
    ["%Y", "%m", "%d", "%H", "%M", "%S"],
    ["%T", " on ", "%F"],
    ["%Y", "-", "%j", " ", "%H", ":", "%M", ":", "%S"],
]
_G = {}


def _points():
    pts = []
    for y in (2012, 2013):
        for m in range(1, 13):
            last = (datetime.date(y + (m == 12), m % 12 + 1, 1) - datetime.timedelta(days=1)).day
            for d in (1, last):
                for t in ((0, 0, 0), (0, 0, 1), (11, 59, 59), (12, 0, 0), (23, 59, 59)):
                    pts.append(datetime.datetime(y, m, d, *t))
    pts += [datetime.datetime(1970, 1, 1, 0, 0, 0), datetime.datetime(1969, 12, 31, 23, 59, 59), datetime.datetime(1901, 12, 13, 20, 45, 52),
            datetime.datetime(2038, 1, 19, 3, 14, 7), datetime.datetime(2038, 1, 19, 3, 14, 8), datetime.datetime(2106, 2, 7, 6, 28, 15),
            datetime.datetime(1969, 12, 31, 23, 0, 0), datetime.datetime(1969, 12, 31, 22, 30, 0), datetime.datetime(1969, 12, 31, 0, 0, 0),
            datetime.datetime(1950, 6, 15, 7, 0, 0), datetime.datetime(1950, 6, 15, 7, 0, 1), datetime.datetime(1931, 2, 28, 12, 0, 0),
            datetime.datetime(1917, 1, 1, 0, 0, 0), datetime.datetime(2400, 2, 29, 13, 0, 0), datetime.datetime(3000, 12, 31, 23, 59, 59)]
    return pts


def _worker(idx):
    tu, res, glob, E = _G["tu"], _G["resolve"], _G["glob"], _G["E"]
    fold.RESOLVE["fn"] = res
    fold.GLOBALS["fn"] = glob
    ff, fp, fc = tu.func("dt_strfdt"), tu.func("dt_strpdt"), tu.func("dt_dtconv")
    tabs = {}
    err = {"errno": 0}
    calls = dict(LIBC)
    calls["strtol"] = _strtol
    calls["__errno_location"] = lambda: Ptr(err, "errno", None)
    # the base date (today, where a parsed text leaves fields open): none of the grid's formats leaves the year open
    base = {"typ": E["DT_YMD"], "sandwich": 1, "d.typ": E["DT_YMD"], "d.ymd.y": 2001, "d.ymd.m": 1, "d.ymd.d": 1,
            "t.typ": E["DT_HMS"], "t.hms.h": 0, "t.hms.m": 0, "t.hms.s": 0, "t.hms.ns": 0}
    calls["dt_get_base"] = lambda: dict(base)
    calls["dt_get_dbase"] = lambda: {"typ": E["DT_YMD"], "ymd.y": 2001, "ymd.m": 1, "ymd.d": 1}
    bad = {}
    n = 0
    pts = _G["pts"]
    for i in idx:
        p = pts[i]
        val = {"typ": E["DT_YMD"], "sandwich": 1, "d.typ": E["DT_YMD"], "d.ymd.y": p.year, "d.ymd.m": p.month, "d.ymd.d": p.day,
               "t.typ": E["DT_HMS"], "t.hms.h": p.hour, "t.hms.m": p.minute, "t.hms.s": p.second, "t.hms.ns": 0}
        for items in FORMATS:
            fmt = "".join(items) if items is not None else None
            key = fmt or "(no format)"
            buf = [0] * 96
            fo = fold.Folder(ff, calls=calls, inline=True, max_steps=3000000)
            fo._tabs = tabs
            try:
                r = fo.run([CPtr(buf, 0), 96, cstr(fmt) if fmt is not None else 0, dict(val)])
            except fold.Abort as e:
                bad.setdefault(key, []).append((p.isoformat(), "print", "abort: %s" % e, ""))
                continue
            text = bytes(buf[:r]).decode("latin-1") if isinstance(r, int) and 0 <= r <= 96 else None
            exp = _expect(items if items is not None else ["%F", "T", "%T"], p)
            n += 1
            if text != exp:
                bad.setdefault(key, []).append((p.isoformat(), "print", repr(text), repr(exp)))
                continue
            frame = {"ep": 0}
            fo = fold.Folder(fp, calls=calls, inline=True, max_steps=3000000)
            fo._tabs = tabs
            try:
                pv = fo.run([cstr(text), cstr(fmt) if fmt is not None else 0, Ptr(frame, "ep", None)])
                if isinstance(pv, dict) and (pv.get("d.typ") not in (None, 0, E["DT_YMD"]) or pv.get("typ") not in (None, 0, E["DT_YMD"])):
                    fo = fold.Folder(fc, calls=calls, inline=True, max_steps=3000000)
                    fo._tabs = tabs
                    pv = fo.run([E["DT_YMD"], pv])
            except fold.Abort as e:
                bad.setdefault(key, []).append((p.isoformat(), "parse", "abort: %s" % e, text))
                continue
            n += 1
            pv = pv if isinstance(pv, dict) else {}
            got = (pv.get("d.ymd.y"), pv.get("d.ymd.m"), pv.get("d.ymd.d"), pv.get("t.hms.h"), pv.get("t.hms.m"), pv.get("t.hms.s"))
            ep = frame["ep"]
            consumed = ep.off if isinstance(ep, CPtr) else None
            if got != (p.year, p.month, p.day, p.hour, p.minute, p.second) or consumed != len(text):
                bad.setdefault(key, []).append((p.isoformat(), "parse", "%s (%s of %d characters read)" % (got, consumed, len(text)), repr(text)))
        # the same instant shown in a zone (what the zone conversion of the output side leaves: the local date-time and the offset
        # in quarter hours): the epoch seconds are those of the instant, the clock time is the zone's
        for q in (8, -20, 22):
            loc = p + datetime.timedelta(seconds=900 * q)
            if not (1601 < loc.year < 4095):
                continue
            zval = {"typ": E["DT_YMD"], "sandwich": 1, "d.typ": E["DT_YMD"], "d.ymd.y": loc.year, "d.ymd.m": loc.month, "d.ymd.d": loc.day,
                    "t.typ": E["DT_HMS"], "t.hms.h": loc.hour, "t.hms.m": loc.minute, "t.hms.s": loc.second, "t.hms.ns": 0,
                    "zdiff": abs(q), "neg": 1 if q < 0 else 0}
            key = "%s %T (shown in a zone)"
            buf = [0] * 96
            fo = fold.Folder(ff, calls=calls, inline=True, max_steps=3000000)
            fo._tabs = tabs
            n += 1
            try:
                r = fo.run([CPtr(buf, 0), 96, cstr("%s %T"), dict(zval)])
                text = bytes(buf[:r]).decode("latin-1") if isinstance(r, int) and 0 <= r <= 96 else None
            except fold.Abort as e:
                text = "abort: %s" % e
            exp = "%d %02d:%02d:%02d" % (int((p - EPOCH).total_seconds()), loc.hour, loc.minute, loc.second)
            if text != exp:
                bad.setdefault(key, []).append((p.isoformat() + " UTC at %+d min" % (15 * q), "print", repr(text), repr(exp)))
    return n, bad


def run_parallel(R, P, rule, jobs=12):
    import multiprocessing as mp
    tu = P.tu("libdut_a-dt-core.o")
    libs = [tu, P.tu("libdut_a-date-core.o"), P.tu("libdut_a-time-core.o"), P.tu("libdut_a-strops.o"), P.tu("libdut_a-token.o"),
            P.tu("libdut_a-dt-locale.o")]
    for f in ("dt_strfdt", "dt_strpdt", "dt_dtconv"):
        if tu.func(f) is None:
            raise AnalysisBroken("%s vanished" % f)
        R.saw(tu.func(f))

    def resolve(name):
        for l in libs:
            f = l.func(name)
            if f is not None and getattr(f, "body", None) is not None:
                return f
        return None

    def glob(name):
        for l in libs:
            g = l.global_var(name)
            if g is not None and (g.get("init") is not None or "val" in g):
                return g
        return None
    E = {k: tu.enum_value(k) for k in ("DT_YMD", "DT_HMS")}
    pts = _points()
    _G.update(tu=tu, resolve=resolve, glob=glob, E=E, pts=pts)
    chunks = [c for c in (list(range(i, len(pts), jobs)) for i in range(jobs)) if c]
    try:
        with mp.get_context("fork").Pool(len(chunks)) as pool:
            parts = pool.map(_worker, chunks)
    except NotConst as e:
        raise AnalysisBroken("%s: printing / parsing of date-times left the foldable fragment (%s)" % (rule, e))
    n = 0
    bad = {}
    for k, b in parts:
        n += k
        for key, lst in b.items():
            bad.setdefault(key, []).extend(lst)
    for items in FORMATS + [["%s %T (shown in a zone)"]]:
        key = "".join(items) if items is not None else "(no format)"
        if key in bad:
            lst = sorted(bad[key])
            t, what, got, exp = lst[0]
            if what == "print":
                R.finding(rule, tu.func("dt_strfdt"), "format `%s`, printed" % key, "%d date-times of the grid print wrongly; first: %s prints %s, "
                          "it should read %s" % (len(lst), t, got, exp))
            else:
                R.finding(rule, tu.func("dt_strpdt"), "format `%s`, parsed back" % key, "%d date-times of the grid do not come back; first: %s "
                          "printed as %s parses to %s" % (len(lst), t, exp, got))
        else:
            R.ob(rule, "format `%s`: the right text for every date-time of the grid (%d), and parsing it returns the date-time" % (key, len(pts)), True)
    return n
