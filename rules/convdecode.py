"""RF2-conv: the calendar converters and getters decoded over year classes.

Inside one year, what a converter from year-month-day computes depends on the year only through the weekday of 1 January, through
whether the year is a leap year, and -- for the ISO week of the first days of January -- through whether the year before is one.
That makes 21 year classes.  For one representative year of each class (taken from the supported range, century years included)
every converter and getter is folded (rules/fold.py, calls of the unit's own helpers folded too, tables read from their
initialisers) for each of its 365 / 366 days and compared with the proleptic Gregorian calendar / ISO 8601; the way back
(year-day, week date, month-count-weekday -> year-month-day) is folded on the values the way out produced and must return the day
it started from.  The year-level inputs themselves -- weekday of 1 January, leap rule, day number of 1 January for all 2,495
years -- are decided by the table rules of C01, so together this covers every day of the range, not a sample of it."""
import datetime
from core import AnalysisBroken, NotConst
import fold


def _leap(y):
    return int(y % 4 == 0 and (y % 100 != 0 or y % 400 == 0))


def class_years(lo=1601, hi=4095):
    """one representative year per (weekday of 1 January, leap, previous year leap) class, plus the two ends of the range"""
    seen = {}
    for y in list(range(1917, hi + 1)) + list(range(lo, 1917)):
        if y == lo:
            continue            # the year before the first has no representation
        k = (datetime.date(y, 1, 1).isoweekday() if y <= 9999 else 0, _leap(y), _leap(y - 1))
        seen.setdefault(k, y)
    return sorted(seen.values())


def _wcnt_mon(d):
    return (d.day - 1) // 7 + 1


_G = {}


def _sweep_worker(ys):
    """converters from a day number estimate the year from the day count: swept over every year of the range"""
    import core
    tu = _G["tu"]
    tabs = {}

    def call(name, *args):
        fo = fold.Folder(tu.func(name), calls={}, inline=True, max_steps=400000)
        fo._tabs = tabs
        return fo.run(list(args))
    bad = {}
    n = 0
    for y in ys:
        for (m, dd) in ((1, 1), (2, 28), (7, 1), (12, 31)):
            d = datetime.date(y, m, dd)
            iy, iw, iwd = d.isocalendar()
            yday = d.timetuple().tm_yday
            dz = call("__ymd_to_daisy", {"y": y, "m": m, "d": dd})
            n += 1
            if not isinstance(dz, int) or dz - _G["dz0"] != d.toordinal() - datetime.date(1917, 1, 1).toordinal():
                bad.setdefault("__ymd_to_daisy", []).append((d.isoformat(), "day number", "%s days after 1917-01-01" % (dz - _G["dz0"] if isinstance(dz, int) else dz),
                                                             str(d.toordinal() - datetime.date(1917, 1, 1).toordinal())))
            for name, fields, exp in (("__daisy_to_ymd", ("y", "m", "d"), (y, m, dd)), ("__daisy_to_yd", ("y", "d"), (y, yday)),
                                      ("__daisy_to_ywd", ("y", "c", "w"), (iy, iw, iwd)), ("__daisy_to_ymcw", ("y", "m", "c", "w"), (y, m, _wcnt_mon(d), iwd))):
                r = call(name, dz)
                n += 1
                got = tuple(r.get(f_) for f_ in fields) if isinstance(r, dict) else None
                if got != exp:
                    bad.setdefault(name, []).append((d.isoformat(), "from the day number", str(got), str(exp)))
    return n, bad


def run_sweep(R, tu, rule, lo=1602, hi=4093, jobs=12):
    """hi = 4093: the last 606 days of the range are the known finding D21 (RF2-range)"""
    import multiprocessing as mp
    fo = fold.Folder(tu.func("__ymd_to_daisy"), calls={}, inline=True, max_steps=400000)
    _G.update(tu=tu, dz0=fo.run([{"y": 1917, "m": 1, "d": 1}]))
    years = list(range(lo, hi + 1))
    chunks = [years[i::jobs] for i in range(jobs)]
    ctx = mp.get_context("fork")
    with ctx.Pool(jobs) as pool:
        parts = pool.map(_sweep_worker, chunks)
    n = 0
    bad = {}
    for k, b in parts:
        n += k
        for name, lst in b.items():
            bad.setdefault(name, []).extend(lst)
    for name in ("__ymd_to_daisy", "__daisy_to_ymd", "__daisy_to_yd", "__daisy_to_ywd", "__daisy_to_ymcw"):
        f = tu.func(name)
        R.saw(f)
        if name in bad:
            day, what, got, exp = sorted(bad[name])[0]
            R.finding(rule, f, "%s swept over the years %d..%d" % (name, lo, hi), "%d of the swept days convert wrongly from their day number; first: "
                      "%s gives %s, the calendar says %s" % (len(bad[name]), day, got, exp))
        else:
            R.ob(rule, "%s: right on 1 January, 28 February, 1 July and 31 December of every year %d..%d" % (name, lo, hi), True)
    return n


def _worker(ys):
    import core
    R2 = core.Report("worker")
    n = run(R2, _G["tu"], _G["rule"], years=ys, quick=_G["quick"], _collect=True)
    return n, R2._conv_bad


def run_parallel(R, tu, rule, quick=True, jobs=8):
    """the class years are independent: fold them in forked workers and merge"""
    import multiprocessing as mp
    years = class_years()
    _G.update(tu=tu, rule=rule, quick=quick)
    chunks = [years[i::jobs] for i in range(jobs)]
    chunks = [c for c in chunks if c]
    try:
        ctx = mp.get_context("fork")
        with ctx.Pool(len(chunks)) as pool:
            parts = pool.map(_worker, chunks)
    except (OSError, ValueError):
        parts = [_worker(c) for c in chunks]
    n = 0
    bad = {}
    for k, b in parts:
        n += k
        for name, lst in b.items():
            bad.setdefault(name, []).extend(lst)
    _report(R, tu, rule, bad, len(years))
    return n


def _report(R, tu, rule, bad, nyears):
    for name in NAMES:
        f = tu.func(name)
        R.saw(f)
        if name in bad:
            day, what, got, exp = sorted(bad[name])[0]
            R.finding(rule, f, "%s decoded over the year classes" % name, "%d results differ from the calendar; first: %s, %s: %s where the "
                      "calendar says %s" % (len(bad[name]), day, what, got, exp))
        else:
            R.ob(rule, "%s agrees with the calendar on every day of %d class years" % (name, nyears), True)


NAMES = ("__ymd_to_yd", "__ymd_to_ywd", "__ymd_to_ymcw", "__ymd_to_daisy", "__yd_to_ymd", "__ywd_to_ymd", "__ymcw_to_ymd",
         "__ymd_get_wday", "__ymd_get_yday", "__ymd_get_count", "__yd_to_ywd", "__ywd_to_yd", "__yd_to_ymcw", "__ymcw_to_yd",
         "__ywd_to_ymcw", "__ymcw_to_ywd", "__daisy_to_ymd", "__daisy_to_yd", "__daisy_to_ywd", "__daisy_to_ymcw")


def run(R, tu, rule, years=None, quick=True, _collect=False):
    F = {n: tu.func(n) for n in NAMES}
    missing = [n for n, f in F.items() if f is None or getattr(f, "body", None) is None]
    if missing:
        raise AnalysisBroken("%s: converters vanished: %s" % (rule, missing))
    for f in F.values():
        R.saw(f)
    tabs = {}

    def call(name, *args):
        fo = fold.Folder(F[name], calls={}, inline=True, max_steps=400000)
        fo._tabs = tabs
        return fo.run(list(args))
    years = years or class_years()
    bad = {}
    n = 0

    def expect(name, what, got, exp, day):
        nonlocal n
        n += 1
        if got != exp:
            bad.setdefault(name, []).append((day.isoformat(), what, str(got), str(exp)))
    try:
        for y in years:
            d = datetime.date(y, 1, 1)
            base = call("__ymd_to_daisy", {"y": y, "m": 1, "d": 1})
            while d.year == y:
                ymd = {"y": d.year, "m": d.month, "d": d.day}
                iy, iw, iwd = d.isocalendar()
                yday = d.timetuple().tm_yday
                # the way out
                yd = call("__ymd_to_yd", ymd)
                expect("__ymd_to_yd", "year-day", (yd.get("y"), yd.get("d")), (y, yday), d)
                ywd = call("__ymd_to_ywd", ymd)
                expect("__ymd_to_ywd", "ISO week date", (ywd.get("y"), ywd.get("c"), ywd.get("w")), (iy, iw, iwd), d)
                ymcw = call("__ymd_to_ymcw", ymd)
                expect("__ymd_to_ymcw", "n-th weekday of the month", (ymcw.get("y"), ymcw.get("m"), ymcw.get("c"), ymcw.get("w")), (y, d.month, _wcnt_mon(d), iwd), d)
                dz = call("__ymd_to_daisy", ymd)
                expect("__ymd_to_daisy", "day number relative to 1 January", dz - base, yday - 1, d)
                expect("__ymd_get_wday", "weekday", call("__ymd_get_wday", ymd), iwd, d)
                expect("__ymd_get_yday", "day of the year", call("__ymd_get_yday", ymd), yday, d)
                expect("__ymd_get_count", "occurrence of the weekday in the month", call("__ymd_get_count", ymd), _wcnt_mon(d), d)
                # the way back, and the ways across
                want = (y, d.month, d.day)
                for name, src in (("__yd_to_ymd", yd), ("__ywd_to_ymd", ywd), ("__ymcw_to_ymd", ymcw), ("__daisy_to_ymd", dz)):
                    r = call(name, src)
                    expect(name, "back to year-month-day", (r.get("y"), r.get("m"), r.get("d")), want, d)
                if not quick or d.day <= 7 or d.month in (1, 2, 12) or d.day >= 25:
                    for name, src, fields, exp in (
                            ("__yd_to_ywd", yd, ("y", "c", "w"), (iy, iw, iwd)), ("__ywd_to_yd", ywd, ("y", "d"), (y, yday)),
                            ("__yd_to_ymcw", yd, ("y", "m", "c", "w"), (y, d.month, _wcnt_mon(d), iwd)), ("__ymcw_to_yd", ymcw, ("y", "d"), (y, yday)),
                            ("__ywd_to_ymcw", ywd, ("y", "m", "c", "w"), (y, d.month, _wcnt_mon(d), iwd)), ("__ymcw_to_ywd", ymcw, ("y", "c", "w"), (iy, iw, iwd)),
                            ("__daisy_to_yd", dz, ("y", "d"), (y, yday)), ("__daisy_to_ywd", dz, ("y", "c", "w"), (iy, iw, iwd)),
                            ("__daisy_to_ymcw", dz, ("y", "m", "c", "w"), (y, d.month, _wcnt_mon(d), iwd))):
                        r = call(name, src)
                        expect(name, "across", tuple(r.get(f_) for f_ in fields), exp, d)
                d += datetime.timedelta(days=1)
    except NotConst as e:
        raise AnalysisBroken("%s: a converter left the foldable fragment (%s)" % (rule, e))
    except fold.Abort as e:
        raise AnalysisBroken("%s: a converter aborts on a valid date (%s)" % (rule, e))
    if _collect:
        R._conv_bad = bad
        return n
    _report(R, tu, rule, bad, len(years))
    return n
