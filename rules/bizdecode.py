"""RF2-biz: business-day dates (year, month, n-th Monday-to-Friday day of the month) decoded.

For every month of one representative year of each of the 21 year classes and every n from 1 to the number of Monday-to-Friday
days of that month, the getters and converters of lib/bizda.c are folded as they stand (rules/fold.py; the packed per-weekday
tables of __bizda_get_yday are read through their union views) and compared with the calendar: the day of the month, the weekday,
the business day of the year, and the conversions to a day number, to a week date and to year-month-day must all denote the n-th
Monday-to-Friday day of that month; the business-day adder must land on the business day that many Monday-to-Friday days away."""
import datetime
from core import AnalysisBroken, NotConst
import fold
import convdecode

_G = {}
HANG = {1: 0, 2: -1, 3: -2, 4: -3, 5: 3, 6: 2, 7: 1}


def _bdays(y, m):
    d = datetime.date(y, m, 1)
    out = []
    while d.month == m:
        if d.isoweekday() <= 5:
            out.append(d)
        d += datetime.timedelta(days=1)
    return out


def _worker(ys):
    tu = _G["tu"]
    tabs = {}
    P0 = {"ab": 0, "ref": 0}

    def call(name, *args):
        fo = fold.Folder(tu.func(name), calls={}, inline=True, max_steps=400000)
        fo._tabs = tabs
        return fo.run([dict(a) if isinstance(a, dict) else a for a in args])
    bad = {}
    n = 0

    def cmp(name, what, got, exp):
        nonlocal n
        n += 1
        if got != exp:
            bad.setdefault(name, []).append((what, str(got), str(exp)))
    for y in ys:
        ybd = 0
        allb = [b for m in range(1, 13) for b in _bdays(y, m)]
        prevb = [b for m in range(1, 13) for b in _bdays(y - 1, m)] if y > 1602 else []
        all3 = prevb + allb + ([b for m in range(1, 13) for b in _bdays(y + 1, m)] if y < 4094 else [])
        for m in range(1, 13):
            days = _bdays(y, m)
            for i, d in enumerate(days, 1):
                ybd += 1
                biz = {"y": y, "m": m, "bd": i}
                what = "%04d-%02d-%02db" % (y, m, i)
                iy, iw, iwd = d.isocalendar()
                try:
                    cmp("__bizda_get_mday", what, call("__bizda_get_mday", biz), d.day)
                    cmp("__bizda_get_wday", what, call("__bizda_get_wday", biz), iwd)
                    cmp("__bizda_get_yday", what, call("__bizda_get_yday", biz, P0), ybd)
                    r = call("__bizda_to_ymd", biz)
                    cmp("__bizda_to_ymd", what, (r.get("y"), r.get("m"), r.get("d")) if isinstance(r, dict) else r, (y, m, d.day))
                    dz = call("__bizda_to_daisy", biz, P0)
                    r = call("__daisy_to_ymd", dz)
                    cmp("__bizda_to_daisy", what, (r.get("y"), r.get("m"), r.get("d")) if isinstance(r, dict) else r, (y, m, d.day))
                    r = call("__bizda_to_ywd", biz, P0)
                    cmp("__bizda_to_ywd", what, tuple(r.get(k) for k in ("y", "c", "w", "hang")) if isinstance(r, dict) else r,
                        (iy, iw, iwd, HANG[datetime.date(iy, 1, 1).isoweekday()]))
                    # the adder, also across the ends of the year (the carry into the neighbouring year is the adder's own)
                    if i in (1, 2, len(days) - 1, len(days)) or d.day in (14, 15):
                        for k in (-ybd + 1, -ybd, -ybd - 3, -45, -23, -22, -21, -20, -6, -5, -1, 0, 1, 4, 5, 19, 20, 21, 22, 23, 24, 46,
                                  len(allb) - ybd, len(allb) - ybd + 1, len(allb) - ybd + 12):
                            j = len(prevb) + ybd - 1 + k
                            if not (0 <= j < len(all3)):
                                continue
                            e = all3[j]
                            r = call("__bizda_add_b", biz, k)
                            cmp("__bizda_add_b", "%s %+db" % (what, k), (r.get("y"), r.get("m"), r.get("bd")) if isinstance(r, dict) else r,
                                (e.year, e.month, _bdays(e.year, e.month).index(e) + 1))
                    # calendar days and weeks added to a business-day date: where the day that many days on is a business day, that day
                    if i in (1, len(days)) or d.day in (14, 15):
                        for fn_, mult, cnts in (("__bizda_add_d", 1, (-400, -70, -14, -8, -7, -1, 1, 6, 7, 14, 21, 70, 400)), ("__bizda_add_w", 7, (-60, -2, -1, 1, 2, 3, 60))):
                            for k in cnts:
                                e = d + datetime.timedelta(days=k * mult)
                                if e.isoweekday() > 5 or not (1602 <= e.year <= 4094):
                                    continue
                                r = call(fn_, biz, k)
                                cmp(fn_, "%s %+d%s" % (what, k, "d" if mult == 1 else "w"), (r.get("y"), r.get("m"), r.get("bd")) if isinstance(r, dict) else r,
                                    (e.year, e.month, _bdays(e.year, e.month).index(e) + 1))
                except fold.Abort as e:
                    bad.setdefault("__bizda_get_yday", []).append((what, "abort: %s" % e, ""))
    return n, bad


FUNCS = ("__bizda_get_mday", "__bizda_get_wday", "__bizda_get_yday", "__bizda_to_ymd", "__bizda_to_daisy", "__bizda_to_ywd", "__bizda_add_b",
         "__bizda_add_d", "__bizda_add_w")


def run_parallel(R, tu, rule, jobs=12, only=None):
    import multiprocessing as mp
    for f in FUNCS + ("__daisy_to_ymd",):
        if tu.func(f) is None or getattr(tu.func(f), "body", None) is None:
            raise AnalysisBroken("%s: %s vanished" % (rule, f))
        R.saw(tu.func(f))
    years = convdecode.class_years()
    _G.update(tu=tu)
    chunks = [c for c in (years[i::jobs] for i in range(jobs)) if c]
    try:
        ctx = mp.get_context("fork")
        with ctx.Pool(len(chunks)) as pool:
            parts = pool.map(_worker, chunks)
    except NotConst as e:
        raise AnalysisBroken("%s: a business-day routine left the foldable fragment (%s)" % (rule, e))
    n = 0
    bad = {}
    for k, b in parts:
        n += k
        for key, lst in b.items():
            bad.setdefault(key, []).extend(lst)
    for f in FUNCS:
        if only is not None and f not in only:
            continue
        if f in bad:
            lst = sorted(bad[f])
            what, got, exp = lst[0]
            R.finding(rule, tu.func(f), "%s decoded" % f, "%d business-day dates of the class years come out wrong; first: %s gives %s, the "
                      "calendar says %s" % (len(lst), what, got, exp))
        else:
            R.ob(rule, "%s: the calendar's answer for every business day of every month of the 21 class years" % f, True)
    return n


def run_history(R, tu, rule):
    """the same question must get the same answer whatever was asked before in the run: the month lengths in business days, the
    converters and the adder are folded for one year of each (weekday of 1 January, leap) kind -- months that begin on the same
    weekday but differ in length among them -- once each with nothing remembered, then all in a row (forwards and backwards)
    with whatever the routines keep in static storage carried along"""
    kinds = {}
    for y in range(1917, 1917 + 60):
        kinds.setdefault((datetime.date(y, 1, 1).isoweekday(), y % 4 == 0), y)
    years = sorted(kinds.values())
    P0 = {"ab": 0, "ref": 0}
    qs = []
    for y in years:
        for m in range(1, 13):
            qs.append(("__get_bdays", (y, m)))
        nb = len(_bdays(y, 2))
        for bd in (15, nb):
            biz = {"y": y, "m": 2, "bd": bd}
            qs.append(("__bizda_add_b", (biz, 10)))
            qs.append(("__bizda_to_ymd", (biz,)))
            qs.append(("__bizda_get_yday", (biz, P0)))
    tabs = {}
    for f in {q[0] for q in qs}:
        if tu.func(f) is None or getattr(tu.func(f), "body", None) is None:
            raise AnalysisBroken("%s: %s vanished" % (rule, f))

    def ask(q, st):
        fo = fold.Folder(tu.func(q[0]), calls={}, inline=True, max_steps=400000)
        fo._tabs = tabs
        fo.statics = st
        try:
            r = fo.run([dict(a) if isinstance(a, dict) else a for a in q[1]])
        except fold.Abort as e:
            return "abort: %s" % e
        return tuple(sorted(r.items())) if isinstance(r, dict) else r
    try:
        alone = [ask(q, {}) for q in qs]
        bad = []
        for order in (range(len(qs)), range(len(qs) - 1, -1, -1)):
            st = {}
            for i in order:
                got = ask(qs[i], st)
                if got != alone[i]:
                    bad.append((qs[i], got, alone[i]))
    except NotConst as e:
        raise AnalysisBroken("%s: a business-day routine left the foldable fragment (%s)" % (rule, e))
    if bad:
        q, got, exp = bad[0]
        R.finding(rule, tu.func(q[0]), "%s asked in a row" % q[0], "%d of %d questions get another answer after other questions of the same run than "
                  "alone; first: %s%s gives %s alone and %s in the row: what the routine keeps between calls is keyed too coarsely" % (
                      len(bad), 2 * len(qs), q[0], q[1], exp, got))
    else:
        R.ob(rule, "month lengths in business days, converters and adder: %d questions over %d kinds of year get the same answers in a row "
             "(forwards and backwards, static storage carried along) as alone" % (len(qs), len(years)), True)
    return 3 * len(qs)
