"""C02 — round trips; formatting independent of the internal representation.

Decided statically (tag-specialised abstract interpretation of the printers, one run per
representation that can reach them):
 RF1b-acc   every accessor the date printers call with the value handles every representation that can
            reach that call (no path into the accessor's `default:` for a reaching tag); inline
            `switch (that.typ)` in the printers likewise.
 RF1b-tag   the printers do not branch on the representation tag outside such dispatches, except for the
            listed, reasoned tests.
 RF11-fill  no print-record slot is printed while it is provably still empty for a reaching
            representation (lazy fill-in must come first, whatever the order of specifiers).
 RF1-slot   the overloaded slot `d` (day-of-month / day-of-year, tag flags.d_dcnt_p) is never
            overwritten with the other meaning while its tag still announces day-of-year.
 RF11-order every value read of the lazily filled / overloaded month and day slots in the printers comes after the
            fill-in chain of its own specifier (otherwise the text depends on the specifiers printed before).
 RF2-bom    Hijri month-begin table: strictly increasing, steps of 29/30 days, agrees with data/ummulqura.tab.
"""
import os
import re
from core import AnalysisBroken, strip, kids, const_of, call_args, expr_text, REPO, switch_handles
import absint
from absint import Interp, State, bind_args, truth

# functions that receive the print record and/or the value and are part of the printer proper
PRINTER_FUNCS = {"__strfd_card", "__strfd_rom", "__strfdt_card", "__strfd_get_md", "__strfd_get_m", "__strfd_get_d"}

# tag tests inside the printers that are accepted, with the reason (site = function + tested enumerator)
ACCEPTED_TAG_TESTS = {
    ("__strfd_card", "DT_YWD", "DT_SPFL_N_WCNT_MON"):
        "for ISO week dates the record's count slot holds the week-of-year; the week-of-month is recomputed",
}

# digit/name writers whose value argument is a print-record slot: (callee, index of the value argument)
VALUE_WRITERS = {"ui99topstr": 2, "ui999topstr": 2, "ui9999topstr": 2, "arritostr": 2, "ui32tostrrom": 2}

# print-record slots that may legitimately be zero when printed
SLOT_OK_ZERO = {"y", "q", "b"}


def _enum_map(tu, name):
    items = tu.enum_items(name)
    if items is None:
        raise AnalysisBroken("enum %s not found" % name)
    return {n: v for n, v in items}


def _field_cell(tu, recname, path):
    rec = tu.record(recname)
    if rec is None:
        raise AnalysisBroken("record %s not found" % recname)
    for p, off, w, sg in tu.flatten_record(rec):
        if p == path:
            return off, w
    raise AnalysisBroken("field %s.%s not found (layout changed)" % (recname, path))


def _is_accessor(fn, tagcell):
    """function with a by-value `struct dt_d_s` parameter that dispatches on its .typ"""
    for i, p in enumerate(fn.params):
        t = fn.tu.types[p["t"]]
        if t.get("rec") is not None and not t.get("ptr") and "dt_d_s" in t["c"]:
            return i
    return None


class Ctx:
    def __init__(self, tag, entry, chain):
        self.tag = tag          # enumerator name the run was started with
        self.entry = entry
        self.chain = chain      # call chain (function names)
        self.spec = None
        self.tag_value = None
        self.memo_key = tag


def _extend_printers(P):
    """a static helper that takes the print record and is called from the printers only is part of the printer proper"""
    changed = True
    while changed:
        changed = False
        for tn in ("date-core.c", "dt-core.c"):
            tu = P.tu(tn)
            for h in tu.funclist:
                if getattr(h, "body", None) is None or h.name in PRINTER_FUNCS:
                    continue
                if not any("strpd_s *" in (tu.types[p_["t"]].get("c") or "") or "strpdt_s *" in (tu.types[p_["t"]].get("c") or "")
                           for p_ in h.params if p_.get("t") is not None):
                    continue
                callers = [g for g in tu.funclist if getattr(g, "body", None) is not None and g is not h
                           and any(c.get("k") == "CallExpr" and c.get("callee") == h.name for c in g.walk())]
                if callers and all(g.name in PRINTER_FUNCS for g in callers):
                    PRINTER_FUNCS.add(h.name)
                    changed = True


def check(P, R, tier):
    findings = {}
    obligations = {}
    _extend_printers(P)

    def run_entry(tu_name, entry_name, enum_name, rec_name, tagpath, sdprefix):
        tu = P.tu(tu_name)
        entry = tu.func(entry_name)
        if entry is None:
            raise AnalysisBroken("%s not found in %s" % (entry_name, tu_name))
        tags = {}
        for en in enum_name.split("+"):
            for k_, v_ in _enum_map(tu, en).items():
                tags.setdefault(k_, v_)
        that = [p for p in entry.params if p["n"] == "that"]
        if not that:
            raise AnalysisBroken("%s has no parameter `that`" % entry_name)
        that = that[0]
        toff, tw = _field_cell(tu, rec_name, tagpath)
        d_typ_off, d_typ_w = _field_cell(tu, "dt_d_s", "typ")
        sd_d = _field_cell(tu, "strpd_s", "d")
        sd_dcnt = _field_cell(tu, "strpd_s", "flags.d_dcnt_p")
        slots = {}
        for nm in ("y", "m", "d", "c", "w", "q", "b"):
            slots[_field_cell(tu, "strpd_s", nm)] = nm
        ret_tag = {"dt_dconv": (0, d_typ_off, d_typ_w), "dt_dtconv": (0, toff, tw)}
        reach = {}   # tag name -> set of tags of `that` observed at printer calls

        def tag_name(v):
            for n, x in tags.items():
                if x == v and not n.startswith("DT_N") and n not in ("DT_PACK",):
                    return n
            return None

        def handles(I, fn, pidx, tagval, chain, depth=0):
            """does accessor fn reach a `default:` of a switch over its record parameter's tag for this tag value?"""
            p = fn.params[pidx]
            st0 = State()
            st0.set((p["d"], d_typ_off, d_typ_w), tagval)
            bad = []

            def on_block(I2, f2, b, st, ctx):
                blk = f2.cfg.blocks[b]
                if blk.get("tk") != "SwitchStmt" or blk.get("term") is None:
                    return
                sw = f2.nodes.get(blk["term"])
                if sw is None or I2.loc_of(f2, sw["c"][0]) != (p["d"], d_typ_off, d_typ_w):
                    return
                v = st.get((p["d"], d_typ_off, d_typ_w))
                if isinstance(v, int) and not switch_handles(sw, v):
                    bad.append(sw)

            def on_call(I2, f2, n, st, ctx, dep):
                cal = f2.tu.functions.get(n.get("callee") or "")
                if cal is None or cal is f2 or dep > 3:
                    return
                ai = _is_accessor(cal, None)
                if ai is None or ai >= len(call_args(n)):
                    return
                loc = I2.loc_of(f2, call_args(n)[ai])
                if loc is None or loc[0] != p["d"] or loc[1] != 0:
                    return
                tv = st.get((p["d"], d_typ_off, d_typ_w))
                if isinstance(tv, int):
                    sub = handles(I, cal, ai, tv, chain + [f2.name], depth + 1)
                    if sub:
                        bad.extend(sub)

            I2 = Interp(P, callbacks={"on_block": on_block, "on_call": on_call}, ret_tag_funcs=ret_tag)
            if depth < 3:
                I2.run(fn, st0)
            R.saw(fn)
            return bad

        def on_call(I, fn, n, st, ctx, depth):
            callee_name = n.get("callee")
            if not callee_name:
                return
            callee = fn.tu.functions.get(callee_name)
            # ---- value writers: RF11-fill
            if callee_name in VALUE_WRITERS and fn.name in PRINTER_FUNCS:
                args = call_args(n)
                vi = VALUE_WRITERS[callee_name]
                if vi < len(args):
                    pl = I._ptr_loc(fn, args[vi])
                    if pl is not None and (pl[1], pl[2]) in slots:
                        nm = slots[(pl[1], pl[2])]
                        v = st.get(pl)
                        site = "%s slot %s -> %s @%s" % (fn.name, nm, callee_name, _case_of(fn, n))
                        key = ("RF11-fill", fn.name, site)
                        if v == 0 and nm not in SLOT_OK_ZERO:
                            findings.setdefault(key, (fn, n, set()))[2].add(ctx.tag)
                        else:
                            obligations.setdefault(key, set()).add(ctx.tag)
            if callee is None:
                return
            # ---- overloaded slot `d`: RF1-slot
            if fn.name in PRINTER_FUNCS or fn is entry:
                ms = I.modsum(callee)
                for ai, a in enumerate(call_args(n)):
                    bl = I._ptr_arg(fn, a)
                    if bl is None:
                        continue
                    b, o = bl
                    writes_d = any(pi == ai and (o2, w2) == sd_d for (pi, o2, w2) in ms)
                    writes_tag = any(pi == ai and (o2, w2) == sd_dcnt for (pi, o2, w2) in ms)
                    if writes_d and fn is not entry:
                        tv = st.get((b, o + sd_dcnt[0], sd_dcnt[1]))
                        site = "%s call %s @%s" % (fn.name, callee_name, _case_of(fn, n))
                        key = ("RF1-slot", fn.name, site)
                        if truth(tv) is True and not writes_tag:
                            findings.setdefault(key, (fn, n, set()))[2].add(ctx.tag)
                        else:
                            obligations.setdefault(key, set()).add(ctx.tag)
            if callee_name in PRINTER_FUNCS:
                return   # analysed inline by the interpreter (descend)
            # ---- accessor coverage: RF1b-acc
            if fn.name in PRINTER_FUNCS:
                ai = _is_accessor(callee, None)
                if ai is not None and ai < len(call_args(n)):
                    loc = I.loc_of(fn, call_args(n)[ai])
                    if loc is None:
                        return
                    tv = st.get((loc[0], loc[1] + d_typ_off, d_typ_w))
                    site = "%s -> %s @%s" % (fn.name, callee_name, _case_of(fn, n))
                    if not isinstance(tv, int):
                        R.notes.append("tag unknown at %s (%s)" % (site, ctx.tag))
                        return
                    tn = tag_name(tv) or str(tv)
                    bad = handles(I, callee, ai, tv, ctx.chain + [fn.name])
                    key = ("RF1b-acc", fn.name, site)
                    if bad:
                        findings.setdefault(key, (fn, n, set()))[2].add(tn)
                    else:
                        obligations.setdefault(key, set()).add(tn)

        def on_block(I, fn, b, st, ctx):
            if fn.name not in PRINTER_FUNCS:
                return
            blk = fn.cfg.blocks[b]
            # inline dispatch on the tag: default reached for a reaching tag
            thatp = [p for p in fn.params if p["n"] == "that"]
            if not thatp:
                return
            tp = thatp[0]
            tcell = (tp["d"], d_typ_off, d_typ_w)
            if blk.get("tk") == "SwitchStmt" and blk.get("term") is not None:
                sw = fn.nodes.get(blk["term"])
                if sw is not None and I.loc_of(fn, sw["c"][0]) == tcell:
                    tv = st.get(tcell)
                    site = "%s inline switch(that.typ) @%s" % (fn.name, _case_of(fn, sw))
                    key = ("RF1b-acc", fn.name, site)
                    if isinstance(tv, int) and not switch_handles(sw, tv):
                        findings.setdefault(key, (fn, sw, set()))[2].add(tag_name(tv) or str(tv))
                    elif isinstance(tv, int):
                        obligations.setdefault(key, set()).add(tag_name(tv) or str(tv))
            # explicit tag tests: RF1b-tag
            if "cond" in blk and blk.get("tk") != "SwitchStmt":
                cond = strip(fn.nodes.get(blk["cond"]))
                if cond is not None and cond.get("k") == "BinaryOperator" and cond.get("op") in ("==", "!="):
                    l, r = strip(cond["c"][0]), strip(cond["c"][1])
                    for a, c in ((l, r), (r, l)):
                        if a.get("k") == "MemberExpr" and I.loc_of(fn, a) == tcell and c.get("k") == "DeclRefExpr":
                            site = "%s tests that.typ %s %s @%s" % (fn.name, cond["op"], c.get("n"), _case_of(fn, cond))
                            key = ("RF1b-tag", fn.name, site)
                            acc = ACCEPTED_TAG_TESTS.get((fn.name, c.get("n"), _case_of(fn, cond)))
                            if acc:
                                obligations.setdefault(key, set()).add(ctx.tag)
                                if ("tag test " + site + ": " + acc) not in R.exceptions:
                                    R.exceptions.append("tag test " + site + ": " + acc)
                            else:
                                findings.setdefault(key, (fn, cond, set()))[2].add(ctx.tag)

        I = Interp(P, callbacks={"on_call": on_call, "on_block": on_block}, ret_tag_funcs=ret_tag,
                   descend=lambda f_, cal_: cal_.name in PRINTER_FUNCS or cal_.name.startswith("__prep_strfd_"))

        def store_hook(f2, lhs):
            # a print-record slot filled from the value (or from a conversion of it) is non-zero for a valid date
            if lhs is not None and lhs.get("k") == "MemberExpr" and lhs.get("n") in ("y", "m", "d", "c", "w", "q", "b"):
                rec = f2.tu.recs_by_id.get(lhs.get("rec"))
                if rec is not None and (rec.get("name") == "strpd_s" or rec.get("anon")):
                    return absint.NZ
            return None
        I.store_hook = store_hook
        I.track_types = ("strpd_s", "strpdt_s", "dt_d_s", "dt_dt_s")
        nrun = 0
        for tname, tval in tags.items():
            if tname.startswith("DT_N") or tname in ("DT_PACK", "DT_UNK"):
                continue
            st0 = State()
            st0.set((that["d"], toff, tw), tval)
            ctx = Ctx(tname, entry_name, [])
            ctx.tag_value = tval
            I.run(entry, st0, 0, ctx)
            nrun += 1
        R.saw(entry)
        return nrun

    n1 = run_entry("date-core.c", "dt_strfd", "dt_dtyp_t", "dt_d_s", "typ", None)
    n2 = run_entry("dt-core.c", "dt_strfdt", "dt_dtyp_t+dt_dttyp_t", "dt_dt_s", "typ", "sd")
    R.floor("RF1b-acc", "representation runs of the printers", n1 + n2, 20)

    for key, tagset in sorted(obligations.items()):
        if key in findings:
            continue
        R.ob(key[0], key[2], True, sample={"rule": key[0], "site": key[2], "representations": sorted(t for t in tagset if t)})
    for key, (fn, n, tagset) in sorted(findings.items()):
        rule, fname, site = key
        tags_ = sorted(t for t in tagset if t)
        if rule == "RF1b-acc":
            msg = "representation(s) %s reach this dispatch but fall into its default (value silently dropped/zero)" % ", ".join(tags_)
            # one finding per (site, representation) so that known findings stay specific
            for t in tags_:
                R.finding(rule, fn, "%s [%s]" % (site, t),
                          "representation %s reaches this dispatch but falls into its default: the specifier prints nothing or 0 for it" % t, n)
            continue
        if rule == "RF11-fill":
            msg = "print-record slot is printed while provably still empty for representation(s) %s (no lazy fill-in on this path): output depends on specifier order" % ", ".join(tags_)
        elif rule == "RF1-slot":
            msg = "slot `d` is overwritten with the day-of-month while flags.d_dcnt_p still announces day-of-year (representation %s)" % ", ".join(tags_)
        else:
            msg = "printer branches on the representation tag outside an exhaustive dispatch (reached with %s)" % ", ".join(tags_)
        R.finding(rule, fn, site, msg, n)
    nacc = sum(1 for k in list(obligations) + list(findings) if k[0] == "RF1b-acc")
    R.floor("RF1b-acc", "accessor call sites in the printers", nacc, 8)
    nfill = sum(1 for k in list(obligations) + list(findings) if k[0] == "RF11-fill")
    R.floor("RF11-fill", "slot print sites", nfill, 8)

    check_bom(P, R)
    check_slot_reads(P, R)
    # RF2-acc: the values behind the accessor call sites, for the representations that reach them
    import accdecode
    sites = {}
    for key, tagset in list(obligations.items()) + [(k, v[2]) for k, v in findings.items()]:
        if key[0] != "RF1b-acc":
            continue
        m = re.match(r"(\S+) -> (\S+) @", key[2])
        if m:
            sites.setdefault(m.group(2), set()).update(t for t in tagset if t)
    import hijridecode
    nh = hijridecode.run_parallel(R, P, "RF2-hijri", jobs=14)
    R.floor("RF2-hijri", "decoded Hijri lengths / fix-ups / conversions", nh, 25000)
    import fmtdecode
    nf2 = fmtdecode.run_parallel(R, P, "RF2-fmt", every=(tier == "thorough"), jobs=14, parse=False, reprs=True)
    R.floor("RF2-fmt", "texts printed from the non-ymd representations", nf2, 20000)
    na = accdecode.run_parallel(R, P.tu("libdut_a-date-core.o"), "RF2-acc", sorted(sites.items()), jobs=12)
    R.floor("RF2-acc", "decoded accessor results at the printers' call sites", na, 50000)


FILLS = {"__strfd_get_md": {"m", "d"}, "__strfd_get_m": {"m"}, "__strfd_get_d": {"d"}}


def check_slot_reads(P, R):
    """RF11-order: the month and day slots of the print record are filled lazily, and the day slot is overloaded (day of the year
    for year-day values until the first month/day specifier overwrites it).  What a read of such a slot yields therefore depends on
    the specifiers printed before -- unless the read comes after the lazy fill-in chain of its own specifier.  Every value read of
    `d->m` / `d->d` in the printers must be preceded, in its own case, by the if-chain that calls the fill functions."""
    from core import walk
    rule = "RF11-order"
    tu = P.tu("libdut_a-date-core.o")
    n = 0
    # a fill-in chain that was given a name of its own: a helper whose if-chain calls the fill functions fills what they fill
    fills = dict(FILLS)
    for h in tu.funclist:
        if getattr(h, "body", None) is None or h.name in fills or h.name in ("__strfd_card", "__strfd_rom"):
            continue
        got = set()
        for y in h.walk():
            if y.get("k") == "IfStmt":
                for z in walk(y):
                    if z.get("k") == "CallExpr" and z.get("callee") in FILLS:
                        got |= FILLS[z["callee"]]
        if got and len(list(h.walk())) < 120:
            fills[h.name] = got
    for fname in ("__strfd_card", "__strfd_rom"):
        fn = tu.func(fname)
        if fn is None:
            raise AnalysisBroken("%s vanished" % fname)
        rec = [p_ for p_ in fn.params if "strpd_s" in (fn.tu.types[p_["t"]].get("s") or "")]
        if len(rec) != 1:
            raise AnalysisBroken("%s: print-record parameter not found" % fname)
        recd = rec[0]["d"]
        for x in fn.walk():
            if x.get("k") != "MemberExpr" or x.get("n") not in ("m", "d"):
                continue
            from core import member_path
            b, path = member_path(x)
            if b is None or b.get("k") != "DeclRefExpr" or b.get("d") != recd or path != [x["n"]]:
                continue
            slot = x["n"]
            # not a value read: assignment target, or part of a fill test
            par = fn.parent(x)
            while par is not None and par.get("k") in ("ImplicitCastExpr", "ParenExpr", "CStyleCastExpr"):
                par = fn.parent(par)
            if par is not None and par.get("k") == "BinaryOperator" and par.get("op") == "=" and any(y is x for y in walk(par["c"][0])):
                continue
            anc, child, in_test = fn.parent(x), x, False
            while anc is not None:
                if anc.get("k") == "IfStmt" and any(y is x for y in walk(anc["c"][0])):
                    if any(y.get("k") == "CallExpr" and y.get("callee") in FILLS for y in walk(anc)):
                        in_test = True
                        break
                anc = fn.parent(anc)
            if in_test:
                continue
            n += 1
            # an earlier statement of an enclosing block holds the fill chain for this slot
            ok = False
            child, anc = x, fn.parent(x)
            while anc is not None and not ok:
                sibs = []
                if anc.get("k") == "CompoundStmt":
                    gp = fn.parent(anc)
                    if gp is not None and gp.get("k") == "SwitchStmt":
                        # the statements of the case the read belongs to (clang nests only the first statement under the label)
                        from core import switch_cases
                        for g in switch_cases(gp):
                            if any(sb is child or any(y is child for y in walk(sb)) for sb in g["stmts"]):
                                sibs = g["stmts"]
                    else:
                        sibs = kids(anc)
                for sb in sibs:
                    if sb is child or any(y is child for y in walk(sb)):
                        break
                    if sb.get("k") == "IfStmt" and any(y.get("k") == "CallExpr" and slot in FILLS.get(y.get("callee"), ()) for y in walk(sb)):
                        ok = True
                        break
                    sb0 = strip(sb)
                    if sb0 is not None and sb0.get("k") == "CallExpr" and sb0.get("callee") not in FILLS and slot in fills.get(sb0.get("callee"), ()):
                        ok = True
                        break
                child, anc = anc, fn.parent(anc)
            site = "%s: read of d->%s" % (fname, slot)
            if ok:
                R.ob(rule, "%s at %s follows the fill-in chain of its specifier" % (site, fn.where(x)), True)
            else:
                R.finding(rule, fn, "%s in `%s`" % (site, expr_text(fn.parent(x))[:40]), "the %s slot of the print record is read without the "
                          "lazy fill-in chain of this specifier before it: what it holds depends on the specifiers printed earlier (for a "
                          "year-day value the day slot is the day of the year until a month/day specifier overwrites it)" %
                          ("day" if slot == "d" else "month"), x)
    R.floor(rule, "value reads of the lazily filled slots in the printers", n, 8)


def _case_of(fn, n):
    """name of the enclosing `case DT_SPFL_*` (stable site descriptor)"""
    fn.nodes
    cur = n
    last = None
    while cur is not None:
        par = fn.parent(cur)
        if par is not None and par.get("k") == "CompoundStmt":
            gp = fn.parent(par)
            if gp is not None and gp.get("k") == "SwitchStmt":
                # find the label group preceding `cur` in this compound
                lab = None
                for s in kids(par):
                    x = s
                    while x is not None and x.get("k") in ("CaseStmt", "DefaultStmt"):
                        if x.get("k") == "CaseStmt" and (x.get("en") or "").startswith("DT_SPFL"):
                            lab = x.get("en")
                        elif x.get("k") == "DefaultStmt":
                            pass
                        if x is cur:
                            break
                        x = kids(x)[-1] if kids(x) else None
                    if s is cur or _contains(s, cur):
                        break
                if lab:
                    return lab
        if cur.get("k") == "CaseStmt" and (cur.get("en") or "").startswith("DT_SPFL"):
            return cur["en"]
        cur = par
    return "?"


def _contains(a, b):
    from core import walk
    for x in walk(a):
        if x is b:
            return True
    return False


def check_bom(P, R):
    tu = P.tu("date-core.c")
    g = tu.global_var("_bom")
    from core import global_value
    bom2 = global_value(tu, "_bom")
    if g is None or not isinstance(bom2, list) or not bom2:
        raise AnalysisBroken("RF2-bom: table _bom not found / not constant-evaluable")
    bom = [c for row in bom2 for c in row]
    # source table
    path = os.path.join(REPO, "data", "ummulqura.tab")
    if not os.path.exists(path):
        raise AnalysisBroken("data/ummulqura.tab missing")
    src = [int(x) for x in re.findall(r"\b(\d+)\s*,", open(path).read())]
    R.floor("RF2-bom", "entries of _bom", len(bom), 100)
    bad = None
    for i in range(1, len(bom)):
        step = bom[i] - bom[i - 1]
        if step not in (29, 30):
            bad = (i, step)
            break
    if bad:
        R.finding("RF2-bom", None, "_bom[%d]" % bad[0], "consecutive Hijri month begins differ by %d days (must be 29 or 30)" % bad[1],
                  file="lib/ummulqura.c", line=g.get("line"))
    else:
        R.ob("RF2-bom", "_bom steps 29/30 x%d" % (len(bom) - 1), True)
    if src:
        if src[:len(bom)] != bom[:len(src)] or len(src) != len(bom):
            R.finding("RF2-bom", None, "_bom vs data/ummulqura.tab", "compiled table differs from the shipped source table",
                      file="lib/ummulqura.c", line=g.get("line"))
        else:
            R.ob("RF2-bom", "_bom == data/ummulqura.tab (%d cells)" % len(bom), True,
                 sample={"rule": "RF2-bom", "cells": len(bom), "first": bom[:3], "last": bom[-3:]})


LEVEL = ("Tag-specialised abstract interpretation of the two date printers (dt_strfd, dt_strfdt and the helpers they "
         "hand the print record to), once per representation tag, over the real CFGs with cells addressed by record "
         "layout: decides which representation reaches which accessor/dispatch/slot print on any format string. "
         "Decides the structural necessary conditions of `formatting is representation-independent` (dispatch coverage, "
         "lazy fill-in before print, overloaded-slot discipline) and the integrity of the Hijri table; does NOT decide "
         "that conversions/round trips are arithmetically right.")
RULE = ("obligation = (rule, site) pair decided for the set of reaching representations: RF1b-acc accessor call or inline "
        "tag switch; RF1b-tag explicit tag test in a printer; RF11-fill print of a record slot; RF1-slot write of the "
        "overloaded slot d; RF2-bom table relations")
ASSUME = ["the print record starts zeroed (`struct strpd_s d = {0}` is checked by the interpreter, not assumed)",
          "callee effects on the record are summarised flow-insensitively (may-write sets)",
          "accessors signal `not handled' by their default branch (the repository's convention)"]
