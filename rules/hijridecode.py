"""RF2-hijri: the Umm-al-Qura calendar decoded over its whole table.

The month-begin table (checked against data/ummulqura.tab by RF2-bom) fixes, for every Hijri month in range, its first day as a
Lilian day number and its length (the distance to the next begin).  For every month of the table and its first, second, 29th and
last day, the routines of lib/ummulqura.c and the conversion / fix-up dispatch of lib/date-core.c are folded as they stand
(rules/fold.py): the month length helper, the fix-up (a valid day is left alone, day 30 / 31 is clamped to the month's own
length), the conversion to year-month-day (the table holds Lilian day numbers counted from 1582-10-15, the project's reference date; computed independently) and back (the original Hijri date),
so that consecutive days map to consecutive dates across every month boundary."""
import datetime
from core import AnalysisBroken, NotConst
import fold

_G = {}
LILIAN0 = datetime.date(1582, 10, 15)      # the project's Lilian day numbers count from the reference date (info/dateutils.texi): day 0
FUNCS = ("__get_mdays_hijri", "__ummulqura_fixup", "dt_dfixup", "dt_dconv")


def _worker(rows):
    tu, E, bom, base = _G["tu"], _G["E"], _G["bom"], _G["base"]
    tabs = {}

    def call(name, *args):
        fo = fold.Folder(tu.func(name), calls={}, inline=True, max_steps=400000)
        fo._tabs = tabs
        return fo.run([dict(a) if isinstance(a, dict) else a for a in args])
    bad = {}
    n = 0

    def cmp(name, what, got, exp):
        nonlocal n
        n += 1
        if got != exp:
            bad.setdefault(name, []).append((what, str(got), str(exp)))
    flat = [b for row in bom for b in row]
    for yi in rows:
        for mi in range(12):
            k = yi * 12 + mi
            if k + 1 >= len(flat):
                continue
            y, m, L = base + yi, mi + 1, flat[k + 1] - flat[k]
            try:
                cmp("__get_mdays_hijri", "%d-%02d" % (y, m), call("__get_mdays_hijri", y, m), L)
                for d in (1, 2, 29, 30, 31):
                    what = "%d-%02d-%02d" % (y, m, d)
                    r = call("__ummulqura_fixup", {"y": y, "m": m, "d": d})
                    cmp("__ummulqura_fixup", what, (r.get("y"), r.get("m"), r.get("d")) if isinstance(r, dict) else r, (y, m, min(d, L)))
                    H = {"typ": E["DT_UMMULQURA"], "ummulqura.y": y, "ummulqura.m": m, "ummulqura.d": d}
                    r = call("dt_dfixup", H)
                    cmp("dt_dfixup", what, tuple(r.get("ummulqura." + f) for f in "ymd") if isinstance(r, dict) else r, (y, m, min(d, L)))
                    if d > L:
                        continue
                    g = call("dt_dconv", E["DT_YMD"], H)
                    e = LILIAN0 + datetime.timedelta(days=flat[k] + d - 1)
                    got = tuple(g.get("ymd." + f) for f in "ymd") if isinstance(g, dict) else g
                    cmp("dt_dconv", what + " to year-month-day", got, (e.year, e.month, e.day))
                    if got == (e.year, e.month, e.day):
                        h = call("dt_dconv", E["DT_UMMULQURA"], g)
                        cmp("dt_dconv", "%s (%s) back to Hijri" % (e.isoformat(), what), tuple(h.get("ummulqura." + f) for f in "ymd")
                            if isinstance(h, dict) else h, (y, m, d))
            except fold.Abort as e:
                bad.setdefault("dt_dconv", []).append(("%d-%02d" % (y, m), "abort: %s" % e, ""))
    return n, bad


def run_parallel(R, P, rule, jobs=12):
    import multiprocessing as mp
    tu = P.tu("libdut_a-date-core.o")
    for f in FUNCS:
        if tu.func(f) is None or getattr(tu.func(f), "body", None) is None:
            raise AnalysisBroken("%s: %s vanished" % (rule, f))
        R.saw(tu.func(f))
    from core import global_value
    bom = global_value(tu, "_bom")
    if not (isinstance(bom, list) and len(bom) > 100 and all(isinstance(r, list) and len(r) == 12 for r in bom)):
        raise AnalysisBroken("%s: the month-begin table _bom was not read" % rule)
    mc = tu.macro("UMMULQURA_BASE")
    try:
        base = int(mc["body"].strip("() \t"))
    except (TypeError, KeyError, ValueError):
        raise AnalysisBroken("%s: UMMULQURA_BASE not read" % rule)
    E = {k: tu.enum_value(k) for k in ("DT_UMMULQURA", "DT_YMD")}
    _G.update(tu=tu, E=E, bom=bom, base=base)
    rows = list(range(len(bom)))
    chunks = [c for c in (rows[i::jobs] for i in range(jobs)) if c]
    try:
        ctx = mp.get_context("fork")
        with ctx.Pool(len(chunks)) as pool:
            parts = pool.map(_worker, chunks)
    except NotConst as e:
        raise AnalysisBroken("%s: a Hijri routine left the foldable fragment (%s)" % (rule, e))
    n = 0
    bad = {}
    for k, b in parts:
        n += k
        for key, lst in b.items():
            bad.setdefault(key, []).extend(lst)
    # outside the table on either side: no access outside the table (the folder's arrays abort on one), and no date made up
    E2 = _G["E"]
    flat = [b for row in bom for b in row]
    for off, what in ((flat[0] - 1, "the day before the first month of the table"), (flat[0] - 20000, "1845"), (flat[-1] + 31, "a month behind the last month of the table"),
                      (flat[-1] + 20000, "2084")):
        e = LILIAN0 + datetime.timedelta(days=off)
        n += 1
        try:
            fo = fold.Folder(tu.func("dt_dconv"), calls={}, inline=True, max_steps=400000)
            h = fo.run([E2["DT_UMMULQURA"], {"typ": E2["DT_YMD"], "ymd.y": e.year, "ymd.m": e.month, "ymd.d": e.day}])
            got = tuple(h.get("ummulqura." + f_) or 0 for f_ in "ymd") if isinstance(h, dict) else h
            if got != (0, 0, 0):
                bad.setdefault("dt_dconv", []).append(("%s (%s) to Hijri" % (e.isoformat(), what), str(got), "no date (outside the table)"))
        except fold.Abort as ex:
            bad.setdefault("dt_dconv", []).append(("%s (%s) to Hijri" % (e.isoformat(), what), "reads outside the table: %s" % ex, "no date (outside the table)"))
    for f in FUNCS:
        if f in bad:
            lst = sorted(bad[f])
            what, got, exp = lst[0]
            R.finding(rule, tu.func(f), "%s decoded over the Hijri table" % f, "%d cases come out wrong; first: %s gives %s, the month-begin table "
                      "says %s" % (len(lst), what, got, exp))
        else:
            R.ob(rule, "%s: as the month-begin table says for the first, second, 29th, 30th and 31st of every Hijri month in range (%d years)"
                 % (f, len(bom)), True)
    return n
