"""RF2-mixdiff: differences of date-times whose date parts are held in different representations.

dt_dtdiff is folded for pairs of date-times (the later one earlier in the day, so that a day has to be borrowed; equal days of the
month in different months and years among them) with each operand held as year-month-day, year-day, week date, month-count-weekday
and day number (the representation produced by folding the library's converter, which C01 decides).  Which representation an
operand happens to be held in must not matter: the duration record must be the one the year-month-day pair gives (that pair is
decided by RF2-diff / RF2-out against the calendar)."""
import datetime
from core import AnalysisBroken, NotConst
import fold
import convdecode
from cmpdecode import _conv

REPR = (("DT_YMD", "ymd", None), ("DT_YD", "yd", "__ymd_to_yd"), ("DT_YWD", "ywd", "__ymd_to_ywd"), ("DT_YMCW", "ymcw", "__ymd_to_ymcw"),
        ("DT_DAISY", "daisy", "__ymd_to_daisy"))
UNITS = ("DT_DURYMD", "DT_DURYD", "DT_DURYWD", "DT_DURD")
_G = {}


def _worker(ys):
    tu, dtu, res, E = _G["tu"], _G["dtu"], _G["resolve"], _G["E"]
    fold.RESOLVE["fn"] = res
    tabs = {}

    def call(t, name, *args):
        fo = fold.Folder(t.func(name), calls={}, inline=True, max_steps=1000000)
        fo._tabs = tabs
        return fo.run(list(args))

    def held(p, tag, mem, conv):
        r = _conv(call, tu, conv, {"y": p.year, "m": p.month, "d": p.day})
        dpart = {"d." + mem: r} if not isinstance(r, dict) else {"d." + mem + "." + k: v for k, v in r.items()}
        return {"typ": E[tag], "sandwich": 1, "d.typ": E[tag], "t.typ": E["DT_HMS"], "t.hms.h": p.hour, "t.hms.m": p.minute,
                "t.hms.s": p.second, "t.hms.ns": 0, **dpart}
    bad = []
    n = 0
    for y in ys:
        A = [datetime.datetime(y, 3, 1, 1, 0, 0), datetime.datetime(y, 2, 28, 23, 30, 0), datetime.datetime(y, 12, 31, 12, 0, 0)]
        B = [datetime.datetime(y + 1, 3, 1, 0, 30, 0), datetime.datetime(y, 3, 1, 1, 0, 0), datetime.datetime(y, 4, 15, 0, 0, 10),
             datetime.datetime(y + 1, 12, 31, 11, 59, 59), datetime.datetime(y, 3, 2, 0, 59, 59), datetime.datetime(y + 1, 2, 28, 23, 29, 0)]
        for a in A:
            for b in B:
                for (p, q) in ((a, b), (b, a)):
                    for unit in UNITS:
                        base = None
                        for (t1, m1, c1) in REPR:
                            for (t2, m2, c2) in REPR:
                                if base is not None and t1 == "DT_YMD" and t2 == "DT_YMD":
                                    continue
                                try:
                                    r = call(dtu, "dt_dtdiff", E[unit], held(p, t1, m1, c1), held(q, t2, m2, c2))
                                    got = tuple(sorted((k, v) for k, v in r.items() if v not in (0, None))) if isinstance(r, dict) else r
                                except fold.Abort as ex:
                                    got = "abort: %s" % ex
                                if base is None:
                                    base = got
                                    continue
                                n += 1
                                if got != base and len(bad) < 300:
                                    bad.append((unit, p.isoformat(), q.isoformat(), t1, t2, str(got), str(base)))
                        # both instants held as epoch values: the same duration again
                        if p.year >= 1902:
                            n += 1
                            try:
                                sx = [{"typ": E["DT_SEXY"], "sandwich": 0, "sexy": int((x_ - datetime.datetime(1970, 1, 1)).total_seconds())} for x_ in (p, q)]
                                r = call(dtu, "dt_dtdiff", E[unit], sx[0], sx[1])
                                got = tuple(sorted((k, v) for k, v in r.items() if v not in (0, None))) if isinstance(r, dict) else r
                            except fold.Abort as ex:
                                got = "abort: %s" % ex
                            if got != base and len(bad) < 300:
                                bad.append((unit, p.isoformat(), q.isoformat(), "DT_SEXY", "DT_SEXY", str(got), str(base)))
    return n, bad


def run_parallel(R, P, rule, jobs=12):
    import multiprocessing as mp
    tu, dtu = P.tu("libdut_a-date-core.o"), P.tu("libdut_a-dt-core.o")
    libs = [dtu, tu, P.tu("libdut_a-time-core.o")]
    fn = dtu.func("dt_dtdiff")
    if fn is None or tu.func("dt_ddiff") is None:
        raise AnalysisBroken("%s: dt_dtdiff / dt_ddiff vanished" % rule)
    R.saw(fn)
    R.saw(tu.func("dt_ddiff"))

    def resolve(name):
        for l in libs:
            f = l.func(name)
            if f is not None and getattr(f, "body", None) is not None:
                return f
        return None
    E = {k: dtu.enum_value(k) for k in [r[0] for r in REPR] + list(UNITS) + ["DT_HMS", "DT_SEXY"]}
    if None in E.values():
        raise AnalysisBroken("%s: tags not found (%s)" % (rule, E))
    _G.update(tu=tu, dtu=dtu, resolve=resolve, E=E)
    years = convdecode.class_years()
    chunks = [c for c in (years[i::jobs] for i in range(jobs)) if c]
    try:
        with mp.get_context("fork").Pool(len(chunks)) as pool:
            parts = pool.map(_worker, chunks)
    except NotConst as e:
        raise AnalysisBroken("%s: dt_dtdiff left the foldable fragment (%s)" % (rule, e))
    n = sum(k for k, _ in parts)
    bad = sorted(b for _, bb in parts for b in bb)
    if bad:
        unit, p, q, t1, t2, got, base = bad[0]
        R.finding(rule, fn, "operands held in different representations", "%s%d of %d (pair, unit, representations) points give another duration "
                  "than the same pair held as year-month-day values; first: %s from %s (held as %s) to %s (held as %s) gives %s, both as "
                  "DT_YMD give %s" % (">= " if len(bad) >= 300 else "", len(bad), n, unit, p, t1, q, t2, got, base))
    else:
        R.ob(rule, "dt_dtdiff in years+months+days, years+days, years+weeks+days and days: %d (pair, unit, representations) points give the "
             "duration of the year-month-day pair whichever of five representations each operand is held in, and for both held as epoch values (borrowed days included)" % n, True)
    return n
