"""RF2-tfmt: printing and parsing of times decoded: the printed text is the clock's, and parsing it returns the time.

dt_strft and dt_strpt are folded as they stand (format tokeniser, specifier switches, digit writers / readers, the 12-hour clock
rule of __guess_ttyp) for every hour of the day combined with representative minutes, seconds and nanoseconds, for a list of formats
that exercises every time specifier, in particular every pairing of an hour specifier (24-hour, 12-hour) with an AM/PM marker the
printer can produce.  The text must be what the specifiers mean (computed independently), and parsing that text with the same format
must return the same time with all of the text consumed."""
from core import AnalysisBroken, NotConst
import fold
from fold import CPtr, Ptr, cstr
from fmtdecode import LIBC


def _expect(items, h, m, s, ns):
    out = ""
    for it in items:
        if not it.startswith("%"):
            out += it
            continue
        sp = it[-1]
        if sp == "H":
            out += "%02d" % h
        elif sp == "I":
            out += "%02d" % (h % 12 or 12)
        elif sp == "M":
            out += "%02d" % m
        elif sp == "S":
            out += "%02d" % s
        elif sp == "T":
            out += "%02d:%02d:%02d" % (h, m, s)
        elif sp == "N":
            out += "%09d" % ns
        elif sp == "p":
            out += "PM" if h >= 12 else "AM"
        elif sp == "P":
            out += "pm" if h >= 12 else "am"
        else:
            raise KeyError(it)
    return out


# (items, which of h/m/s/ns the format determines)
FORMATS = [
    (["%H", ":", "%M", ":", "%S"], "hms"),
    (["%T"], "hms"),
    (["%I", ":", "%M", ":", "%S", " ", "%p"], "hms"),
    (["%I", ".", "%M", "%P"], "hm"),
    (["%H", ":", "%M", ":", "%S", " ", "%p"], "hms"),
    (["%T", "%P"], "hms"),
    (["%p", " ", "%I", ":", "%M"], "hm"),
    (["%H", ":", "%M", ":", "%S", ".", "%N"], "hmsn"),
    (["%H", "%M", "%S"], "hms"),
    (["%S", " ", "%M", " ", "%H"], "hms"),
]
_G = {}


def _worker(hours):
    tu, res, glob, E = _G["tu"], _G["resolve"], _G["glob"], _G["E"]
    fold.RESOLVE["fn"] = res
    fold.GLOBALS["fn"] = glob
    ff, fp = tu.func("dt_strft"), tu.func("dt_strpt")
    tabs = {}
    calls = dict(LIBC)
    bad = {}
    n = 0
    for h in hours:
        for m in _G["mins"]:
            for s in _G["secs"]:
                for ns in (0, 5, 123456789, 999999999):
                    val = {"typ": E["DT_HMS"], "hms.h": h, "hms.m": m, "hms.s": s, "hms.ns": ns}
                    for items, det in FORMATS:
                        if ns and "n" not in det and (m, s) != (_G["mins"][0], _G["secs"][0]):
                            continue
                        fmt = "".join(items)
                        buf = [0] * 64
                        what = "%02d:%02d:%02d.%09d" % (h, m, s, ns)
                        fo = fold.Folder(ff, calls=calls, inline=True, max_steps=3000000)
                        fo._tabs = tabs
                        try:
                            r = fo.run([CPtr(buf, 0), 64, cstr(fmt), dict(val)])
                        except fold.Abort as e:
                            bad.setdefault(fmt, []).append((what, "print", "abort: %s" % e, ""))
                            continue
                        text = bytes(buf[:r]).decode("latin-1") if isinstance(r, int) and 0 <= r <= 64 else None
                        exp = _expect(items, h, m, s, ns)
                        n += 1
                        if text != exp:
                            bad.setdefault(fmt, []).append((what, "print", repr(text), repr(exp)))
                            continue
                        frame = {"ep": 0}
                        fo = fold.Folder(fp, calls=calls, inline=True, max_steps=3000000)
                        fo._tabs = tabs
                        try:
                            pv = fo.run([cstr(text), cstr(fmt), Ptr(frame, "ep", None)])
                        except fold.Abort as e:
                            bad.setdefault(fmt, []).append((what, "parse", "abort: %s" % e, text))
                            continue
                        n += 1
                        pv = pv if isinstance(pv, dict) else {}
                        got = (pv.get("hms.h"), pv.get("hms.m"), pv.get("hms.s") if "s" in det else s, pv.get("hms.ns") if "n" in det else ns)
                        ep = frame["ep"]
                        consumed = ep.off if isinstance(ep, CPtr) else None
                        if got != (h, m, s, ns) or consumed != len(text) or pv.get("typ") != E["DT_HMS"]:
                            bad.setdefault(fmt, []).append((what, "parse", "%02s:%02s:%02s.%s (%s of %d characters read)" % (got + (consumed, len(text))),
                                                            repr(text)))
    return n, bad


def run_parallel(R, P, rule, every=False, jobs=12):
    import multiprocessing as mp
    tu = P.tu("libdut_a-time-core.o")
    libs = [tu, P.tu("libdut_a-strops.o"), P.tu("libdut_a-token.o"), P.tu("libdut_a-dt-locale.o")]
    for f in ("dt_strft", "dt_strpt", "__guess_ttyp"):
        if tu.func(f) is None:
            raise AnalysisBroken("%s vanished" % f)
        R.saw(tu.func(f))

    def resolve(name):
        for l in libs:
            f = l.func(name)
            if f is not None and getattr(f, "body", None) is not None:
                return f
        return None

    def glob(name):
        for l in libs:
            g = l.global_var(name)
            if g is not None and (g.get("init") is not None or "val" in g):
                return g
        return None
    E = {k: tu.enum_value(k) for k in ("DT_HMS",)}
    _G.update(tu=tu, resolve=resolve, glob=glob, E=E, mins=list(range(60)) if every else [0, 7, 30, 59],
              secs=list(range(61)) if every else [0, 9, 30, 59, 60])
    hours = list(range(24))
    chunks = [c for c in (hours[i::jobs] for i in range(jobs)) if c]
    try:
        ctx = mp.get_context("fork")
        with ctx.Pool(len(chunks)) as pool:
            parts = pool.map(_worker, chunks)
    except NotConst as e:
        raise AnalysisBroken("%s: printing / parsing of times left the foldable fragment (%s)" % (rule, e))
    n = 0
    bad = {}
    for k, b in parts:
        n += k
        for key, lst in b.items():
            bad.setdefault(key, []).extend(lst)
    for items, det in FORMATS:
        fmt = "".join(items)
        if fmt in bad:
            lst = sorted(bad[fmt])
            t, what, got, exp = lst[0]
            if what == "print":
                R.finding(rule, tu.func("dt_strft"), "format `%s`, printed" % fmt, "%d times of the grid print wrongly; first: %s prints %s, the "
                          "clock says %s" % (len(lst), t, got, exp))
            else:
                R.finding(rule, tu.func("dt_strpt"), "format `%s`, parsed back" % fmt, "%d times of the grid do not come back; first: %s printed "
                          "as %s parses to %s" % (len(lst), t, exp, got))
        else:
            R.ob(rule, "format `%s`: the clock's text for every hour of the day with the grid's minutes, seconds and nanoseconds, and parsing it "
                 "returns the time" % fmt, True)
    return n
