"""Interval abstract interpretation of integer variables over the extracted CFGs.

Variables: integer locals/parameters (by decl id) and integer member paths of record-typed locals/parameters
(keyed by (base decl id, "a.b.c"), also through one pointer parameter: `d->m`).  Values: (lo, hi) with None = unbounded.
Forward analysis with edge refinement from comparisons (against constants and against each other), widening after a few
rounds per block, one narrowing pass.  Unknown values start from the range of their C type (bit-field widths included).

Clients ask: at this node, what is the interval of that expression?  (month stored in 1..12?  index < extent?
divisor != 0?  bytes written < capacity?)
"""
from core import (strip, kids, const_of, call_args, expr_text, walk, effective_cond, AnalysisBroken, CASTS, member_path)

INF = None
WIDEN_AFTER = 4


def _min(a, b):
    if a is None or b is None:
        return None
    return min(a, b)


def _max(a, b):
    if a is None or b is None:
        return None
    return max(a, b)


def _lo_min(a, b):       # for lower bounds: None = -inf
    if a is None or b is None:
        return None
    return min(a, b)


def _hi_max(a, b):
    if a is None or b is None:
        return None
    return max(a, b)


def join(x, y):
    if x is None:
        return y
    if y is None:
        return x
    return (_lo_min(x[0], y[0]), _hi_max(x[1], y[1]))


def meet(x, y):
    lo = x[0] if y[0] is None else (y[0] if x[0] is None else max(x[0], y[0]))
    hi = x[1] if y[1] is None else (y[1] if x[1] is None else min(x[1], y[1]))
    if lo is not None and hi is not None and lo > hi:
        return "bot"
    return (lo, hi)


def widen(old, new):
    lo = old[0] if (old[0] is not None and new[0] is not None and new[0] >= old[0]) else None
    hi = old[1] if (old[1] is not None and new[1] is not None and new[1] <= old[1]) else None
    return (lo, hi)


def add(x, y):
    return (None if x[0] is None or y[0] is None else x[0] + y[0], None if x[1] is None or y[1] is None else x[1] + y[1])


def neg(x):
    return (None if x[1] is None else -x[1], None if x[0] is None else -x[0])


def sub(x, y):
    return add(x, neg(y))


def mul(x, y):
    if None in x or None in y:
        # sign-aware partial: both non-negative
        if x[0] is not None and y[0] is not None and x[0] >= 0 and y[0] >= 0:
            return (x[0] * y[0], None if x[1] is None or y[1] is None else x[1] * y[1])
        return (None, None)
    ps = [x[0] * y[0], x[0] * y[1], x[1] * y[0], x[1] * y[1]]
    return (min(ps), max(ps))


def tdiv(a, b):
    q = abs(a) // abs(b)
    return q if (a >= 0) == (b >= 0) else -q


def div(x, y):
    if y[0] is not None and y[1] is not None and (y[0] > 0 or y[1] < 0) and None not in x:
        ps = [tdiv(x[0], y[0]), tdiv(x[0], y[1]), tdiv(x[1], y[0]), tdiv(x[1], y[1])]
        return (min(ps), max(ps))
    if y[0] is not None and y[0] > 0 and x[0] is not None and x[0] >= 0:
        return (0, None if x[1] is None else tdiv(x[1], y[0]))
    return (None, None)


def mod(x, y):
    # C remainder: sign follows the dividend, |r| < |divisor|
    if y[0] is not None and y[1] is not None:
        m = max(abs(y[0]), abs(y[1]))
        if m == 0:
            return (None, None)
        lo = -(m - 1) if (x[0] is None or x[0] < 0) else 0
        hi = (m - 1) if (x[1] is None or x[1] > 0) else 0
        if x[0] is not None and x[1] is not None and x[0] >= 0 and x[1] < (min(abs(y[0]), abs(y[1])) or m) and y[0] > 0:
            return (x[0], x[1])
        return (lo, hi)
    lo = None if (x[0] is None or x[0] < 0) else 0
    hi = None if (x[1] is None or x[1] > 0) else 0
    return (lo, hi)


def type_range(t, bw=None):
    if t is None or not t.get("int"):
        return (None, None)
    w = bw if bw is not None else t.get("w")
    if not w or w > 64:
        return (None, None)
    if t.get("sg"):
        return (-(1 << (w - 1)), (1 << (w - 1)) - 1)
    return (0, (1 << w) - 1)


class Intervals:
    def __init__(self, fn, entry=None, call_ranges=None):
        self.fn = fn
        self.tu = fn.tu
        self.entry = entry or {}          # var key -> interval at function entry
        self.call_ranges = call_ranges or {}   # callee name -> interval of its result
        self.instate = {}
        self.node_state = {}              # node id -> state before the node (filled by annotate())

    # ---- keys
    def key_of(self, n):
        """lvalue -> hashable key, or None"""
        n0 = n
        while n0 is not None and n0.get("k") in CASTS and n0.get("c"):
            n0 = n0["c"][0]
        if n0 is None:
            return None
        if n0.get("k") == "DeclRefExpr" and n0.get("dk") in ("var", "parm"):
            t = self.tu.types[n0["t"]]
            if t.get("int"):
                return n0["d"]
            return None
        if n0.get("k") == "MemberExpr":
            base, path = member_path(n0)
            if base is not None and base.get("k") == "DeclRefExpr" and base.get("dk") in ("var", "parm") and path and "[]" not in path:
                return (base["d"], ".".join(path))
        return None

    def _range_of_lvalue(self, n, st):
        k = self.key_of(n)
        n0 = n
        while n0 is not None and n0.get("k") in CASTS and n0.get("c"):
            n0 = n0["c"][0]
        t = self.tu.types[n0["t"]] if n0 is not None and n0.get("t") is not None else None
        tr = type_range(t, n0.get("bw") if n0 is not None else None)
        if k is not None and k in st:
            m = meet(st[k], tr)
            return st[k] if m == "bot" else m
        return tr

    # ---- expression evaluation
    def eval(self, n, st):
        if n is None:
            return (None, None)
        k = n.get("k")
        if k in CASTS:
            v = self.eval(n["c"][0], st)
            if n.get("ck") == "IntegralCast":
                t = self.tu.types[n["t"]]
                tr = type_range(t)
                if tr != (None, None):
                    inside = (v[0] is not None and v[1] is not None and tr[0] <= v[0] and v[1] <= tr[1])
                    if not inside:
                        return tr      # wraps: anything of the target type
            return v
        c = const_of(n)
        if c is not None and k != "DeclRefExpr":
            return (c, c)
        if k == "DeclRefExpr":
            if n.get("dk") == "enum" or ("v" in n and n.get("dk") not in ("var", "parm")):
                return (n["v"], n["v"])
            return self._range_of_lvalue(n, st)
        if k == "MemberExpr":
            return self._range_of_lvalue(n, st)
        if k == "UnaryOperator":
            op = n.get("op")
            if op in ("++", "--"):
                v = self._range_of_lvalue(n["c"][0], st)
                # the inc/dec element has already been applied when its parent is evaluated (CFG order)
                if n.get("postfix"):
                    return sub(v, (1, 1)) if op == "++" else add(v, (1, 1))
                return v
            v = self.eval(n["c"][0], st)
            if op == "-":
                return neg(v)
            if op == "+":
                return v
            if op == "!":
                return (0, 1)
            if op == "~":
                return (None, None)
            return (None, None)
        if k == "BinaryOperator":
            op = n.get("op")
            if op in ("==", "!=", "<", ">", "<=", ">=", "&&", "||"):
                return (0, 1)
            if op == ",":
                return self.eval(n["c"][1], st)
            if op == "=":
                return self.eval(n["c"][1], st)
            a, b = self.eval(n["c"][0], st), self.eval(n["c"][1], st)
            r = (None, None)
            if op == "+":
                r = add(a, b)
            elif op == "-":
                r = sub(a, b)
            elif op == "*":
                r = mul(a, b)
            elif op == "/":
                r = div(a, b)
            elif op == "%":
                r = mod(a, b)
            elif op == "&":
                if b[0] is not None and b[0] == b[1] and b[0] >= 0:
                    r = (0, b[0])
                elif a[0] is not None and a[0] == a[1] and a[0] >= 0:
                    r = (0, a[0])
            elif op == ">>":
                if a[0] is not None and a[0] >= 0 and b[0] is not None and b[0] == b[1] and b[0] >= 0:
                    r = (a[0] >> b[0], None if a[1] is None else a[1] >> b[0])
            elif op == "<<":
                if None not in a and None not in b and a[0] >= 0 and 0 <= b[0] and b[1] < 63:
                    r = (a[0] << b[0], a[1] << b[1])
            # result wraps in its type
            t = self.tu.types[n["t"]] if n.get("t") is not None else None
            tr = type_range(t)
            if tr != (None, None) and not (r[0] is not None and r[1] is not None and tr[0] <= r[0] and r[1] <= tr[1]):
                if t.get("sg"):
                    return meet(r, tr) if meet(r, tr) != "bot" else tr     # signed overflow is UB: assume none
                return tr
            return r
        if k == "ConditionalOperator":
            return join(self.eval(n["c"][1], st), self.eval(n["c"][2], st))
        if k == "BinaryConditionalOperator":
            return join(self.eval(n["c"][0], st), self.eval(n["c"][1], st))
        if k == "CallExpr":
            cal = n.get("callee")
            if cal in self.call_ranges:
                r = self.call_ranges[cal]
                return r(self, n, st) if callable(r) else r
            if cal == "__builtin_expect":
                return self.eval(n["c"][1], st)
            t = self.tu.types[n["t"]] if n.get("t") is not None else None
            return type_range(t)
        if k in ("UnaryExprOrTypeTraitExpr",):
            return (None, None)
        t = self.tu.types[n["t"]] if n.get("t") is not None else None
        return type_range(t)

    # ---- transfer
    def _assign(self, lhs, val, st):
        k = self.key_of(lhs)
        l0 = lhs
        while l0 is not None and l0.get("k") in CASTS and l0.get("c"):
            l0 = l0["c"][0]
        if k is None:
            # whole-record assignment or store through unknown pointer: drop member facts of that base
            if l0 is not None and l0.get("k") == "DeclRefExpr":
                for kk in [x for x in st if isinstance(x, tuple) and x[0] == l0["d"]]:
                    del st[kk]
            elif l0 is not None and l0.get("k") == "MemberExpr":
                base, path = member_path(l0)
                if base is not None and base.get("k") == "DeclRefExpr":
                    pre = ".".join(path)
                    for kk in [x for x in st if isinstance(x, tuple) and x[0] == base["d"] and (x[1] == pre or x[1].startswith(pre + "."))]:
                        del st[kk]
            return
        # store wraps into the lvalue's type / bit-field
        t = self.tu.types[l0["t"]] if l0.get("t") is not None else None
        tr = type_range(t, l0.get("bw"))
        if tr != (None, None):
            inside = val[0] is not None and val[1] is not None and tr[0] <= val[0] and val[1] <= tr[1]
            if not inside:
                m = meet(val, tr)
                val = tr if (m == "bot" or not (t or {}).get("sg", True)) else m
                if not (t or {}).get("sg", True):
                    val = tr
        st[k] = val
        # overlapping union members are not modelled: writing a.u invalidates nothing else (sound only for reads via same path)

    def transfer(self, n, st):
        k = n.get("k")
        if k == "BinaryOperator" and n.get("op") == "=":
            self._assign(n["c"][0], self.eval(n["c"][1], st), st)
        elif k == "CompoundAssignOperator":
            op = n.get("op", "")[:-1]
            a = self._range_of_lvalue(n["c"][0], st)
            b = self.eval(n["c"][1], st)
            r = {"+": add, "-": sub, "*": mul, "/": div, "%": mod}.get(op)
            self._assign(n["c"][0], r(a, b) if r else (None, None), st)
        elif k == "UnaryOperator" and n.get("op") in ("++", "--"):
            a = self._range_of_lvalue(n["c"][0], st)
            self._assign(n["c"][0], add(a, (1, 1)) if n["op"] == "++" else sub(a, (1, 1)), st)
        elif k == "DeclStmt":
            for v in kids(n):
                if v.get("k") != "Var":
                    continue
                t = self.tu.types[v["t"]]
                if t.get("int"):
                    if kids(v):
                        val = self.eval(kids(v)[0], st)
                        tr = type_range(t)
                        if tr != (None, None) and not (val[0] is not None and val[1] is not None and tr[0] <= val[0] and val[1] <= tr[1]):
                            m = meet(val, tr)
                            val = tr if (m == "bot" or not t.get("sg")) else m
                        st[v["d"]] = val
                    else:
                        st.pop(v["d"], None)
                else:
                    for kk in [x for x in st if isinstance(x, tuple) and x[0] == v["d"]]:
                        del st[kk]
        elif k == "CallExpr":
            # address-taken variables may be written by the callee
            for a in call_args(n):
                x = strip(a)
                if x is not None and x.get("k") == "UnaryOperator" and x.get("op") == "&":
                    self._assign(x["c"][0], (None, None), st)
                    kx = self.key_of(x["c"][0])
                    if kx is not None:
                        st.pop(kx, None)
                    y = x["c"][0]
                    while y is not None and y.get("k") in CASTS and y.get("c"):
                        y = y["c"][0]
                    if y is not None and y.get("k") == "DeclRefExpr":
                        for kk in [z for z in st if isinstance(z, tuple) and z[0] == y["d"]]:
                            del st[kk]
                elif x is not None and x.get("k") == "DeclRefExpr" and self.tu.types[x["t"]].get("ptr"):
                    # pointer to record passed on: its members may change
                    for kk in [z for z in st if isinstance(z, tuple) and z[0] == x["d"]]:
                        del st[kk]

    # ---- refinement
    def refine(self, cond, pol, st):
        """-> refined state or None if the edge is infeasible"""
        c = strip(cond)
        while c is not None and c.get("k") == "UnaryOperator" and c.get("op") == "!":
            pol = not pol
            c = strip(c["c"][0])
        if c is None:
            return st
        k = c.get("k")
        if k == "BinaryOperator" and c.get("op") == ",":
            return self.refine(c["c"][1], pol, st)
        if k == "BinaryOperator" and c.get("op") in ("&&", "||"):
            if (c["op"] == "&&" and pol) or (c["op"] == "||" and not pol):
                s1 = self.refine(c["c"][0], pol, st)
                return self.refine(c["c"][1], pol, s1) if s1 is not None else None
            # disjunction of possibilities: join of the alternatives
            a = self.refine(c["c"][0], pol, dict(st))
            b = self.refine(c["c"][1], pol, dict(st))
            if a is None:
                return b
            if b is None:
                return a
            out = {}
            for kk in set(a) & set(b):
                out[kk] = join(a[kk], b[kk])
            return out
        if k == "BinaryOperator" and c.get("op") in ("==", "!=", "<", ">", "<=", ">="):
            op = c["op"]
            if not pol:
                op = {"==": "!=", "!=": "==", "<": ">=", ">=": "<", ">": "<=", "<=": ">"}[op]
            l, r = c["c"][0], c["c"][1]
            # look through assignment: (x = f()) < 0
            ls = strip(l)
            if ls is not None and ls.get("k") == "BinaryOperator" and ls.get("op") == "=":
                l = ls["c"][0]
            a, b = self.eval(l, st), self.eval(r, st)
            na, nb = self._apply_rel(op, a, b)
            if na == "bot" or nb == "bot":
                return None
            st = dict(st)
            ka, kb = self.key_of(strip_casts(l)), self.key_of(strip_casts(r))
            if ka is not None:
                st[ka] = na
            if kb is not None:
                st[kb] = nb
            return st
        # plain truth test
        key = self.key_of(strip_casts(c)) if c.get("k") in ("DeclRefExpr", "MemberExpr") or c.get("k") in CASTS else None
        if key is not None:
            v = self.eval(c, st)
            if pol:
                if v == (0, 0):
                    return None
                st = dict(st)
                if v[0] == 0:
                    st[key] = (1, v[1])
                elif v[1] == 0:
                    st[key] = (v[0], -1)
            else:
                m = meet(v, (0, 0))
                if m == "bot":
                    return None
                st = dict(st)
                st[key] = (0, 0)
        return st

    def _apply_rel(self, op, a, b):
        if op == "==":
            m = meet(a, b)
            return m, m
        if op == "!=":
            na, nb = a, b
            if b[0] is not None and b[0] == b[1]:
                if a[0] == b[0] and a[1] == b[0]:
                    return "bot", "bot"
                if a[0] == b[0]:
                    na = (a[0] + 1, a[1])
                elif a[1] == b[0]:
                    na = (a[0], a[1] - 1)
            if a[0] is not None and a[0] == a[1]:
                if b[0] == a[0]:
                    nb = (b[0] + 1, b[1])
                elif b[1] == a[0]:
                    nb = (b[0], b[1] - 1)
            return na, nb
        if op in ("<", "<="):
            d = 1 if op == "<" else 0
            na = meet(a, (None, None if b[1] is None else b[1] - d))
            nb = meet(b, (None if a[0] is None else a[0] + d, None))
            return na, nb
        if op in (">", ">="):
            nb, na = self._apply_rel("<" if op == ">" else "<=", b, a)
            return na, nb
        return a, b

    # ---- driver
    def run(self):
        fn = self.fn
        cfg = fn.cfg
        if cfg is None:
            raise AnalysisBroken("no CFG for %s" % fn.name)
        nodes = fn.nodes
        instate = {cfg.entry: dict(self.entry)}
        visits = {}
        work = [cfg.entry]
        rounds = 0
        while work:
            b = work.pop()
            rounds += 1
            if rounds > 50000:
                raise AnalysisBroken("interval analysis of %s does not converge" % fn.name)
            for s, ns in self._step(b, dict(instate[b])):
                if s not in instate:
                    instate[s] = ns
                    work.append(s)
                    continue
                old = instate[s]
                visits[s] = visits.get(s, 0) + 1
                new = {}
                for kk in set(old) & set(ns):
                    j = join(old[kk], ns[kk])
                    if visits[s] > WIDEN_AFTER and j != old[kk]:
                        j = widen(old[kk], j)
                    if j != (None, None):
                        new[kk] = j
                if new != old:
                    instate[s] = new
                    work.append(s)
        # one narrowing sweep: recompute block inputs from predecessors' outputs without widening
        for _ in range(2):
            outs = {}
            for b in instate:
                for s, ns in self._step(b, dict(instate[b])):
                    outs.setdefault(s, []).append(ns)
            for s, lst in outs.items():
                if s == cfg.entry or s not in instate:
                    continue
                new = None
                for ns in lst:
                    if new is None:
                        new = dict(ns)
                    else:
                        new = {kk: join(new[kk], ns[kk]) for kk in set(new) & set(ns)}
                # keep it at least as precise as before but never less sound: meet with the widened state
                old = instate[s]
                ref = {}
                for kk, v in new.items():
                    if kk in old:
                        m = meet(old[kk], v)
                        ref[kk] = v if m == "bot" else m
                    else:
                        ref[kk] = v
                instate[s] = ref
        self.instate = instate
        return self

    def _step(self, b, st):
        nodes = self.fn.nodes
        cfg = self.fn.cfg
        blk = cfg.blocks[b]
        for e in blk["e"]:
            n = nodes.get(e)
            if n is not None:
                self.transfer(n, st)
        outs = []
        ss = blk["s"]
        if blk.get("tk") == "SwitchStmt" and "cond" in blk:
            cond = nodes.get(blk["cond"])
            key = self.key_of(strip_casts(cond)) if cond is not None else None
            cv = self.eval(cond, st) if cond is not None else (None, None)
            labelled = []
            for s in ss:
                if s is None:
                    continue
                lab = nodes.get(cfg.blocks[s].get("label"))
                ns = dict(st)
                if lab is not None and lab.get("k") == "CaseStmt" and lab.get("lo") is not None:
                    rng = (lab["lo"], lab.get("hi", lab["lo"]))
                    m = meet(cv, rng)
                    if m == "bot":
                        continue
                    if key is not None:
                        ns[key] = m
                    labelled.append(rng)
                outs.append((s, ns))
        elif len(ss) == 2 and "cond" in blk and ss[0] is not None and ss[1] is not None:
            cond = nodes.get(blk["cond"])
            if cond is not None:
                cond = effective_cond(cond)
            for s, pol in ((ss[0], True), (ss[1], False)):
                ns = self.refine(cond, pol, dict(st)) if cond is not None else dict(st)
                if ns is not None:
                    outs.append((s, ns))
        else:
            for s in ss:
                if s is not None:
                    outs.append((s, dict(st)))
        return outs

    def state_at(self, node):
        """state just before `node` is evaluated (node must be a CFG element)"""
        cfg = self.fn.cfg
        sb = cfg.stmt_block(node["i"]) if "i" in node else None
        if sb is None or sb[0] not in self.instate:
            return None
        b, idx = sb
        st = dict(self.instate[b])
        nodes = self.fn.nodes
        for e in cfg.blocks[b]["e"][:idx]:
            n = nodes.get(e)
            if n is not None:
                self.transfer(n, st)
        return st

    def range_at(self, node, expr=None):
        """interval of `expr` (default: node itself) in the state before `node`; None if node unreachable"""
        st = self.state_at(node)
        if st is None:
            # climb to an ancestor that is a CFG element
            cur = self.fn.parent(node)
            while cur is not None and st is None:
                if "i" in cur:
                    st = self.state_at(cur)
                cur = self.fn.parent(cur)
            if st is None:
                return None
        return self.eval(expr if expr is not None else node, st)


def strip_casts(n):
    while n is not None and n.get("k") in CASTS and n.get("c"):
        n = n["c"][0]
    return n
