"""Interval abstract interpretation of integer variables over the extracted CFGs.

Variables: integer locals/parameters (by decl id) and integer member paths of record-typed locals/parameters
(keyed by (base decl id, "a.b.c"), also through one pointer parameter: `d->m`).  Values: (lo, hi) with None = unbounded.
Forward analysis with edge refinement from comparisons (against constants and against each other), widening after a few
rounds per block, one narrowing pass.  Unknown values start from the range of their C type (bit-field widths included).

Clients ask: at this node, what is the interval of that expression?  (month stored in 1..12?  index < extent?
divisor != 0?  bytes written < capacity?)
"""
from core import (strip, kids, const_of, call_args, expr_text, walk, effective_cond, AnalysisBroken, CASTS, member_path)

INF = None
WIDEN_AFTER = 4


def _min(a, b):
    if a is None or b is None:
        return None
    return min(a, b)


def _max(a, b):
    if a is None or b is None:
        return None
    return max(a, b)


def _lo_min(a, b):       # for lower bounds: None = -inf
    if a is None or b is None:
        return None
    return min(a, b)


def _hi_max(a, b):
    if a is None or b is None:
        return None
    return max(a, b)


def join(x, y):
    if x is None:
        return y
    if y is None:
        return x
    return (_lo_min(x[0], y[0]), _hi_max(x[1], y[1]))


def meet(x, y):
    lo = x[0] if y[0] is None else (y[0] if x[0] is None else max(x[0], y[0]))
    hi = x[1] if y[1] is None else (y[1] if x[1] is None else min(x[1], y[1]))
    if lo is not None and hi is not None and lo > hi:
        return "bot"
    return (lo, hi)


def widen(old, new, thresholds=()):
    """widening with thresholds: an unstable bound jumps to the next constant of the function (0, 1, -1, limits ...)"""
    if old[0] is not None and new[0] is not None and new[0] >= old[0]:
        lo = old[0]
    else:
        lo = None
        if new[0] is not None:
            c = [t for t in thresholds if t <= new[0]]
            lo = max(c) if c else None
    if old[1] is not None and new[1] is not None and new[1] <= old[1]:
        hi = old[1]
    else:
        hi = None
        if new[1] is not None:
            c = [t for t in thresholds if t >= new[1]]
            hi = min(c) if c else None
    return (lo, hi)


def add(x, y):
    return (None if x[0] is None or y[0] is None else x[0] + y[0], None if x[1] is None or y[1] is None else x[1] + y[1])


def neg(x):
    return (None if x[1] is None else -x[1], None if x[0] is None else -x[0])


def sub(x, y):
    return add(x, neg(y))


def mul(x, y):
    if None in x or None in y:
        # sign-aware partial: both non-negative
        if x[0] is not None and y[0] is not None and x[0] >= 0 and y[0] >= 0:
            return (x[0] * y[0], None if x[1] is None or y[1] is None else x[1] * y[1])
        return (None, None)
    ps = [x[0] * y[0], x[0] * y[1], x[1] * y[0], x[1] * y[1]]
    return (min(ps), max(ps))


def tdiv(a, b):
    q = abs(a) // abs(b)
    return q if (a >= 0) == (b >= 0) else -q


def div(x, y):
    if y[0] is not None and y[1] is not None and (y[0] > 0 or y[1] < 0) and None not in x:
        ps = [tdiv(x[0], y[0]), tdiv(x[0], y[1]), tdiv(x[1], y[0]), tdiv(x[1], y[1])]
        return (min(ps), max(ps))
    if y[0] is not None and y[0] > 0 and x[0] is not None and x[0] >= 0:
        return (0, None if x[1] is None else tdiv(x[1], y[0]))
    return (None, None)


def mod(x, y):
    # C remainder: sign follows the dividend, |r| < |divisor|
    if y[0] is not None and y[1] is not None:
        m = max(abs(y[0]), abs(y[1]))
        if m == 0:
            return (None, None)
        lo = -(m - 1) if (x[0] is None or x[0] < 0) else 0
        hi = (m - 1) if (x[1] is None or x[1] > 0) else 0
        if x[0] is not None and x[1] is not None and x[0] >= 0 and x[1] < (min(abs(y[0]), abs(y[1])) or m) and y[0] > 0:
            return (x[0], x[1])
        return (lo, hi)
    lo = None if (x[0] is None or x[0] < 0) else 0
    hi = None if (x[1] is None or x[1] > 0) else 0
    return (lo, hi)


def type_range(t, bw=None):
    if t is None or not t.get("int"):
        return (None, None)
    w = bw if bw is not None else t.get("w")
    if not w or w > 64:
        return (None, None)
    if t.get("sg"):
        return (-(1 << (w - 1)), (1 << (w - 1)) - 1)
    return (0, (1 << w) - 1)


class Intervals:
    def __init__(self, fn, entry=None, call_ranges=None, ptr_keys=None, bounded_calls=None):
        self.fn = fn
        self.tu = fn.tu
        self.ptr_keys = set(ptr_keys or ())      # char pointers modelled as byte offsets from a common base
        self.zero_keys = set()                   # keys known to be the constant 0 throughout (the base pointer itself)
        self.rel_calls = {}                      # callee -> (arg index, c): result <= that argument + c
        self.span_calls = {}                     # callee -> (pointer arg, length arg): non-null result in [p, p + n - 1]
        self.bounded_calls = bounded_calls or {} # callee -> index of its size argument (result <= that argument)
        self.entry = entry or {}          # var key -> interval at function entry
        self.call_ranges = call_ranges or {}   # callee name -> interval of its result
        self.instate = {}
        self.thresholds = ()
        self.discriminators = []
        self.force_discriminators = None         # client-chosen partition keys (zero / non-zero status)
        self.node_state = {}              # node id -> state before the node (filled by annotate())

    # ---- keys
    def key_of(self, n):
        """lvalue -> hashable key, or None"""
        n0 = n
        while n0 is not None and n0.get("k") in CASTS and n0.get("c"):
            n0 = n0["c"][0]
        if n0 is None:
            return None
        if n0.get("k") == "DeclRefExpr" and n0.get("dk") in ("var", "parm"):
            t = self.tu.types[n0["t"]]
            if t.get("int") or n0["d"] in self.ptr_keys:
                return n0["d"]
            return None
        if n0.get("k") == "MemberExpr":
            base, path = member_path(n0)
            if base is not None and base.get("k") == "DeclRefExpr" and base.get("dk") in ("var", "parm") and path and "[]" not in path:
                return (base["d"], ".".join(path))
        return None

    def _range_of_lvalue(self, n, st):
        k = self.key_of(n)
        n0 = n
        while n0 is not None and n0.get("k") in CASTS and n0.get("c"):
            n0 = n0["c"][0]
        t = self.tu.types[n0["t"]] if n0 is not None and n0.get("t") is not None else None
        tr = type_range(t, n0.get("bw") if n0 is not None else None)
        if k is not None and k in st:
            m = meet(st[k], tr)
            return st[k] if m == "bot" else m
        if isinstance(k, tuple) and len(k) == 2 and ("zinit", k[0]) in st and tr != (None, None):
            return (0, 0)
        return tr

    # ---- expression evaluation
    def eval(self, n, st):
        if n is None:
            return (None, None)
        k = n.get("k")
        if k in CASTS:
            v = self.eval(n["c"][0], st)
            if n.get("ck") == "IntegralCast":
                t = self.tu.types[n["t"]]
                tr = type_range(t)
                if tr != (None, None):
                    inside = (v[0] is not None and v[1] is not None and tr[0] <= v[0] and v[1] <= tr[1])
                    if not inside:
                        return tr      # wraps: anything of the target type
            return v
        c = const_of(n)
        if c is not None and k != "DeclRefExpr":
            return (c, c)
        if k == "DeclRefExpr":
            if n.get("dk") == "enum" or ("v" in n and n.get("dk") not in ("var", "parm")):
                return (n["v"], n["v"])
            return self._range_of_lvalue(n, st)
        if k == "MemberExpr":
            return self._range_of_lvalue(n, st)
        if k == "UnaryOperator":
            op = n.get("op")
            if op in ("++", "--"):
                v = self._range_of_lvalue(n["c"][0], st)
                # the inc/dec element has already been applied when its parent is evaluated (CFG order)
                if n.get("postfix"):
                    return sub(v, (1, 1)) if op == "++" else add(v, (1, 1))
                return v
            v = self.eval(n["c"][0], st)
            if op == "-":
                return neg(v)
            if op == "+":
                return v
            if op == "!":
                if v == (0, 0):
                    return (1, 1)
                if (v[0] is not None and v[0] > 0) or (v[1] is not None and v[1] < 0):
                    return (0, 0)
                return (0, 1)
            if op == "~":
                return (None, None)
            return (None, None)
        if k == "BinaryOperator":
            op = n.get("op")
            if op in ("&&", "||"):
                a, b = self.eval(n["c"][0], st), self.eval(n["c"][1], st)
                fa, fb = a == (0, 0), b == (0, 0)
                ta = (a[0] is not None and a[0] > 0) or (a[1] is not None and a[1] < 0)
                tb = (b[0] is not None and b[0] > 0) or (b[1] is not None and b[1] < 0)
                if op == "&&":
                    if fa or fb:
                        return (0, 0)
                    if ta and tb:
                        return (1, 1)
                else:
                    if ta or tb:
                        return (1, 1)
                    if fa and fb:
                        return (0, 0)
                return (0, 1)
            if op in ("==", "!=", "<", ">", "<=", ">="):
                if self._null_test(n):
                    return (0, 1)
                a, b = self.eval(n["c"][0], st), self.eval(n["c"][1], st)
                na, nb = self._apply_rel(op, a, b)
                if na == "bot" or nb == "bot":
                    return (0, 0)
                neg_op = {"==": "!=", "!=": "==", "<": ">=", ">=": "<", ">": "<=", "<=": ">"}[op]
                xa, xb = self._apply_rel(neg_op, a, b)
                if xa == "bot" or xb == "bot":
                    return (1, 1)
                return (0, 1)
            if op == ",":
                return self.eval(n["c"][1], st)
            if op == "=":
                return self.eval(n["c"][1], st)
            a, b = self.eval(n["c"][0], st), self.eval(n["c"][1], st)
            r = (None, None)
            if op == "+":
                r = add(a, b)
            elif op == "-":
                r = sub(a, b)
                # difference bounds sharpen x - y:  x <= y + c  ->  x - y <= c ;  y <= x + c'  ->  x - y >= -c'
                la, lb = self._linear(n["c"][0]), self._linear(n["c"][1])
                if la is not None and lb is not None and la[0] is not None and lb[0] is not None:
                    c1 = self.rel(st, la[0], lb[0])
                    c2 = self.rel(st, lb[0], la[0])
                    d = la[1] - lb[1]
                    if c1 is not None:
                        r = (r[0], c1 + d if r[1] is None else min(r[1], c1 + d))
                    if c2 is not None:
                        r = (-c2 + d if r[0] is None else max(r[0], -c2 + d), r[1])
            elif op == "*":
                r = mul(a, b)
            elif op == "/":
                r = div(a, b)
            elif op == "%":
                r = mod(a, b)
            elif op == "&":
                if b[0] is not None and b[0] == b[1] and b[0] >= 0:
                    r = (0, b[0])
                elif a[0] is not None and a[0] == a[1] and a[0] >= 0:
                    r = (0, a[0])
            elif op == ">>":
                if a[0] is not None and a[0] >= 0 and b[0] is not None and b[0] == b[1] and b[0] >= 0:
                    r = (a[0] >> b[0], None if a[1] is None else a[1] >> b[0])
            elif op == "<<":
                if None not in a and None not in b and a[0] >= 0 and 0 <= b[0] and b[1] < 63:
                    r = (a[0] << b[0], a[1] << b[1])
            # result wraps in its type
            t = self.tu.types[n["t"]] if n.get("t") is not None else None
            tr = type_range(t)
            if tr != (None, None) and not (r[0] is not None and r[1] is not None and tr[0] <= r[0] and r[1] <= tr[1]):
                if t.get("sg"):
                    return meet(r, tr) if meet(r, tr) != "bot" else tr     # signed overflow is UB: assume none
                return tr
            return r
        if k == "ConditionalOperator":
            return join(self.eval(n["c"][1], st), self.eval(n["c"][2], st))
        if k == "BinaryConditionalOperator":
            return join(self.eval(n["c"][0], st), self.eval(n["c"][1], st))
        if k == "CallExpr":
            cal = n.get("callee")
            if cal in self.call_ranges:
                r = self.call_ranges[cal]
                return r(self, n, st) if callable(r) else r
            if cal == "__builtin_expect":
                return self.eval(n["c"][1], st)
            t = self.tu.types[n["t"]] if n.get("t") is not None else None
            return type_range(t)
        if k in ("UnaryExprOrTypeTraitExpr",):
            return (None, None)
        t = self.tu.types[n["t"]] if n.get("t") is not None else None
        return type_range(t)

    # ---- relational facts  x <= y + c  (kept while neither side is assigned)
    def _kill_rels(self, st, key):
        for kk in [z for z in st if isinstance(z, tuple) and len(z) == 3 and z[0] == "rel" and (z[1] == key or z[2] == key)]:
            del st[kk]
        for kk in [z for z in st if isinstance(z, tuple) and len(z) == 2 and z[0] == "diff" and (z[1] == key or key in st[z][:2])]:
            del st[kk]

    @staticmethod
    def _is_rel(kk):
        return isinstance(kk, tuple) and len(kk) == 3 and kk[0] == "rel"

    @staticmethod
    def _is_diff(kk):
        return isinstance(kk, tuple) and len(kk) == 2 and kk[0] == "diff"

    @staticmethod
    def _zinit_fill(a, b):
        """members of a zero-initialised record that only one side has written are still zero on the other side"""
        for src, dst in ((a, b), (b, a)):
            for kk in list(src):
                if isinstance(kk, tuple) and len(kk) == 2 and kk[0] != "zinit" and kk[0] != "diff" and kk not in dst \
                        and ("zinit", kk[0]) in dst:
                    dst[kk] = (0, 0)

    def _merge(self, a, b):
        """plain join of two states (no widening, no completion): intervals joined, difference bounds maxed, exact
        difference facts kept when equal"""
        out = {}
        a, b = dict(a), dict(b)
        self._zinit_fill(a, b)
        for kk in set(a) & set(b):
            if self._is_rel(kk):
                out[kk] = max(a[kk], b[kk])
            elif self._is_diff(kk):
                if a[kk] == b[kk]:
                    out[kk] = a[kk]
            else:
                out[kk] = join(a[kk], b[kk])
        return out

    def _note_diff(self, st, k, rhs, val, t):
        """k = (x + a) - (y + b) without wrapping: remember k == x - y + (a - b) while none of the three is assigned"""
        r0 = strip_casts(strip(rhs)) if rhs is not None else None
        while r0 is not None and r0.get("k") == "ParenExpr":
            r0 = strip_casts(strip(r0["c"][0]))
        if r0 is None or r0.get("k") != "BinaryOperator" or r0.get("op") != "-":
            return
        la, lb = self._linear(r0["c"][0]), self._linear(r0["c"][1])
        if la is None or lb is None or la[0] is None or lb[0] is None or k in (la[0], lb[0]):
            return
        tr = type_range(t) if t is not None and t.get("int") else (None, None)
        if tr != (None, None) and not (val[0] is not None and val[1] is not None and tr[0] <= val[0] and val[1] <= tr[1]):
            return
        st[("diff", k)] = (la[0], lb[0], la[1] - lb[1])

    def _span_result(self, st, k, rhs):
        """k = memchr(p, c, n)-like: a non-null result lies in [p, p + n - 1]"""
        r0 = strip(rhs) if rhs is not None else None
        if r0 is None or r0.get("k") != "CallExpr" or r0.get("callee") not in self.span_calls:
            return None
        pi, ni = self.span_calls[r0["callee"]]
        args = call_args(r0)
        if max(pi, ni) >= len(args):
            return None
        pr, nr = self.eval(args[pi], st), self.eval(args[ni], st)
        val = (pr[0], None if pr[1] is None or nr[1] is None else pr[1] + nr[1] - 1)
        lp = self._linear(args[pi])
        rels = []
        if lp is not None and lp[0] is not None and lp[0] != k:
            rels.append((lp[0], k, -lp[1]))             # p + a <= k  ->  p <= k - a
            kn = self.key_of(strip_casts(args[ni]))
            df = st.get(("diff", kn)) if kn is not None else None
            if df is not None and df[1] == lp[0] and df[0] != k:
                # n == A - p + c:  k <= p + a + n - 1 = A + a + c - 1
                rels.append((k, df[0], lp[1] + df[2] - 1))
        return val, rels

    def rel(self, st, kx, ky):
        """smallest derivable c with x <= y + c, or None: shortest path over the stored difference constraints,
        combined with what the intervals imply (x <= hi(x), y >= lo(y))"""
        if kx is None or ky is None:
            return None
        if kx == ky:
            return 0
        edges = {}
        for z, c in st.items():
            if isinstance(z, tuple) and len(z) == 3 and z[0] == "rel":
                edges.setdefault(z[1], []).append((z[2], c))
        dist = {kx: 0}
        frontier = [kx]
        for _ in range(8):
            nxt = []
            for u in frontier:
                for v, c in edges.get(u, ()):
                    d = dist[u] + c
                    if v not in dist or d < dist[v]:
                        dist[v] = d
                        nxt.append(v)
            if not nxt:
                break
            frontier = nxt
        best = dist.get(ky)
        # via constants: u <= hi(u) and ky >= lo(ky)  ->  x <= ky + dist[u] + hi(u) - lo(ky)
        lo_y = (0, 0) if ky in self.zero_keys else st.get(ky)
        if lo_y is not None and lo_y[0] is not None:
            for u, du in dist.items():
                iu = (0, 0) if u in self.zero_keys else st.get(u)
                if iu is not None and iu[1] is not None:
                    cand = du + iu[1] - lo_y[0]
                    if best is None or cand < best:
                        best = cand
        return best

    def _set_rel(self, st, kx, ky, c, close=True):
        if kx is None or ky is None or kx == ky:
            return
        old = st.get(("rel", kx, ky))
        if old is not None and old <= c:
            return
        st[("rel", kx, ky)] = c
        if close:
            # x <= y + c and y <= z + d  ->  x <= z + c + d ;  w <= x + e  ->  w <= y + e + c
            for z in list(st):
                if isinstance(z, tuple) and len(z) == 3 and z[0] == "rel":
                    if z[1] == ky and z[2] != kx:
                        self._set_rel(st, kx, z[2], c + st[z], close=False)
                    elif z[2] == kx and z[1] != ky:
                        self._set_rel(st, z[1], ky, st[z] + c, close=False)

    def _linear(self, e):
        """expression -> (key, const) for `v`, `v + c`, `v - c`; (None, c) for constants; else None"""
        e = strip_casts(e)
        if e is None:
            return None
        c = const_of(e)
        if c is not None and e.get("k") != "DeclRefExpr":
            return (None, c)
        k = self.key_of(e)
        if k is not None:
            return (k, 0)
        if e.get("k") == "UnaryOperator" and e.get("op") in ("++", "--"):
            k = self.key_of(e["c"][0])
            if k is not None:
                # CFG order: the inc/dec element has been applied before its parent is evaluated
                d = 1 if e["op"] == "++" else -1
                return (k, -d if e.get("postfix") else 0)
        if e.get("k") == "BinaryOperator" and e.get("op") == "*":
            # a multiple of something known to be zero
            for x, y in ((e["c"][0], e["c"][1]), (e["c"][1], e["c"][0])):
                kx = self.key_of(strip_casts(x))
                if kx is not None and kx in self.zero_keys and const_of(y) is not None:
                    return (None, 0)
        if e.get("k") == "BinaryOperator" and e.get("op") in ("+", "-"):
            a, b = self._linear(e["c"][0]), self._linear(e["c"][1])
            if a is not None and a[0] in self.zero_keys:
                a = (None, a[1])
            if b is not None and b[0] in self.zero_keys:
                b = (None, b[1])
            if a is not None and b is not None and a[0] is None and b[0] is not None and e["op"] == "+":
                return (b[0], a[1] + b[1])
            if a is not None and b is not None:
                if b[0] is None:
                    return (a[0], a[1] + (b[1] if e["op"] == "+" else -b[1]))
                if a[0] is None and e["op"] == "+":
                    return (b[0], a[1] + b[1])
        return None

    def _callee_writes(self, name, argidx, depth=0):
        """member paths a callee with a known body may assign through its pointer parameter #argidx (flow-insensitive,
        transitive); None if unknown (external function)"""
        key = (name, argidx)
        cache = Intervals._writes_cache.setdefault(id(self.tu), {})
        if key in cache:
            return cache[key]
        f = self.tu.functions.get(name)
        if f is None or depth > 4:
            return None
        cache[key] = set()
        if argidx >= len(f.params):
            return None
        pd = f.params[argidx]["d"]
        out = set()
        unknown = False
        for x in f.walk():
            k = x.get("k")
            tgt = None
            if k == "BinaryOperator" and x.get("op") == "=" or k == "CompoundAssignOperator":
                tgt = x["c"][0]
            elif k == "UnaryOperator" and x.get("op") in ("++", "--"):
                tgt = x["c"][0]
            if tgt is not None:
                b, path = member_path(tgt)
                if b is not None and b.get("k") == "DeclRefExpr" and b.get("d") == pd and path:
                    out.add(".".join(p for p in path if p != "[]"))
            if k == "CallExpr":
                for i, a in enumerate(call_args(x)):
                    y = strip(a)
                    if y is not None and y.get("k") == "DeclRefExpr" and y.get("d") == pd:
                        sub = self._callee_writes(x.get("callee"), i, depth + 1) if x.get("callee") else None
                        if sub is None:
                            unknown = True
                        else:
                            out |= sub
        res = None if unknown else out
        cache[key] = res
        return res

    _writes_cache = {}

    def _null_test(self, n):
        """pointer compared with the null constant: pointers are modelled as offsets, NULL is not offset 0"""
        for x, y in ((n["c"][0], n["c"][1]), (n["c"][1], n["c"][0])):
            xs = strip_casts(x)
            t = self.tu.types[xs["t"]] if xs is not None and xs.get("t") is not None else {}
            if t.get("ptr") and const_of(y) == 0:
                return True
        return False

    # ---- transfer
    def _assign(self, lhs, val, st, rhs=None):
        k = self.key_of(lhs)
        if k is not None:
            old_rels = {z: st[z] for z in st if isinstance(z, tuple) and len(z) == 3 and z[0] == "rel" and (z[1] == k or z[2] == k)}
            self._kill_rels(st, k)
            if rhs is not None:
                r0 = strip(rhs)
                if r0 is not None and r0.get("k") == "BinaryOperator" and r0.get("op") == "+":
                    # base + f(...): the base pointer is offset 0
                    for a_, b_ in ((r0["c"][0], r0["c"][1]), (r0["c"][1], r0["c"][0])):
                        if self.key_of(a_) in self.zero_keys and self.key_of(a_) is not None:
                            r0 = strip(b_)
                            break
                if r0 is not None and r0.get("k") == "CallExpr" and r0.get("callee") in self.rel_calls:
                    ai, c0 = self.rel_calls[r0["callee"]]
                    args = call_args(r0)
                    if ai < len(args):
                        la = self._linear(args[ai])
                        if la is not None and la[0] is not None and la[0] != k:
                            self._set_rel(st, k, la[0], la[1] + c0)
                lin = self._linear(rhs)
                if lin is not None and lin[0] is not None:
                    if lin[0] != k:
                        self._set_rel(st, k, lin[0], lin[1])       # x = y + c  ->  x <= y + c and y <= x - c
                        self._set_rel(st, lin[0], k, -lin[1])
                        # transitivity through y's relations: y <= z + d  ->  x <= z + c + d
                        for z in list(st):
                            if isinstance(z, tuple) and len(z) == 3 and z[0] == "rel" and z[1] == lin[0] and z[2] != k:
                                self._set_rel(st, k, z[2], lin[1] + st[z])
                    else:
                        # x = x + c: shift existing relations
                        for z, c0 in old_rels.items():
                            if z[1] == k:
                                st[z] = c0 + lin[1]
                            else:
                                st[z] = c0 - lin[1]
            if rhs is not None:
                lt = strip_casts(lhs)
                self._note_diff(st, k, rhs, val, self.tu.types[lt["t"]] if lt is not None and lt.get("t") is not None else None)
                sp = self._span_result(st, k, rhs)
                if sp is not None:
                    val = sp[0]
                    for x_, y_, c_ in sp[1]:
                        self._set_rel(st, x_, y_, c_)
        l0 = lhs
        while l0 is not None and l0.get("k") in CASTS and l0.get("c"):
            l0 = l0["c"][0]
        if k is None:
            # whole-record assignment or store through unknown pointer: drop member facts of that base
            if l0 is not None and l0.get("k") == "DeclRefExpr":
                for kk in [x for x in st if isinstance(x, tuple) and x[0] == l0["d"]]:
                    del st[kk]
                st.pop(("zinit", l0["d"]), None)
            elif l0 is not None and l0.get("k") == "MemberExpr":
                base, path = member_path(l0)
                if base is not None and base.get("k") == "DeclRefExpr":
                    st.pop(("zinit", base["d"]), None)
                    pre = ".".join(path)
                    for kk in [x for x in st if isinstance(x, tuple) and x[0] == base["d"] and (x[1] == pre or x[1].startswith(pre + "."))]:
                        del st[kk]
            return
        # store wraps into the lvalue's type / bit-field
        t = self.tu.types[l0["t"]] if l0.get("t") is not None else None
        tr = type_range(t, l0.get("bw"))
        if tr != (None, None):
            inside = val[0] is not None and val[1] is not None and tr[0] <= val[0] and val[1] <= tr[1]
            if not inside:
                m = meet(val, tr)
                val = tr if (m == "bot" or not (t or {}).get("sg", True)) else m
                if not (t or {}).get("sg", True):
                    val = tr
        st[k] = val
        # overlapping union members are not modelled: writing a.u invalidates nothing else (sound only for reads via same path)

    def transfer(self, n, st):
        k = n.get("k")
        if k == "BinaryOperator" and n.get("op") == "=" and strip(n["c"][1]) is not None and strip(n["c"][1]).get("k") == "ConditionalOperator":
            # x = c ? a : b  is analysed as the two assignments under c / !c, joined
            co = strip(n["c"][1])
            outs = []
            for pol, val in ((True, co["c"][1]), (False, co["c"][2])):
                s2 = self.refine(co["c"][0], pol, dict(st))
                if s2 is None:
                    continue
                self._assign(n["c"][0], self.eval(val, s2), s2, rhs=val)
                outs.append(s2)
            if outs:
                res = outs[0]
                for o in outs[1:]:
                    res = self._merge(res, o)
                st.clear()
                st.update(res)
        elif k == "BinaryOperator" and n.get("op") == "=":
            self._assign(n["c"][0], self.eval(n["c"][1], st), st, rhs=n["c"][1])
        elif k == "CompoundAssignOperator" and strip(n["c"][1]) is not None and strip(n["c"][1]).get("k") == "ConditionalOperator" \
                and not n.get("_split"):
            # x op= c ? a : b  is analysed as  x op= a  under c  and  x op= b  under !c, joined
            co = strip(n["c"][1])
            outs = []
            for pol, val in ((True, co["c"][1]), (False, co["c"][2])):
                s2 = self.refine(co["c"][0], pol, dict(st))
                if s2 is None:
                    continue
                synth = dict(n)
                synth["c"] = [n["c"][0], val]
                synth["_split"] = True
                self.transfer(synth, s2)
                outs.append(s2)
            if outs:
                res = outs[0]
                for o in outs[1:]:
                    res = self._merge(res, o)
                st.clear()
                st.update(res)
        elif k == "CompoundAssignOperator":
            op = n.get("op", "")[:-1]
            a = self._range_of_lvalue(n["c"][0], st)
            b = self.eval(n["c"][1], st)
            r = {"+": add, "-": sub, "*": mul, "/": div, "%": mod}.get(op)
            key = self.key_of(n["c"][0])
            shift = None
            if op in ("+", "-") and b[0] is not None and b[0] == b[1]:
                shift = b[0] if op == "+" else -b[0]
            rels = {z: st[z] for z in st if isinstance(z, tuple) and len(z) == 3 and z[0] == "rel" and key in (z[1], z[2])} if key is not None else {}
            self._assign(n["c"][0], r(a, b) if r else (None, None), st)
            if shift is not None:
                for z, c0 in rels.items():
                    st[z] = c0 + shift if z[1] == key else c0 - shift
            elif op == "+" and b[0] is not None and b[0] >= 0 and b[1] is not None:
                # x += [0..m]: x <= y + c becomes x <= y + c + m; y <= x + c stays
                for z, c0 in rels.items():
                    st[z] = c0 + b[1] if z[1] == key else c0
            if op == "+" and key is not None:
                r0 = strip(n["c"][1])
                if r0 is not None and r0.get("k") == "CallExpr" and r0.get("callee") in self.bounded_calls:
                    si = self.bounded_calls[r0["callee"]]
                    args = call_args(r0)
                    if si < len(args):
                        sz = strip_casts(args[si])
                        if sz is not None and sz.get("k") == "BinaryOperator" and sz.get("op") == "-":
                            kx, ky = self.key_of(sz["c"][0]), self.key_of(sz["c"][1])
                            if ky == key and kx is not None:
                                # result <= X - x_old  ->  x_new = x_old + result <= X ; relations of X carry over
                                self._set_rel(st, key, kx, 0)
                                for z in list(st):
                                    if isinstance(z, tuple) and len(z) == 3 and z[0] == "rel" and z[1] == kx and z[2] != key:
                                        self._set_rel(st, key, z[2], st[z])
        elif k == "UnaryOperator" and n.get("op") in ("++", "--"):
            a = self._range_of_lvalue(n["c"][0], st)
            key = self.key_of(n["c"][0])
            rels = {z: st[z] for z in st if isinstance(z, tuple) and len(z) == 3 and z[0] == "rel" and key in (z[1], z[2])} if key is not None else {}
            d = 1 if n["op"] == "++" else -1
            self._assign(n["c"][0], add(a, (d, d)), st)
            for z, c0 in rels.items():
                st[z] = c0 + d if z[1] == key else c0 - d
        elif k in ("DeclStmt", "Var"):
            for v in ([n] if k == "Var" else kids(n)):
                if v.get("k") != "Var":
                    continue
                t = self.tu.types[v["t"]]
                if t.get("int") or v["d"] in self.ptr_keys:
                    if kids(v):
                        val = self.eval(kids(v)[0], st)
                        tr = type_range(t) if t.get("int") else (None, None)
                        if tr != (None, None) and not (val[0] is not None and val[1] is not None and tr[0] <= val[0] and val[1] <= tr[1]):
                            m = meet(val, tr)
                            val = tr if (m == "bot" or not t.get("sg")) else m
                        self._kill_rels(st, v["d"])
                        r00 = strip(kids(v)[0])
                        if r00 is not None and r00.get("k") == "CallExpr" and r00.get("callee") in self.bounded_calls:
                            # a bounded writer returns at most its size argument
                            args0 = call_args(r00)
                            si0 = self.bounded_calls[r00["callee"]]
                            if si0 < len(args0):
                                szr = self.eval(args0[si0], st)
                                if szr[1] is not None:
                                    val = meet(val, (0, szr[1])) if meet(val, (0, szr[1])) != "bot" else val
                        sp = self._span_result(st, v["d"], kids(v)[0])
                        if sp is not None:
                            val = sp[0]
                            for x_, y_, c_ in sp[1]:
                                self._set_rel(st, x_, y_, c_)
                        st[v["d"]] = val
                        self._note_diff(st, v["d"], kids(v)[0], val, t)
                        lin = self._linear(kids(v)[0])
                        if lin is not None and lin[0] is not None:
                            self._set_rel(st, v["d"], lin[0], lin[1])
                            self._set_rel(st, lin[0], v["d"], -lin[1])
                        r0 = strip(kids(v)[0])
                        if r0 is not None and r0.get("k") == "CallExpr" and r0.get("callee") in self.rel_calls:
                            ai, c0 = self.rel_calls[r0["callee"]]
                            args = call_args(r0)
                            if ai < len(args):
                                la = self._linear(args[ai])
                                if la is not None and la[0] is not None:
                                    self._set_rel(st, v["d"], la[0], la[1] + c0)
                    else:
                        st.pop(v["d"], None)
                        self._kill_rels(st, v["d"])
                else:
                    for kk in [x for x in st if isinstance(x, tuple) and x[0] == v["d"]]:
                        del st[kk]
                    st.pop(("zinit", v["d"]), None)
                    ini = kids(v)[0] if kids(v) else None
                    if ini is not None and ini.get("k") == "InitListExpr" and t.get("rec") is not None and \
                            all(const_of(e) == 0 for e in kids(ini)):
                        # = {0}: every scalar member starts as zero until it is written or the record escapes
                        st[("zinit", v["d"])] = (0, 0)
        elif k == "CallExpr":
            # address-taken variables may be written by the callee
            for a in call_args(n):
                x = strip(a)
                if x is not None and x.get("k") == "UnaryOperator" and x.get("op") == "&":
                    self._assign(x["c"][0], (None, None), st)
                    kx = self.key_of(x["c"][0])
                    if kx is not None:
                        st.pop(kx, None)
                    y = x["c"][0]
                    while y is not None and y.get("k") in CASTS and y.get("c"):
                        y = y["c"][0]
                    if y is not None and y.get("k") == "DeclRefExpr":
                        for kk in [z for z in st if isinstance(z, tuple) and z[0] == y["d"]]:
                            del st[kk]
                        st.pop(("zinit", y["d"]), None)
                elif x is not None and x.get("k") == "DeclRefExpr" and self.tu.types[x["t"]].get("ptr"):
                    # pointer to record passed on: its members may change -- only those the callee (transitively) assigns
                    # when its body is known
                    wr = self._callee_writes(n.get("callee"), call_args(n).index(a)) if n.get("callee") else None
                    for kk in [z for z in st if isinstance(z, tuple) and len(z) == 2 and z[0] == x["d"]]:
                        if wr is None or any(kk[1] == w or kk[1].startswith(w + ".") or w.startswith(kk[1] + ".") for w in wr):
                            del st[kk]
                            self._kill_rels(st, kk)

    # ---- refinement
    def refine(self, cond, pol, st):
        """-> refined state or None if the edge is infeasible"""
        c = strip(cond)
        while c is not None and c.get("k") == "UnaryOperator" and c.get("op") == "!":
            pol = not pol
            c = strip(c["c"][0])
        if c is None:
            return st
        k = c.get("k")
        if k == "CallExpr" and c.get("callee") == "__builtin_expect":
            return self.refine(call_args(c)[0], pol, st)
        if k == "BinaryOperator" and c.get("op") == ",":
            return self.refine(c["c"][1], pol, st)
        if k == "BinaryOperator" and c.get("op") in ("&&", "||"):
            if (c["op"] == "&&" and pol) or (c["op"] == "||" and not pol):
                s1 = self.refine(c["c"][0], pol, st)
                return self.refine(c["c"][1], pol, s1) if s1 is not None else None
            # disjunction of possibilities: join of the alternatives
            a = self.refine(c["c"][0], pol, dict(st))
            b = self.refine(c["c"][1], pol, dict(st))
            if a is None:
                return b
            if b is None:
                return a
            return self._merge(a, b)
        if k == "BinaryOperator" and c.get("op") in ("==", "!=", "<", ">", "<=", ">=") and self._null_test(c):
            return st
        if k == "BinaryOperator" and c.get("op") in ("==", "!=", "<", ">", "<=", ">="):
            op = c["op"]
            if not pol:
                op = {"==": "!=", "!=": "==", "<": ">=", ">=": "<", ">": "<=", "<=": ">"}[op]
            l, r = c["c"][0], c["c"][1]
            # look through assignment: (x = f()) < 0
            ls = strip(l)
            if ls is not None and ls.get("k") == "BinaryOperator" and ls.get("op") == "=":
                l = ls["c"][0]
            rs = strip(r)
            if rs is not None and rs.get("k") == "BinaryOperator" and rs.get("op") == "=":
                r = rs["c"][0]
            a, b = self.eval(l, st), self.eval(r, st)
            na, nb = self._apply_rel(op, a, b)
            if na == "bot" or nb == "bot":
                return None
            st = dict(st)
            ka, kb = self.key_of(strip_casts(l)), self.key_of(strip_casts(r))
            la, lb = self._linear(l), self._linear(r)
            # ++x / --x in a comparison: its value is the (already updated) x
            if ka is None and la is not None and la[1] == 0 and la[0] not in self.zero_keys:
                ka = la[0]
            if kb is None and lb is not None and lb[1] == 0 and lb[0] not in self.zero_keys:
                kb = lb[0]
            if ka is not None:
                st[ka] = na
            if kb is not None:
                st[kb] = nb
            # what was learnt about a variable carries over to the variables it is tied to by difference bounds
            # (y - x <= c gives y <= hi(x) + c, x - y <= c' gives y >= lo(x) - c')
            for kx in (ka, kb):
                if kx is None or st.get(kx) is None:
                    continue
                xlo, xhi = st[kx]
                for key2, cval in list(st.items()):
                    if not (isinstance(key2, tuple) and len(key2) == 3 and key2[0] == "rel") or cval is None:
                        continue
                    _, p_, q_ = key2            # p_ - q_ <= cval
                    if q_ == kx and p_ != kx and xhi is not None:
                        old = st.get(p_)
                        if old is not None and (old[1] is None or old[1] > xhi + cval):
                            st[p_] = (old[0], xhi + cval)
                            if old[0] is not None and old[0] > xhi + cval:
                                return None
                    if p_ == kx and q_ != kx and xlo is not None:
                        old = st.get(q_)
                        if old is not None and (old[0] is None or old[0] < xlo - cval):
                            st[q_] = (xlo - cval, old[1])
                            if old[1] is not None and old[1] < xlo - cval:
                                return None
            # (x + a) op c  with x + a not wrapping in the type of the comparison: refine x against c - a
            for lx, lc, flip in ((la, lb, False), (lb, la, True)):
                if lx is not None and lc is not None and lx[0] is not None and lx[1] != 0 and lc[0] is None and lx[0] not in self.zero_keys:
                    side = l if not flip else r
                    xr = st.get(lx[0])
                    if xr is not None and lx[0] in self.ptr_keys:
                        # an offset into an object: bounded by PTRDIFF_MAX
                        xr = (xr[0], (1 << 62) if xr[1] is None else xr[1])
                    t = self.tu.types[strip(side)["t"]] if strip(side) is not None and strip(side).get("t") is not None else None
                    tr = type_range(t)
                    if xr is None or xr[0] is None or xr[1] is None or tr == (None, None):
                        continue
                    if not (tr[0] <= xr[0] + lx[1] and xr[1] + lx[1] <= tr[1]):
                        continue
                    o2 = op if not flip else {"<": ">", ">": "<", "<=": ">=", ">=": "<=", "==": "==", "!=": "!="}[op]
                    nx, _ = self._apply_rel(o2, st.get(lx[0]), (lc[1] - lx[1], lc[1] - lx[1]))
                    if nx == "bot":
                        return None
                    st[lx[0]] = nx
            if la is not None and lb is not None and la[0] is not None and lb[0] is not None:
                # (x + a) op (y + b)
                d = lb[1] - la[1]
                # infeasible edges by the difference bounds already known: x - y <= cxy, y - x <= cyx
                cxy, cyx = self.rel(st, la[0], lb[0]), self.rel(st, lb[0], la[0])
                dead = False
                if op == "<":
                    dead = cyx is not None and cyx <= -d
                elif op == "<=":
                    dead = cyx is not None and cyx <= -d - 1
                elif op == ">":
                    dead = cxy is not None and cxy <= d
                elif op == ">=":
                    dead = cxy is not None and cxy <= d - 1
                elif op == "==":
                    dead = (cxy is not None and cxy <= d - 1) or (cyx is not None and cyx <= -d - 1)
                elif op == "!=":
                    dead = cxy is not None and cxy <= d and cyx is not None and cyx <= -d
                if dead:
                    return None
                if op == "<":
                    self._set_rel(st, la[0], lb[0], d - 1)
                elif op == "<=":
                    self._set_rel(st, la[0], lb[0], d)
                elif op == ">":
                    self._set_rel(st, lb[0], la[0], -d - 1)
                elif op == ">=":
                    self._set_rel(st, lb[0], la[0], -d)
                elif op == "==":
                    self._set_rel(st, la[0], lb[0], d)
                    self._set_rel(st, lb[0], la[0], -d)
            return st
        # plain truth test
        if c.get("k") == "UnaryOperator" and c.get("op") in ("++", "--") and not c.get("postfix"):
            c = strip(c["c"][0])      # value of ++x is the (already updated) x
        key = self.key_of(strip_casts(c)) if c.get("k") in ("DeclRefExpr", "MemberExpr") or c.get("k") in CASTS else None
        if key is not None:
            v = self.eval(c, st)
            if pol:
                if v == (0, 0):
                    return None
                st = dict(st)
                if v[0] == 0:
                    st[key] = (1, v[1])
                elif v[1] == 0:
                    st[key] = (v[0], -1)
            else:
                m = meet(v, (0, 0))
                if m == "bot":
                    return None
                st = dict(st)
                st[key] = (0, 0)
        return st

    def _apply_rel(self, op, a, b):
        if op == "==":
            m = meet(a, b)
            return m, m
        if op == "!=":
            na, nb = a, b
            if b[0] is not None and b[0] == b[1]:
                if a[0] == b[0] and a[1] == b[0]:
                    return "bot", "bot"
                if a[0] == b[0]:
                    na = (a[0] + 1, a[1])
                elif a[1] == b[0]:
                    na = (a[0], a[1] - 1)
            if a[0] is not None and a[0] == a[1]:
                if b[0] == a[0]:
                    nb = (b[0] + 1, b[1])
                elif b[1] == a[0]:
                    nb = (b[0], b[1] - 1)
            return na, nb
        if op in ("<", "<="):
            d = 1 if op == "<" else 0
            na = meet(a, (None, None if b[1] is None else b[1] - d))
            nb = meet(b, (None if a[0] is None else a[0] + d, None))
            return na, nb
        if op in (">", ">="):
            nb, na = self._apply_rel("<" if op == ">" else "<=", b, a)
            return na, nb
        return a, b

    def _complete_rels(self, a, b):
        """rel facts known on one side only: derive the bound the other side's intervals imply"""
        for src, dst in ((a, b), (b, a)):
            for kk in src:
                if isinstance(kk, tuple) and len(kk) == 3 and kk[0] == "rel" and kk not in dst:
                    c = self.rel(dst, kk[1], kk[2])
                    if c is not None:
                        dst[kk] = c

    # ---- driver
    MAXDISJ = 6

    def _join_states(self, a, b, widen_it=False, materialise=False):
        a, b = dict(a), dict(b)
        self._zinit_fill(a, b)
        if materialise:
            # at a loop head: difference bounds that both sides imply through their intervals only (x <= hi, y >= lo) would be
            # lost by the interval join; make them explicit for the variables whose intervals differ
            ch = [k for k in set(a) & set(b) if not self._is_rel(k) and not self._is_diff(k) and a[k] != b[k]]
            if len(ch) <= 8:
                for x in ch:
                    for y in ch:
                        if x != y and ("rel", x, y) not in a and ("rel", x, y) not in b:
                            ca, cb = self.rel(a, x, y), self.rel(b, x, y)
                            if ca is not None and cb is not None and max(ca, cb) <= 1:
                                a[("rel", x, y)] = ca
                                b[("rel", x, y)] = cb
        self._complete_rels(a, b)
        new = {}
        for kk in set(a) & set(b):
            if isinstance(kk, tuple) and len(kk) == 3 and kk[0] == "rel":
                j = max(a[kk], b[kk])
                if widen_it and j != a[kk]:
                    # widening of a difference bound: jump to the next of -1, 0, 1 (the bounds loops establish), else drop
                    cand = [t for t in (-1, 0, 1) if t >= j]
                    if not cand:
                        continue
                    j = cand[0]
                new[kk] = j
                continue
            if self._is_diff(kk):
                if a[kk] == b[kk]:
                    new[kk] = a[kk]
                continue
            j = join(a[kk], b[kk])
            if widen_it and j != a[kk]:
                j = widen(a[kk], j, self.thresholds)
            if j != (None, None):
                new[kk] = j
        return new

    def _leq(self, a, b):
        """state a is included in state b (b is weaker or equal)"""
        for kk, vb in b.items():
            if isinstance(kk, tuple) and len(kk) == 3 and kk[0] == "rel":
                va = self.rel(a, kk[1], kk[2])
                if va is None or va > vb:
                    return False
                continue
            if self._is_diff(kk):
                if a.get(kk) != vb:
                    return False
                continue
            va = a.get(kk)
            if va is None and isinstance(kk, tuple) and len(kk) == 2 and ("zinit", kk[0]) in a:
                va = (0, 0)
            if va is None:
                return False
            if vb[0] is not None and (va[0] is None or va[0] < vb[0]):
                return False
            if vb[1] is not None and (va[1] is None or va[1] > vb[1]):
                return False
        return True

    def _signature(self, st):
        sig = []
        for d in self.discriminators:
            v = st.get(d)
            if v is None:
                sig.append("?")
            elif v == (0, 0):
                sig.append("Z")
            elif (v[0] is not None and v[0] > 0) or (v[1] is not None and v[1] < 0):
                sig.append("N")
            else:
                sig.append("?")
        return tuple(sig)

    def run(self):
        """trace-partitioned interval analysis: states are partitioned by the zero/non-zero status of the function's
        switch operands (its main discriminators); one state per (block, partition), joined and widened inside"""
        fn = self.fn
        cfg = fn.cfg
        if cfg is None:
            raise AnalysisBroken("no CFG for %s" % fn.name)
        ths = {0, 1, -1}
        for n in fn.walk():
            c = const_of(n)
            if c is not None and -(1 << 40) < c < (1 << 40):
                ths.update((c, c - 1, c + 1))
        for kk, v in self.entry.items():
            if self._is_rel(kk) or self._is_diff(kk):
                continue
            for x in v:
                if x is not None:
                    ths.add(x)
        self.thresholds = sorted(ths)
        # discriminators: operands of switches with the most cases, plus keys tested `== 0`-like right before them
        cand = {}
        for sw in fn.switches():
            k = self.key_of(strip_casts(sw["c"][0])) if sw.get("c") else None
            if k is not None:
                ncase = sum(1 for x in walk(sw["c"][1]) if x.get("k") == "CaseStmt") if len(sw["c"]) > 1 else 0
                cand[k] = max(cand.get(k, 0), ncase)
        self.discriminators = [k for k, _ in sorted(cand.items(), key=lambda kv: -kv[1])[:2]]
        if self.force_discriminators is not None:
            self.discriminators = list(self.force_discriminators)
        # one-shot loop flags (the `with (decls)` idiom: for (decls, *flag = (void*)1; flag; flag = 0)): pointer variables that only
        # ever hold constants steer a loop that runs exactly once; partitioning on them keeps what the body established
        consts = {}
        for n in fn.walk():
            if n.get("k") == "Var" and self.tu.types[n["t"]].get("ptr"):
                consts.setdefault(n["d"], []).append(const_of(kids(n)[0]) if kids(n) else "uninit")
            elif n.get("k") == "BinaryOperator" and n.get("op") == "=":
                l = strip_casts(n["c"][0])
                if l is not None and l.get("k") == "DeclRefExpr" and l.get("d") in consts:
                    consts[l["d"]].append(const_of(n["c"][1]))
            elif n.get("k") == "UnaryOperator" and n.get("op") in ("&", "++", "--", "*"):
                l = strip_casts(n["c"][0])
                if l is not None and l.get("k") == "DeclRefExpr" and l.get("d") in consts:
                    consts[l["d"]].append(None)
            elif n.get("k") == "CompoundAssignOperator":
                l = strip_casts(n["c"][0])
                if l is not None and l.get("k") == "DeclRefExpr" and l.get("d") in consts:
                    consts[l["d"]].append(None)
        for d, vs in consts.items():
            if len(vs) >= 2 and all(isinstance(v, int) for v in vs):
                self.ptr_keys.add(d)
                if d not in self.discriminators:
                    self.discriminators.append(d)
        instate = {cfg.entry: {self._signature(self.entry): dict(self.entry)}}
        visits = {}
        # widening points: targets of DFS back edges (every cycle passes through one); elsewhere states are only joined
        wpoints, color, stack = set(), {}, [(cfg.entry, iter(cfg.succs.get(cfg.entry, ())))]
        color[cfg.entry] = 1
        while stack:
            u, it = stack[-1]
            for v in it:
                if color.get(v) == 1:
                    wpoints.add(v)
                elif v not in color:
                    color[v] = 1
                    stack.append((v, iter(cfg.succs.get(v, ()))))
                    break
            else:
                color[u] = 2
                stack.pop()
        work = [(cfg.entry, self._signature(self.entry))]
        rounds = 0
        while work:
            b, sig = work.pop()
            cur = instate.get(b, {}).get(sig)
            if cur is None:
                continue
            rounds += 1
            if rounds > 200000:
                raise AnalysisBroken("interval analysis of %s does not converge" % fn.name)
            for s, ns in self._step(b, dict(cur)):
                sg = self._signature(ns)
                part = instate.setdefault(s, {})
                old = part.get(sg)
                if old is None:
                    part[sg] = ns
                    work.append((s, sg))
                    continue
                if self._leq(ns, old):
                    continue
                visits[(s, sg)] = visits.get((s, sg), 0) + 1
                merged = self._join_states(old, ns, widen_it=s in wpoints and visits[(s, sg)] > WIDEN_AFTER, materialise=s in wpoints)
                if merged != old:
                    part[sg] = merged
                    work.append((s, sg))
        self.instate = {b: list(p.values()) for b, p in instate.items()}
        return self

    def _step(self, b, st):
        nodes = self.fn.nodes
        cfg = self.fn.cfg
        blk = cfg.blocks[b]
        for e in blk["e"]:
            n = nodes.get(e)
            if n is not None:
                self.transfer(n, st)
        outs = []
        ss = blk["s"]
        if blk.get("tk") == "SwitchStmt" and "cond" in blk:
            cond = nodes.get(blk["cond"])
            key = self.key_of(strip_casts(cond)) if cond is not None else None
            cv = self.eval(cond, st) if cond is not None else (None, None)
            labelled = []
            # every case label of the switch (a block can carry several: `case 1: case 2:` chains)
            all_labels = []
            swn = nodes.get(blk.get("term")) if blk.get("term") is not None else None
            for s in ss:
                if s is None:
                    continue
                lab = nodes.get(cfg.blocks[s].get("label"))
                cur_l = lab
                while cur_l is not None and cur_l.get("k") == "CaseStmt":
                    if cur_l.get("lo") is not None:
                        all_labels.append((cur_l["lo"], cur_l.get("hi", cur_l["lo"])))
                    nxt = kids(cur_l)[-1] if kids(cur_l) else None
                    cur_l = nxt if nxt is not None and nxt.get("k") == "CaseStmt" else None
            covered = False
            if cv[0] is not None and cv[1] is not None and cv[1] - cv[0] <= 4096:
                covered = all(any(lo <= v <= hi for lo, hi in all_labels) for v in range(cv[0], cv[1] + 1))
            for s in ss:
                if s is None:
                    continue
                lab = nodes.get(cfg.blocks[s].get("label"))
                ns = dict(st)
                if lab is not None and lab.get("k") == "CaseStmt" and lab.get("lo") is not None:
                    rng = (lab["lo"], lab.get("hi", lab["lo"]))
                    m = meet(cv, rng)
                    if m == "bot":
                        continue
                    if key is not None:
                        ns[key] = m
                    labelled.append(rng)
                elif covered and (lab is None or lab.get("k") == "DefaultStmt"):
                    # every value the operand can take has a case: the default / fall-out edge is dead
                    continue
                outs.append((s, ns))
        elif len(ss) == 2 and "cond" in blk and ss[0] is not None and ss[1] is not None:
            cond = nodes.get(blk["cond"])
            if cond is not None:
                cond = effective_cond(cond)
            for s, pol in ((ss[0], True), (ss[1], False)):
                ns = self.refine(cond, pol, dict(st)) if cond is not None else dict(st)
                if ns is not None:
                    outs.append((s, ns))
        else:
            for s in ss:
                if s is not None:
                    outs.append((s, dict(st)))
        return outs

    def states_at(self, node):
        """the disjunctive states just before `node` is evaluated (node must be a CFG element); [] if unreachable"""
        cfg = self.fn.cfg
        sb = cfg.stmt_block(node["i"]) if "i" in node else None
        if sb is None:
            return None
        b, idx = sb
        out = []
        nodes = self.fn.nodes
        for st0 in self.instate.get(b, []):
            st = dict(st0)
            for e in cfg.blocks[b]["e"][:idx]:
                n = nodes.get(e)
                if n is not None:
                    self.transfer(n, st)
            out.append(st)
        return out

    def state_at(self, node):
        """join of the disjuncts (for clients that want one interval)"""
        sts = self.states_at(node)
        if not sts:
            return None
        res = sts[0]
        for o in sts[1:]:
            res = self._join_states(res, o)
        return res

    def range_at(self, node, expr=None):
        """interval of `expr` (default: node itself) in the state before `node`; None if node unreachable"""
        sts = self.states_at(node)
        if sts is None:
            cur = self.fn.parent(node)
            while cur is not None and sts is None:
                if "i" in cur:
                    sts = self.states_at(cur)
                cur = self.fn.parent(cur)
        if not sts:
            return None
        r = None
        for st in sts:
            v = self.eval(expr if expr is not None else node, st)
            r = v if r is None else join(r, v)
        return r


def strip_casts(n):
    while n is not None and n.get("k") in CASTS and n.get("c"):
        n = n["c"][0]
    return n
