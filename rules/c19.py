"""C19 — zone files and zone maps load safely and look up faithfully.

Decided (structure of the loaders, for all file contents at once):

 RF10-image   zif_open / tzm_open: every read of the file image -- through the byte readers, subscripts, memcmp, memcpy --
              lies inside [0, file size): linear-form abstract interpretation with the header counts as symbols; an
              access at offset form o of n bytes is accepted when  size - o - n >= 0  follows from the branch conditions
              passed (the size checks) by a non-negative combination, and o >= 0
 RF10-heap    the same for the object the loader allocates: every store into it lies inside the malloc'ed size
 RF10-arith   offsets built from file counts are computed in 64 bits (no 32-bit wrap)
 RF9-version  every file version the header switch accepts is decoded by the data switch
 RF10-type    transition types copied from the file are compared with the number of types, for all indices, before the
              object is returned; the number of types is at least 1 at the success return
 RF13-keyend  tzm_find locates the probed record's zone offset from the key's terminator, so the upper half starts behind the record
 RF2-tzm      the map compiler's record word and the reader's decoding agree (shift, byte order, zone offset width guarded)

Not decided: faithfulness of the bisection in tzm_find over all maps (a data-structure invariant over variable-length
records) -- see DESIGN.md.
"""
import os
from core import (AnalysisBroken, strip, kids, const_of, call_args, expr_text, walk, guards_of, norm_cond, CASTS, member_path, local_defs)
import linform
import intervals
from linform import LinForms, lf_add, lf_const, lf_scale, lf_text, freeze, thaw, ONE


def reader_footprints(tu, fn):
    """callees of fn that only read fixed bytes p[0..n-1] of a pointer parameter -> {name: (param index, n, unsigned result)}"""
    out = {}
    for c in fn.calls():
        name = c.get("callee")
        f = tu.functions.get(name) if name else None
        if f is None or name in out or not f.params:
            continue
        for pi, p in enumerate(f.params):
            if not tu.types[p["t"]].get("ptr"):
                continue
            idxs, other = [], False
            for x in f.walk():
                if x.get("k") == "DeclRefExpr" and x.get("d") == p["d"]:
                    par = f.parent(x)
                    while par is not None and par.get("k") in CASTS:
                        par = f.parent(par)
                    if par is not None and par.get("k") == "ArraySubscriptExpr" and const_of(par["c"][1]) is not None:
                        idxs.append(const_of(par["c"][1]))
                    else:
                        other = True
            if idxs and not other and min(idxs) >= 0:
                rt = None
                for x in f.walk():
                    if x.get("k") == "ReturnStmt" and kids(x):
                        rt = tu.types[strip(kids(x)[0])["t"]] if strip(kids(x)[0]).get("t") is not None else None
                # the declared return type decides signedness: take it from a call site
                ct = tu.types[c["t"]] if c.get("t") is not None else {}
                out[name] = (pi, max(idxs) + 1, bool(ct.get("int")) and not ct.get("sg"))
    return out


def _derived_vars(fn, seeds):
    """flow-insensitive: variables / members that may hold a pointer derived from calls to `seeds`"""
    der = set()
    changed = True

    def mentions_der(e):
        for y in walk(e):
            if y.get("k") == "CallExpr" and y.get("callee") in seeds:
                return True
            if y.get("k") == "DeclRefExpr" and y.get("d") in der:
                return True
        return False
    while changed:
        changed = False
        for x in fn.walk():
            tgt = rhs = None
            if x.get("k") == "BinaryOperator" and x.get("op") == "=":
                l = strip(x["c"][0])
                if l is not None and l.get("k") == "DeclRefExpr":
                    tgt, rhs = l["d"], x["c"][1]
            elif x.get("k") == "Var" and kids(x):
                tgt, rhs = x["d"], kids(x)[0]
            if tgt is not None and tgt not in der and fn.tu.types[(x if x.get("k") == "Var" else strip(x["c"][0]))["t"]].get("ptr") \
                    and mentions_der(rhs):
                der.add(tgt)
                changed = True
    return der


def check_loader(P, R, tu, fname, rule_img="RF10-image", rule_heap="RF10-heap", min_img=8, min_heap=0, image_param=None):
    """image_param = (pointer parameter index, size parameter index, bytes known to exist): analyse a helper that is handed
    the file image and its size (the contract is checked at its call sites by the caller of this function)"""
    fn = tu.func(fname)
    if fn is None:
        raise AnalysisBroken("%s vanished" % fname)
    R.saw(fn)
    readers = reader_footprints(tu, fn)
    lfm = LinForms(fn, readers=readers, allocators={"mmap": (1, "image"), "malloc": (0, "heap")})
    img_vars = _derived_vars(fn, {"mmap"})
    if image_param is not None:
        pi, si, known = image_param
        base = ("base", "image")
        lfm.objkind[base] = "image"
        szsym = ("u", fn.params[si]["d"], "entry")
        lfm.run(entry_env={fn.params[pi]["d"]: {base: 1}, ("size", base): {szsym: 1}},
                entry_facts=[freeze(lf_add({szsym: 1}, lf_const(-known)))])
        img_vars = _derived_vars(fn, set()) | {fn.params[pi]["d"]}
        changed = True
        while changed:
            changed = False
            for x in fn.walk():
                if x.get("k") == "Var" and kids(x) and fn.tu.types[x["t"]].get("ptr") and x["d"] not in img_vars and \
                        any(y.get("k") == "DeclRefExpr" and y.get("d") in img_vars for y in walk(kids(x)[0])):
                    img_vars.add(x["d"])
                    changed = True
                elif x.get("k") == "BinaryOperator" and x.get("op") == "=":
                    l = strip(x["c"][0])
                    if l is not None and l.get("k") == "DeclRefExpr" and fn.tu.types[l["t"]].get("ptr") and l["d"] not in img_vars and \
                            any(y.get("k") == "DeclRefExpr" and y.get("d") in img_vars for y in walk(x["c"][1])):
                        img_vars.add(l["d"])
                        changed = True
    else:
        lfm.run()
    n_img = n_heap = 0
    seen = set()

    def classify(addr, st):
        bases = [s for s in addr if s != ONE and s[0] == "base"]
        if len(bases) != 1 or addr[bases[0]] != 1:
            return None, None, None
        b = bases[0]
        kind = lfm.objkind.get(b)
        sz = st.env.get(("size", b))
        off = dict(addr)
        del off[b]
        return kind, off, (dict(sz) if sz is not None else None)

    def access(node, ptr_expr, addr, nbytes, what, st):
        nonlocal n_img, n_heap
        if addr is None:
            # untracked address: a defect pattern for pointers into the file image, undecided for others
            vs = [y["d"] for y in walk(ptr_expr) if y.get("k") == "DeclRefExpr"]
            if any(v in img_vars for v in vs):
                return ("img", False, "the offset of %s into the file image is not a linear form of header counts the analysis "
                        "can follow (32-bit arithmetic, or a value of unknown origin)" % what)
            return None
        kind, off, size = classify(addr, st)
        if kind is None:
            return None
        if size is None:
            return ("img" if kind == "image" else "heap", False, "size of the object is unknown")
        nb = nbytes if isinstance(nbytes, dict) else lf_const(nbytes)
        lo_ok = lfm.prove(off, st)
        hi_ok = lfm.prove(lf_add(lf_add(size, off, -1), nb, -1), st)
        if not (lo_ok and hi_ok):
            # second chance: difference bounds between variables from the interval engine (x <= y + c), as facts over the
            # variables' current linear forms
            st2 = import_rels(st, node)
            lo_ok = lfm.prove(off, st2)
            hi_ok = lfm.prove(lf_add(lf_add(size, off, -1), nb, -1), st2)
        if lo_ok and hi_ok:
            return ("img" if kind == "image" else "heap", True, None)
        return ("img" if kind == "image" else "heap", False,
                "%s at offset %s, %s byte(s): %s not implied by the conditions passed (object size %s)"
                % (what, lf_text(off, lfm.names), lf_text(nb, lfm.names),
                   "offset >= 0" if not lo_ok else "offset + length <= size", lf_text(size, lfm.names)))

    iv_cache = []

    def import_rels(st, node):
        if not iv_cache:
            iv_cache.append(intervals.Intervals(fn).run())
        iv = iv_cache[0]
        cur = node
        ivs = None
        while cur is not None and ivs is None:
            if "i" in cur:
                ivs = iv.states_at(cur)
            cur = fn.parent(cur)
        st2 = st.copy()
        if not ivs:
            return st2
        keys = [k for k, v in st.env.items() if v is not None and not (isinstance(k, tuple) and k[0] == "size") and
                all(k in s_ or True for s_ in ivs)]
        for kx in keys:
            for ky in keys:
                if kx == ky:
                    continue
                cs = [iv.rel(s_, kx, ky) for s_ in ivs]
                if any(c is None for c in cs):
                    continue
                c = max(cs)
                if c <= 1:
                    st2.facts.add(freeze(lf_add(lf_add(st.env[ky], lf_const(c)), st.env[kx], -1)))
        return st2

    results = {}       # (node id, what) -> list of verdicts over states

    def visit(node, ptr_expr, nbytes, what, addr_fn):
        sts = lfm.states_at(node)
        if not sts:
            return
        for st in sts:
            addr = addr_fn(st)
            nb = nbytes(st) if callable(nbytes) else nbytes
            if nb is None:
                nb_v = None
            else:
                nb_v = nb
            v = access(node, ptr_expr, addr, nb_v, what, st) if nb_v is not None else \
                (("img", False, "length of %s is not a linear form" % what) if any(
                    y.get("k") == "DeclRefExpr" and y.get("d") in img_vars for y in walk(ptr_expr)) else None)
            if v is not None:
                results.setdefault((node.get("i"), what, node.get("l")), []).append((v, node))

    for x in fn.walk():
        k = x.get("k")
        if k == "CallExpr" and x.get("callee") in readers:
            pi, nb, _ = readers[x["callee"]]
            a = call_args(x)[pi]
            visit(x, a, nb, "%s(%s)" % (x["callee"], expr_text(strip(a))), lambda st, a=a: lfm.lin(a, st))
        elif k == "CallExpr" and x.get("callee") in ("memcmp", "memcpy", "memmove"):
            args = call_args(x)
            for idx in (0, 1):
                a = args[idx]
                visit(x, a, (lambda st, e=args[2]: lfm.lin(e, st)), "%s arg %d %s" % (x["callee"], idx + 1, expr_text(strip(a))),
                      lambda st, a=a: lfm.lin(a, st))
        elif k == "ArraySubscriptExpr":
            b = linform.strip_casts_only(x["c"][0])
            bt = fn.tu.types[b["t"]] if b is not None else {}
            if b is None or not (bt.get("ptr") or (b.get("k") == "MemberExpr" and b.get("arrow") and bt.get("c", "").endswith("]"))):
                continue
            es = lfm.elem_size(b)
            if es is None:
                continue
            visit(x, x, es, expr_text(x), lambda st, x=x: lfm.addr_of(x, st))
        elif k == "MemberExpr" and x.get("arrow"):
            # p->member: the member's bytes at p + offsetof(member)
            b = linform.strip_casts_only(x["c"][0])
            if b is None or b.get("t") is None or not fn.tu.types[b["t"]].get("ptr"):
                continue
            off = lfm._member_offset(b, x.get("n"))
            t = fn.tu.types[x["t"]] if x.get("t") is not None else {}
            nb = (t.get("w") or 0) // 8
            if off is None:
                continue
            if t.get("arr") is not None and not nb:
                continue          # flexible array member: its elements are checked where they are subscripted
            if not nb:
                continue
            visit(x, x, nb, expr_text(x), lambda st, b=b, off=off: (lambda v: lf_add(v, lf_const(off)) if v is not None else None)(lfm.lin(b, st)))
        elif k == "UnaryOperator" and x.get("op") == "*":
            b = linform.strip_casts_only(x["c"][0])
            if b is None or b.get("t") is None or not fn.tu.types[b["t"]].get("ptr"):
                continue
            t = fn.tu.types[x["t"]] if x.get("t") is not None else {}
            if t.get("rec") is not None:
                nb = (t.get("w") or 0) // 8
            else:
                nb = lfm.elem_size(b)
            if nb:
                visit(x, x, nb, expr_text(x), lambda st, x=x: lfm.addr_of(x, st))
    for (nid, what, line), vs in sorted(results.items(), key=lambda kv: (kv[0][2] or 0, kv[0][1])):
        kind = vs[0][0][0]
        bad = [v for v, _ in vs if not v[1]]
        node = vs[0][1]
        rule = rule_img if kind == "img" else rule_heap
        if kind == "img":
            n_img += 1
        else:
            n_heap += 1
        if not bad:
            R.ob(rule, "%s: %s inside the %s" % (fname, what, "file image" if kind == "img" else "allocated object"), True,
                 sample={"rule": rule, "function": fname, "access": what})
        else:
            R.finding(rule, fn, what, bad[0][2], node)
    R.floor(rule_img, "file image accesses in %s" % fname, n_img, min_img)
    if min_heap:
        R.floor(rule_heap, "heap object accesses in %s" % fname, n_heap, min_heap)
    return lfm


def check_versions(P, R, tu):
    rule = "RF9-version"
    fn = tu.func("zif_open")
    sws = []
    for sw in fn.switches():
        op = strip(sw["c"][0])
        while op is not None and op.get("k") in CASTS:
            op = strip(op["c"][0])
        names = {y.get("n") for y in walk(op) if y.get("k") in ("DeclRefExpr", "MemberExpr")}
        # the operand is the version byte: either the variable assigned from hdr[offsetof(version)] or that read itself
        sws.append((sw, op))
    vsw = []
    for sw, op in sws:
        src = op
        if op.get("k") == "BinaryOperator" and op.get("op") == "=":
            src = strip(op["c"][1])
            var = strip(op["c"][0])
        else:
            var = op if op.get("k") == "DeclRefExpr" else None
        vsw.append((sw, var, src))
    # group switches on the same variable (or the same file byte)
    groups = {}
    for sw, var, src in vsw:
        key = var["d"] if var is not None else expr_text(src)
        groups.setdefault(key, []).append(sw)
    found = False
    for key, g in groups.items():
        if len(g) < 2:
            continue
        found = True
        from core import switch_cases
        sets = []
        for sw in g:
            labels = set()
            has_default = False
            for x in walk(sw["c"][1]):
                if x.get("k") == "CaseStmt" and x.get("lo") is not None:
                    labels.update(range(x["lo"], x.get("hi", x["lo"]) + 1))
                elif x.get("k") == "DefaultStmt":
                    has_default = True
            sets.append((labels, has_default, sw))
        accept = sets[0][0]
        for labels, has_default, sw in sets[1:]:
            missing = accept - labels
            if missing:
                R.finding(rule, fn, "data switch", "the header switch accepts version byte(s) %s that the data switch at line %s does not decode: "
                          "the object is returned with its tables unset" % (sorted(chr(m) if 32 < m < 127 else m for m in missing), sw.get("l")), sw)
            else:
                R.ob(rule, "data switch at line %s decodes every accepted version %s" % (sw.get("l"), sorted(accept)), True)
    if not found:
        # the dispatch on the version is not a pair of switches (an if chain, say): whether every accepted version has its tables
        # decoded is then decided on the loads themselves (RF2-zifopen folds zif_open on version 1 and 2 images and on every prefix
        # of them); no structural comparison
        R.notes.append("%s: the version dispatch of zif_open is not a pair of switches: not compared structurally, decided by RF2-zifopen" % rule)


def check_types(P, R, tu, lfm):
    rule = "RF10-type"
    fn = tu.func("zif_open")
    cfg = fn.cfg
    # the success return
    rets = [r for r in fn.walk() if r.get("k") == "ReturnStmt" and kids(r) and strip(kids(r)[0]).get("k") == "DeclRefExpr"
            and strip(kids(r)[0]).get("n") == "res"]
    mm = [c for c in fn.calls("mmap")]
    if not mm:
        raise AnalysisBroken("%s: the mapping call of zif_open vanished" % rule)
    mb = cfg.stmt_block(mm[0]["i"])[0]
    rets = [r for r in rets if cfg.dominates(mb, cfg.stmt_block(r["i"])[0])]      # objects made from a file only
    # bulk copies from the image into a byte table of the object
    copies = []
    for c in fn.calls("memcpy"):
        a = call_args(c)
        d = strip(a[0])
        if d is not None and d.get("k") == "MemberExpr":
            copies.append((c, d.get("n"), a[2]))
    if not copies:
        raise AnalysisBroken("%s: the copy of the transition types was not recognised" % rule)
    # validation loops:  for (i = 0; i < N; i++) if (res->F[i] >= M) fail
    valid = {}
    for loop in fn.walk():
        if loop.get("k") != "ForStmt":
            continue
        init, cond, inc, body = (loop["c"] + [None] * 5)[:5][0], None, None, None
        parts = loop.get("c", [])
        # clang ForStmt children: init, condvar, cond, inc, body (nulls kept by the extractor as None / missing)
        ivar = None
        for x in walk(parts[0]) if parts and parts[0] else []:
            if x.get("k") == "Var" and kids(x) and const_of(kids(x)[0]) == 0:
                ivar = x["d"]
        if ivar is None:
            continue
        cmpn = None
        for x in walk(loop):
            if x.get("k") == "BinaryOperator" and x.get("op") in (">=", "<", ">", "<="):
                l, r = strip(x["c"][0]), strip(x["c"][1])
                for a, b, op in ((l, r, x["op"]), (r, l, {">=": "<=", "<=": ">=", "<": ">", ">": "<"}[x["op"]])):
                    a0 = linform.strip_casts_only(a)
                    if a0 is not None and a0.get("k") == "ArraySubscriptExpr":
                        base = linform.strip_casts_only(a0["c"][0])
                        idx = linform.strip_casts_only(a0["c"][1])
                        if base is not None and base.get("k") == "MemberExpr" and idx is not None and idx.get("k") == "DeclRefExpr" \
                                and idx.get("d") == ivar:
                            cmpn = (x, base.get("n"), b, op)
        if cmpn is None:
            continue
        x, field, bound, op = cmpn
        # loop bound
        lc = None
        for y in walk(loop):
            if y.get("k") == "BinaryOperator" and y.get("op") == "<" and strip(y["c"][0]).get("k") == "DeclRefExpr" \
                    and strip(y["c"][0]).get("d") == ivar:
                lc = y["c"][1]
                break
        incs = [y for y in walk(loop) if y.get("k") == "UnaryOperator" and y.get("op") == "++" and strip(y["c"][0]).get("d") == ivar]
        writes = [y for y in walk(loop) if y.get("k") in ("BinaryOperator", "CompoundAssignOperator") and y.get("op", "").endswith("=")
                  and y.get("op") not in ("==", "!=", ">=", "<=") and strip(y["c"][0]).get("k") == "DeclRefExpr" and strip(y["c"][0]).get("d") == ivar]
        if lc is None or len(incs) != 1 or writes:
            continue
        valid[field] = (loop, x, bound, op, lc)
    for c, field, ln in copies:
        v = valid.get(field)
        if v is None and not valid and any(
                y.get("k") == "CallExpr" and tu.func(y.get("callee") or "") is not None
                and any((strip(a) or {}).get("k") == "MemberExpr" and (strip(a) or {}).get("n") == field for a in call_args(y))
                for y in fn.walk()):
            # the copied table is handed to a routine of this unit (the comparison with the other table's extent given a name of its
            # own): whether a file with a transition to a missing type is refused is decided on such files (RF2-zifopen)
            R.notes.append("%s: .%s is checked in a helper; not compared structurally, decided by RF2-zifopen on files with a wrong type index"
                           % (rule, field))
            continue
        if v is None:
            R.finding(rule, fn, "validation of %s" % field, "the bytes copied from the file into .%s index another table; they are never "
                      "compared with that table's extent before the object is returned" % field, c)
            continue
        loop, x, bound, op, lc = v
        # (1) the failing direction leads to failure: value >= bound must not reach the success return
        sts = lfm.states_at(c)
        st = sts[0] if sts else None
        ok_cover = False
        for st1 in lfm.states_at(x) or []:
            a, b = lfm.lin(lc, st1), None
            for st0 in (lfm.states_at(c) or []):
                b = lfm.lin(ln, st0)
                if a is not None and b is not None and a == b:
                    ok_cover = True
        blk = cfg.stmt_block(x["i"])
        # which branch fails?  the block ending in this condition has two successors
        bb = None
        for b_id, blk_d in cfg.blocks.items():
            if blk_d.get("cond") is not None:
                cn = fn.nodes.get(blk_d["cond"])
                if cn is not None and any(y is x for y in walk(cn)):
                    bb = b_id
        fails_ok = False
        if bb is not None and rets:
            rb = cfg.stmt_block(rets[0]["i"])[0]
            t_succ, f_succ = cfg.blocks[bb]["s"][0], cfg.blocks[bb]["s"][1]
            bad_succ = t_succ if op in (">=", ">") else f_succ
            reach = cfg.reachable_from(bad_succ)
            # the failing successor must not reach the success return without passing the loop again
            fails_ok = rb not in reach and bad_succ != rb
        # (2) bound is the number of entries of the indexed table: compare with the loop that fills it / the count
        strict = op in (">=", "<")
        # (3) the loop lies between the copy and the success return on every path
        lb = cfg.stmt_block(x["i"])[0] if cfg.stmt_block(x["i"]) else bb
        hb = None
        for b_id, blk_d in cfg.blocks.items():
            if blk_d.get("cond") is not None:
                cn = fn.nodes.get(blk_d["cond"])
                if cn is not None and any(y is strip(lc) or y is lc for y in walk(cn)):
                    hb = b_id
        cb = cfg.stmt_block(c["i"])[0]
        dom_ok = bool(rets) and hb is not None and all(cfg.dominates(hb, cfg.stmt_block(r["i"])[0]) for r in rets) \
            and hb in cfg.reachable_from(cb)
        if ok_cover and fails_ok and strict and dom_ok:
            R.ob(rule, "every copied .%s entry is compared (strictly) with %s before the success return" % (field, expr_text(strip(bound))), True)
        else:
            R.finding(rule, fn, "validation of %s" % field,
                      "the validation loop must cover all copied entries (%s), reject entry >= bound (%s, strict: %s) and lie on "
                      "every path to the success return (%s)" % (ok_cover, fails_ok, strict, dom_ok), x)
    # at least one type
    for r in rets:
        okn = True
        for st in lfm.states_at(r) or []:
            v = st.env.get((fn_var(fn, "tmp"), "nty"))
            if v is None or not lfm.prove(lf_add(v, lf_const(-1)), st):
                okn = False
        if okn:
            R.ob(rule, "number of types >= 1 at the success return", True)
        else:
            R.finding(rule, fn, "number of types", "an object with no type is returned: lookups before the first transition read offsets[0]", r)
    if not rets:
        raise AnalysisBroken("%s: success return of zif_open not recognised" % rule)


def check_tzmap(P, R):
    tu = P.tu("libdut_a-tzmap.o")
    rule = "RF10-tzm"
    opn = tu.func("tzm_open")
    if opn is None:
        raise AnalysisBroken("tzm_open vanished")
    lfm = check_loader(P, R, tu, "tzm_open", min_img=4)
    cfg = opn.cfg
    # the success return: returns the mapping itself
    rets = []
    for r in opn.walk():
        if r.get("k") == "ReturnStmt" and kids(r):
            for st in lfm.states_at(r) or []:
                v = lfm.lin(kids(r)[0], st)
                if v is not None and any(s_ != ONE and s_[0] == "base" for s_ in v):
                    rets.append(r)
                    break
    if not rets:
        raise AnalysisBroken("%s: success return of tzm_open not recognised" % rule)
    # validators: callees handed the image and its size whose zero result leads away from the success return
    validators = []
    for c in opn.calls():
        f = tu.functions.get(c.get("callee"))
        if f is None or len(call_args(c)) < 2:
            continue
        sts = lfm.states_at(c) or []
        okc = bool(sts)
        for st in sts:
            a0, a1 = lfm.lin(call_args(c)[0], st), lfm.lin(call_args(c)[1], st)
            bases = [s_ for s_ in (a0 or {}) if s_ != ONE and s_[0] == "base"]
            if a0 is None or a1 is None or len(bases) != 1 or set(a0) != {bases[0]}:
                okc = False
                break
            size = st.env.get(("size", bases[0]))
            if size is None or size != a1:
                okc = False
        if okc:
            validators.append((c, f))
    if not validators:
        R.finding(rule, opn, "validation call", "tzm_open returns the mapping without handing it, together with the file size, to a "
                  "validation routine: tzm_find follows offsets and scans for NUL bytes found in the file")
        return
    for c, f in validators:
        # the call's result guards the success return: some guard of the return mentions the call with the passing polarity
        okg = True
        for r in rets:
            hit = False
            for g in guards_of(opn, r):
                if "pol" not in g:
                    continue
                cnd, pol = g["cond"], g["pol"]
                while cnd is not None:
                    cnd = strip(cnd)
                    if cnd is not None and cnd.get("k") == "UnaryOperator" and cnd.get("op") == "!":
                        pol = not pol
                        cnd = cnd["c"][0]
                    else:
                        break
                if cnd is c and pol:
                    hit = True
            if not hit:
                okg = False
        if okg:
            R.ob(rule, "tzm_open: success return guarded by %s(image, size)" % f.name, True)
        else:
            R.finding(rule, opn, "validation result", "the result of %s does not decide whether tzm_open succeeds" % f.name, c)
        # contract of the helper: at least sizeof(header) bytes exist
        hdr = None
        for st in lfm.states_at(c) or []:
            size = st.env.get(("size", [s_ for s_ in lfm.lin(call_args(c)[0], st) if s_ != ONE][0]))
            k = 0
            while lfm.prove(lf_add(size, lf_const(-(k + 1))), st) and k < 4096:
                k += 1
            hdr = k if hdr is None else min(hdr, k)
        rec = tu.record("tzmap_s")
        if rec is None or hdr is None or hdr < rec["size"]:
            R.finding(rule, opn, "header size", "the image handed to %s is not known to hold the %s-byte header" % (f.name, rec and rec["size"]), c)
            continue
        vl = check_loader(P, R, tu, f.name, min_img=6, image_param=(0, 1, hdr))
        # post-conditions at the accepting returns: pool inside the file and non-empty; every word of the mapped names checked
        base = ("base", "image")
        offkey = (f.params[0]["d"], "off")
        acc = [r for r in f.walk() if r.get("k") == "ReturnStmt" and kids(r) and const_of(kids(r)[0]) not in (0, None)]
        if not acc:
            raise AnalysisBroken("%s: accepting return of %s not recognised" % (rule, f.name))
        for r in acc:
            okp = True
            for st in vl.states_at(r) or []:
                off = st.env.get(offkey)
                size = st.env.get(("size", base))
                if off is None or size is None or not vl.prove(lf_add(lf_add(size, off, -1), lf_const(-rec["size"])), st) \
                        or not vl.prove(lf_add(off, lf_const(-1)), st):
                    okp = False
            if okp:
                R.ob(rule, "%s accepts only if 1 <= pool size <= file size - header (return at line %s)" % (f.name, r.get("l")), True)
            else:
                R.finding(rule, f, "accepting return", "the map is accepted although the name pool offset was not shown to lie inside "
                          "the file (and to be non-zero)", r)
        # the zone offsets: a comparison `word >= pool size` inside a loop, rejecting
        okz = False
        for loop in f.walk():
            if loop.get("k") not in ("ForStmt", "WhileStmt", "DoStmt"):
                continue
            for x in walk(loop):
                if x.get("k") == "BinaryOperator" and x.get("op") in (">=", "<"):
                    for st in vl.states_at_any(x, f):
                        l, r_ = x["c"][0], x["c"][1]
                        for val, bound, op in ((l, r_, x["op"]), (r_, l, {">=": "<=", "<": ">"}[x["op"]])):
                            bl = vl.lin(bound, st)
                            if bl is not None and bl == st.env.get(offkey) and op in (">=", "<") and \
                                    any(y.get("k") == "ArraySubscriptExpr" for y in walk(val)):
                                okz = True
        if okz:
            R.ob(rule, "%s compares the zone offsets found in the file with the pool size" % f.name, True)
        else:
            R.finding(rule, f, "zone offsets", "the zone offsets stored in the file are not compared with the size of the name pool")
    # tzm_find: an empty range is never dereferenced
    fnd = tu.func("tzm_find")
    if fnd is None:
        raise AnalysisBroken("tzm_find vanished")
    R.saw(fnd)
    ptrs = {x["d"] for x in fnd.walk() if x.get("k") == "Var" and fnd.tu.types[x["t"]].get("ptr")}
    iv = intervals.Intervals(fnd, ptr_keys=ptrs).run()
    mids = []
    for x in fnd.walk():
        if x.get("k") == "BinaryOperator" and x.get("op") == "/":
            d = linform.strip_casts_only(x["c"][0])
            if d is not None and d.get("k") == "BinaryOperator" and d.get("op") == "-":
                a, b = linform.strip_casts_only(d["c"][0]), linform.strip_casts_only(d["c"][1])
                if a is not None and b is not None and a.get("k") == "DeclRefExpr" and b.get("k") == "DeclRefExpr" \
                        and a["d"] in ptrs and b["d"] in ptrs:
                    mids.append((x, a["d"], b["d"]))
    if not mids:
        raise AnalysisBroken("%s: midpoint of the bisection in tzm_find not recognised" % rule)
    for x, hi, lo in mids:
        cur = x
        sts = None
        while cur is not None and sts is None:
            if "i" in cur:
                sts = iv.states_at(cur)
            cur = fnd.parent(cur)
        okr = bool(sts) and all(iv.rel(st, lo, hi) is not None and iv.rel(st, lo, hi) <= 0 for st in sts)
        if okr:
            R.ob(rule, "tzm_find: the range is non-empty (lower <= upper) whenever its midpoint is dereferenced", True)
        else:
            R.finding(rule, fnd, "empty range", "the bisection computes and dereferences a midpoint although the range may be empty "
                      "(a map without mapped names): lower <= upper is not implied by the conditions passed", x)


def check_keyend(P, R):
    """progress of the map bisection: the upper half starts behind the probed record, whose zone offset word is found by
    aligning up from the key's terminator -- so the cursor it is computed from must be at a NUL byte on every path"""
    rule = "RF13-keyend"
    tu = P.tu("libdut_a-tzmap.o")
    fn = tu.func("tzm_find")
    R.saw(fn)
    sites = []
    for x in fn.walk():
        if x.get("k") == "CallExpr" and x.get("callee") == "align_to":
            a = strip(call_args(x)[1])
            cur = None
            for y in walk(a):
                if y.get("k") == "DeclRefExpr" and y.get("dk") == "var":
                    cur = y
            if cur is not None:
                sites.append((x, cur))
    if not sites:
        raise AnalysisBroken("%s: the alignment step of tzm_find was not recognised" % rule)
    for x, cur in sites:
        gs = guards_of(fn, x)
        atnul = False
        for g in gs:
            if "pol" not in g:
                continue
            c, pol = g["cond"], g["pol"]
            c = strip(c)
            while c is not None and c.get("k") == "UnaryOperator" and c.get("op") == "!":
                pol = not pol
                c = strip(c["c"][0])
            # *cur is false  /  *cur == 0 is true
            if c is not None and c.get("k") == "UnaryOperator" and c.get("op") == "*" and strip(c["c"][0]).get("d") == cur["d"] and not pol:
                atnul = True
            if c is not None and c.get("k") == "BinaryOperator" and c.get("op") in ("==", "!="):
                l, r = strip(c["c"][0]), strip(c["c"][1])
                if l is not None and l.get("k") == "UnaryOperator" and l.get("op") == "*" and strip(l["c"][0]).get("d") == cur["d"] \
                        and const_of(r) == 0 and ((c["op"] == "==") == pol):
                    atnul = True
        if atnul:
            R.ob(rule, "tzm_find: the zone offset word is located from the key's terminator (*%s == 0)" % cur.get("n"), True)
        else:
            R.finding(rule, fn, "upper half start", "the next record is located by aligning up from `%s`, which need not be at the end of the "
                      "probed key (a mismatch stops the comparison anywhere in it): the upper half can start inside the same key and the "
                      "bisection probes it again for ever" % cur.get("n"), x)


def check_wholekey(P, R):
    """the map compiler looks zone names up in a pool of NUL-terminated names: comparing the first n characters (n = the length of
    the name looked for) finds a longer name that merely begins with it unless the terminator at position n is tested as well"""
    rule = "RF-wholekey"
    tus = [t for t in P.tus if os.path.basename(t.main) == "tzmap.c"]
    if not tus:
        raise AnalysisBroken("%s: tzmap.c is not part of the build" % rule)
    seen = set()
    n = 0
    for t in tus:
        for fn in t.functions.values():
            if getattr(fn, "body", None) is None or not fn.file.endswith("tzmap.c"):
                continue
            for c in list(fn.calls("strncmp")) + list(fn.calls("strncasecmp")):
                key = (fn.name, c.get("l"))
                if key in seen:
                    continue
                seen.add(key)
                a = call_args(c)
                if len(a) < 3 or const_of(a[2]) is not None:
                    continue
                # the test the call stands in
                top = c
                par = fn.parent(top)
                ordering = False
                while par is not None and par.get("k") not in ("ForStmt", "WhileStmt", "IfStmt", "DoStmt", "ConditionalOperator", "ReturnStmt",
                                                                "CompoundStmt", "DeclStmt", "Var"):
                    if par.get("k") == "BinaryOperator" and par.get("op") in ("<", ">", "<=", ">="):
                        ordering = True
                    top = par
                    par = fn.parent(par)
                if ordering:
                    continue            # an ordering test (ascending keys), not a look-up
                R.saw(fn)
                n += 1
                ntxt = expr_text(strip(a[2]))
                bases = {expr_text(strip(a[0])), expr_text(strip(a[1]))}
                ok = False
                for y in walk(top):
                    if y.get("k") == "ArraySubscriptExpr" and expr_text(strip(y["c"][1])) == ntxt and expr_text(strip(y["c"][0])) in bases:
                        ok = True
                if ok:
                    R.ob(rule, "%s line %s: the comparison of the first `%s` characters goes with a test of the character behind them" % (
                        fn.name, c.get("l"), ntxt), True)
                else:
                    R.finding(rule, fn, "%s(%s) line %s" % (c.get("callee"), ", ".join(expr_text(strip(x))[:20] for x in a), c.get("l")),
                              "names are compared over the first `%s` characters only: a pooled name that merely begins with the one looked "
                              "for is taken for it (Etc/GMT+1 for Etc/GMT), and keys mapped to the shorter name get the longer one's zone"
                              % ntxt, c)
    R.floor(rule, "look-ups by length-limited comparison in tzmap.c", n, 1)


def check_keyorder(P, R):
    """the map compiler insists on keys in ascending strcmp order -- bytes compared as unsigned chars; the reader's bisection must
    order bytes the same way, so wherever it orders two key bytes (relational operator or a difference) both are unsigned chars"""
    rule = "RF-keyorder"
    tu = P.tu("libdut_a-tzmap.o")
    fn = tu.func("tzm_find")
    if fn is None:
        raise AnalysisBroken("tzm_find vanished")
    R.saw(fn)

    def byte_read(e):
        """-> (is a read of a key byte, spelled type of the value compared)"""
        cast = None
        while e is not None and e.get("k") in ("ImplicitCastExpr", "ParenExpr", "CStyleCastExpr") and e.get("c"):
            if e.get("k") == "CStyleCastExpr" and cast is None:
                cast = tu.types[e["t"]].get("c") if e.get("t") is not None else None
            e = e["c"][0]
        if e is None or not ((e.get("k") == "UnaryOperator" and e.get("op") == "*") or e.get("k") == "ArraySubscriptExpr"):
            return False, None
        ty = tu.types[e["t"]].get("c") if e.get("t") is not None else None
        if ty not in ("char", "const char", "signed char", "unsigned char", "const unsigned char"):
            return False, None
        return True, cast or ty
    n = 0
    for x in fn.walk():
        if x.get("k") == "BinaryOperator" and x.get("op") in ("<", ">", "<=", ">=", "-"):
            (la, lt), (ra, rt) = byte_read(x["c"][0]), byte_read(x["c"][1])
            if not (la and ra):
                continue
            n += 1
            if "unsigned" in (lt or "") and "unsigned" in (rt or ""):
                R.ob(rule, "tzm_find line %s: key bytes are ordered as unsigned chars, as the compiler's strcmp order has them" % x.get("l"), True)
            else:
                R.finding(rule, fn, "`%s` line %s" % (expr_text(x)[:40], x.get("l")), "two key bytes are ordered as plain (signed) chars while the "
                          "compiler sorts the keys with strcmp, which compares unsigned chars: a key with a byte above 0x7f sits behind "
                          "the ASCII keys in the map but the bisection looks for it in front of them and reports it absent", x)
    R.floor(rule, "orderings of key bytes in tzm_find", n, 2)


def check_tzm_format(P, R):
    """the record word: writer  htobe32((off & MASK) << SH)  /  reader  be32toh(word) >> SH  /  validator's byte picture"""
    rule = "RF2-tzm"
    wtu = P.tu("tzmap-tzmap.o")
    rtu = P.tu("libdut_a-tzmap.o")
    add = wtu.func("tzm_add_mn")
    fnd = rtu.func("tzm_find")
    if add is None or fnd is None:
        raise AnalysisBroken("%s: tzm_add_mn / tzm_find vanished" % rule)
    R.saw(add)
    # writer: (param & MASK) << SH
    w = None
    pds = {p_["d"]: i for i, p_ in enumerate(add.params)}
    for x in add.walk():
        if x.get("k") == "BinaryOperator" and x.get("op") == "<<" and const_of(x["c"][1]) is not None:
            a = linform.strip_casts_only(x["c"][0])
            if a is not None and a.get("k") == "BinaryOperator" and a.get("op") == "&":
                for u, v in ((a["c"][0], a["c"][1]), (a["c"][1], a["c"][0])):
                    uu = linform.strip_casts_only(u)
                    if uu is not None and uu.get("k") == "DeclRefExpr" and uu.get("d") in pds and const_of(v) is not None:
                        w = (pds[uu["d"]], const_of(v), const_of(x["c"][1]), x)
    if w is None:
        raise AnalysisBroken("%s: the record word expression of tzm_add_mn was not recognised" % rule)
    pidx, mask, wsh, wnode = w
    # its byte swap: the word expression is the argument of a 32-bit byte swap (or used as is on big endian hosts)
    # reader: swap(*op) >> SH
    r = None
    for x in fnd.walk():
        if x.get("k") == "BinaryOperator" and x.get("op") == ">>" and const_of(x["c"][1]) is not None:
            if any(y.get("k") == "UnaryOperator" and y.get("op") == "*" for y in walk(x["c"][0])):
                r = (const_of(x["c"][1]), x)
    if r is None:
        raise AnalysisBroken("%s: the decoding shift of tzm_find was not recognised" % rule)
    rsh, rnode = r

    def swapped(fn, node):
        par = fn.parent(node)
        while par is not None and par.get("k") in CASTS:
            par = fn.parent(par)
        return par is not None and par.get("k") == "CallExpr" and "bswap" in (par.get("callee") or "")

    def swap_inside(node):
        return any(y.get("k") == "CallExpr" and "bswap" in (y.get("callee") or "") for y in walk(node["c"][0]))
    if wsh == rsh and swapped(add, wnode) == swap_inside(rnode):
        R.ob(rule, "writer stores (offset & %#x) << %d, reader decodes >> %d, byte order conversion on both sides" % (mask, wsh, rsh), True)
    else:
        R.finding(rule, fnd, "record word", "writer stores (offset & %#x) << %d (byte swapped: %s), reader decodes >> %d (byte swapped: %s)"
                  % (mask, wsh, swapped(add, wnode), rsh, swap_inside(rnode)), rnode)
    # the word must begin and end with a NUL byte: mask << shift inside bits 8..23
    if (mask << wsh) & ~0x00ffff00 == 0:
        R.ob(rule, "record word keeps its first and last byte zero (terminates key scans in both directions)", True)
    else:
        R.finding(rule, add, "record word bytes", "(offset & %#x) << %d reaches the first or last byte of the word, which delimit the keys"
                  % (mask, wsh), wnode)
    # the masked argument is range checked at every call
    n = 0
    for f in wtu.funclist:
        for c in f.calls("tzm_add_mn"):
            n += 1
            iv = intervals.Intervals(f).run()
            rg = iv.range_at(c, call_args(c)[pidx])
            if rg is not None and rg[0] is not None and rg[0] >= 0 and rg[1] is not None and rg[1] <= mask:
                R.ob(rule, "%s: zone offset passed to tzm_add_mn within [0, %#x]" % (f.name, mask), True)
            else:
                R.finding(rule, f, "zone offset range", "tzm_add_mn keeps only the bits %#x of the zone offset; the value passed here ranges "
                          "over %s: larger offsets are truncated silently and the key maps to another name" % (mask, rg), c)
    R.floor(rule, "callers of tzm_add_mn", n, 1)


def fn_var(fn, name):
    for x in fn.walk():
        if x.get("k") == "Var" and x.get("n") == name:
            return x["d"]
    return None


def check(P, R, tier):
    tu = P.tu("libdut_a-tzraw.o")
    lfm = check_loader(P, R, tu, "zif_open", min_img=12, min_heap=5)
    check_versions(P, R, tu)
    check_types(P, R, tu, lfm)
    check_tzmap(P, R)
    check_keyend(P, R)
    check_wholekey(P, R)
    check_keyorder(P, R)
    import grow
    grow.check_lastline(P, R, "RF-lastline")
    check_tzm_format(P, R)
    import tzmdecode
    nv = tzmdecode.run(R, P, "RF2-tzmvalid")
    R.floor("RF2-tzmvalid", "decoded verdicts of the map validator", nv, 100)
    import zifdecode
    nz = zifdecode.run(R, P, "RF2-zifopen") + zifdecode.run_truncated(R, P, "RF2-zifopen") + zifdecode.run_badtypes(R, P, "RF2-zifopen")
    R.floor("RF2-zifopen", "decoded loads of synthetic zone files and of their prefixes", nz, 500)


LEVEL = ("Decides memory safety of both loaders for all file contents at once, and the structural conditions of faithful lookup: "
         "a linear-form abstract interpretation (variables as exact linear forms over symbols for the header counts, branch "
         "conditions as facts, trace partitioning on the version byte, a syntactic non-negative-combination prover) shows that "
         "every access zif_open, tzm_open and the map validator make to the file image lies inside [0, file size) and every "
         "store into the object zif_open allocates lies inside the malloc'ed size; difference bounds from the interval engine "
         "cover the compaction loop.  Further: each accepted file version is decoded, transition types are validated against "
         "the number of types for all indices, tzm_open succeeds only if the validator accepted the image, the validator "
         "accepts only maps whose pool offset and zone offsets lie inside the file, tzm_find never dereferences an empty "
         "range, and the map compiler's record word agrees with the reader's decoding and is range checked.  The in-bounds "
         "argument for tzm_find's byte scans rests on the validated layout (NUL delimiters) and is given in DESIGN.md, not "
         "decided by the tool; faithfulness of the bisection for all maps is not decided.")
RULE = ("obligation = one access to the file image or to the allocated object (per function), one version switch, one validation "
        "loop, one validator contract / post-condition, one record-word agreement")
ASSUME = ["the file is not modified while mapped", "64-bit sums of 32-bit file counts with small coefficients do not wrap",
          "mmap maps at least the length requested; malloc returns at least the size requested",
          "map sources are sorted (tzmap check enforces it); unsorted sources are outside the bisection's contract"]
