"""C07 — business-day arithmetic counts Monday-Friday days exactly.

That the closed forms count business days correctly for every (weekday, count) is a value-level fact and is NOT decided.
Decided are three structural necessary conditions of the closed forms in lib/bizda.c:

 RF14-negmod   a remainder that is used as a residue (a weekday offset, compared or subtracted as such) is taken from a
               non-negative operand: C's % yields negative remainders for negative operands, and the "+384" bias the code adds only
               covers residues, not arbitrary day counts (interval analysis of the operand); remainders that stay paired with their
               quotient (q*k + r recombination) or whose sign is handled by a covering switch are exempt
 RF1-cover     a switch over weekday + remainder has a case for every value its operand can take (interval of the operand inside
               the set of case labels), so no (weekday, remainder) combination silently contributes nothing
 RF2-week      the two directions use the same week: business days are converted with 5 per 7 calendar days and back with 7 per 5
"""
from core import (AnalysisBroken, strip, kids, const_of, call_args, expr_text, walk, CASTS, switch_cases)
import intervals
from intervals import Intervals

FUNCS = ("__get_d_equiv", "__get_b_equiv", "__get_nwedays", "__get_nbdays")


def _unwrap(e):
    e = strip(e)
    while e is not None and e.get("k") in CASTS and e.get("c"):
        e = strip(e["c"][0])
    return e


def _math_range(fn, iv, at, e):
    """range of an additive expression in the integers, i.e. before any wrap into an unsigned type: a negative count added to an
    unsigned weekday wraps to a huge value whose remainder is not the residue that was meant"""
    e0 = _unwrap(e)
    if e0 is not None and e0.get("k") == "BinaryOperator" and e0.get("op") in ("+", "-"):
        a, b = _math_range(fn, iv, at, e0["c"][0]), _math_range(fn, iv, at, e0["c"][1])
        if a is None or b is None:
            return None
        return intervals.add(a, b) if e0["op"] == "+" else intervals.sub(a, b)
    return iv.range_at(at, e0)


def _isb(w):
    return 1 <= w <= 5


def _wdadd(w, k):
    return (w - 1 + k) % 7 + 1


def _steps(dow, b):
    """calendar days from a day falling on `dow` to the b-th Monday-Friday day strictly after (before, b < 0) it"""
    d = n = 0
    step = 1 if b > 0 else -1
    while n < abs(b):
        d += step
        if _isb(_wdadd(dow, d)):
            n += 1
    return d


def _count_target_closed(dur, wd):
    """Monday-Friday days in the half-open interval between the two days, closed at the target (the day that falls on `wd`):
    (start, target] for a positive distance, [target, start) for a negative one -- the count that inverts the addition"""
    if dur >= 0:
        return sum(1 for i in range(dur) if _isb(_wdadd(wd, -i)))
    return -sum(1 for i in range(-dur) if _isb(_wdadd(wd, i)))


def _count_mirrored(dur, wd):
    """the mirrored convention for negative distances: (target, start]"""
    if dur >= 0:
        return _count_target_closed(dur, wd)
    return -sum(1 for i in range(1, -dur + 1) if _isb(_wdadd(wd, i)))


def check_periodic(P, R, tu):
    """RF2-period: the two closed forms the property is about -- business days to calendar days (__get_d_equiv) and calendar days
    to business days (__get_nbdays / __get_nwedays) -- split their count into a quotient and a remainder by the week (5 resp. 7).
    They are decoded for ALL counts at once: the remainder and the weekday range over their finite domains and are folded
    concretely, the quotient is kept as a symbol q on the rays q >= 1 and q <= -1 (affine domain c + k*q of fold.py; every
    division, remainder and comparison met on the way is either exact or decided uniformly for the whole ray, otherwise the form is
    reported as not decodable), counts with quotient 0 are folded directly.  The decoded form must be definition(remainder) +
    7q (resp. 5q)."""
    import fold
    from fold import Aff
    from core import NotConst
    rule = "RF2-period"
    fd, fb, fw = tu.func("__get_d_equiv"), tu.func("__get_nbdays"), tu.func("__get_nwedays")
    if fd is None or fb is None or fw is None:
        raise AnalysisBroken("%s: closed forms vanished" % rule)
    # the definition itself is periodic (a check of the oracle, not of the code)
    assert all(_steps(w, b + 5) == _steps(w, b) + 7 for w in range(1, 8) for b in range(1, 12))
    assert all(_steps(w, b - 5) == _steps(w, b) - 7 for w in range(1, 8) for b in range(-11, 0))
    n = 0
    bad = []
    try:
        for dow in range(1, 8):
            for b in list(range(-4, 0)) + list(range(1, 5)) + ([0] if _isb(dow) else []):
                got = fold.Folder(fd).run([dow, b])
                n += 1
                if got != _steps(dow, b):
                    bad.append(("weekday %d, %+d business days" % (dow, b), got, _steps(dow, b)))
            for sg in (1, -1):
                for r in (range(0, 5) if sg > 0 else range(-4, 1)):
                    got = fold.Folder(fd).run([dow, Aff(r, 5, sg)])
                    n += 1
                    exp = _steps(dow, r + 5 * sg) - 7 * sg
                    if not isinstance(got, Aff) or got.k != 7 or got.c != exp:
                        bad.append(("weekday %d, 5q%+d business days, q %s" % (dow, r, ">= 1" if sg > 0 else "<= -1"), got, "%d+7*q" % exp))
    except NotConst as e:
        raise AnalysisBroken("%s: __get_d_equiv is not decodable as quotient / remainder form any more (%s)" % (rule, e))
    if not bad:
        R.ob(rule, "__get_d_equiv: for every start weekday and every count (7 x (9 remainders + 2 x 5 rays)) the closed form is the distance "
             "to the n-th Monday-Friday day strictly after / before", True, sample={"rule": rule, "function": "__get_d_equiv", "cases": n})
    else:
        R.finding(rule, fd, "__get_d_equiv as remainder table + 7 per 5", "%d of %d cases differ from the definition; first: %s gives %s, the "
                  "definition %s" % (len(bad), n, bad[0][0], bad[0][1], bad[0][2]))
    # calendar days -> business days
    def call_nw(dur, wd):
        return fold.Folder(fw).run([dur, wd])
    pos, neg_t, neg_m = [], [], []
    m = 0
    try:
        for wd in range(1, 8):
            for dur in range(-6, 7):
                got = fold.Folder(fb, calls={"__get_nwedays": call_nw}).run([dur, wd])
                m += 1
                what = "%+d days, target weekday %d" % (dur, wd)
                if dur >= 0:
                    if got != _count_target_closed(dur, wd):
                        pos.append((what, got, _count_target_closed(dur, wd)))
                else:
                    if got != _count_target_closed(dur, wd):
                        neg_t.append((what, got, _count_target_closed(dur, wd)))
                    if got != _count_mirrored(dur, wd):
                        neg_m.append((what, got, _count_mirrored(dur, wd)))
            for sg in (1, -1):
                for r in (range(0, 7) if sg > 0 else range(-6, 1)):
                    got = fold.Folder(fb, calls={"__get_nwedays": call_nw}).run([Aff(r, 7, sg), wd])
                    m += 1
                    what = "7q%+d days, q %s, target weekday %d" % (r, ">= 1" if sg > 0 else "<= -1", wd)
                    for oracle, sink in ((_count_target_closed, pos if sg > 0 else neg_t), (_count_mirrored, None if sg > 0 else neg_m)):
                        if sink is None:
                            continue
                        exp = oracle(r + 7 * sg, wd) - 5 * sg
                        if not isinstance(got, Aff) or got.k != 5 or got.c != exp:
                            sink.append((what, got, "%d+5*q" % exp))
    except NotConst as e:
        raise AnalysisBroken("%s: __get_nbdays / __get_nwedays are not decodable as quotient / remainder form any more (%s)" % (rule, e))
    n += m
    if not pos:
        R.ob(rule, "__get_nbdays: for every target weekday and every non-negative distance the closed form counts the Monday-Friday days "
             "in (start, target]", True, sample={"rule": rule, "function": "__get_nbdays", "cases": m})
    else:
        R.finding(rule, fb, "__get_nbdays, non-negative distances", "%d cases differ from the number of Monday-Friday days in (start, target]; "
                  "first: %s gives %s, the definition %s" % (len(pos), pos[0][0], pos[0][1], pos[0][2]))
    if not neg_t:
        R.ob(rule, "__get_nbdays: for every target weekday and every negative distance the closed form counts the Monday-Friday days in "
             "[target, start)", True)
    elif not neg_m:
        # exactly the mirrored convention: one specific, recognisable deviation
        R.finding(rule, fb, "__get_nbdays, negative distances: counts (target, start] instead of [target, start)",
                  "for a negative distance the closed form counts the Monday-Friday days of (target, start]: closed at the start, open at "
                  "the target.  The count that inverts the addition is that of [target, start): `ddiff 2012-05-13 2012-05-11 -f %%db` gives "
                  "0b although `dadd 2012-05-13 -1b` is 2012-05-11; %d of the decoded cases differ, first: %s gives %s, [target, start) has %s"
                  % (len(neg_t), neg_t[0][0], neg_t[0][1], neg_t[0][2]))
    else:
        R.finding(rule, fb, "__get_nbdays, negative distances", "%d cases agree with neither [target, start) nor the mirrored (target, start]; "
                  "first: %s gives %s, [target, start) has %s" % (len(neg_m), neg_m[0][0], neg_m[0][1], neg_m[0][2]))
    R.floor(rule, "decoded cases of the business-day closed forms", n, 300)


def check(P, R, tier):
    tu = P.tu("libdut_a-date-core.o")
    nmod = ncov = 0
    week = {}
    for name in FUNCS:
        fn = tu.func(name)
        if fn is None:
            raise AnalysisBroken("%s vanished" % name)
        R.saw(fn)
        # contract: a weekday parameter is one of the seven weekdays
        entry = {p_["d"]: (1, 7) for p_ in fn.params if "dt_dow_t" in (fn.tu.types[p_["t"]].get("td") or []) or fn.tu.types[p_["t"]].get("s") == "dt_dow_t"}
        iv = Intervals(fn, entry=entry).run()
        # quotients present in the function: (operand text, divisor) -> the remainder of the same pair is a recombination
        quots = set()
        for x in fn.walk():
            if x.get("k") in ("BinaryOperator", "CompoundAssignOperator") and x.get("op") in ("/", "/=") and const_of(x["c"][1]) is not None:
                quots.add((expr_text(_unwrap(x["c"][0])), const_of(x["c"][1])))
        for x in fn.walk():
            if x.get("k") != "BinaryOperator" or x.get("op") != "%":
                continue
            k = const_of(x["c"][1])
            if k is None or k < 2:
                continue
            # is this remainder an operand of another remainder (a biased sum that is reduced again)?
            par, inner = fn.parent(x), False
            while par is not None and (par.get("k") in CASTS or (par.get("k") == "BinaryOperator" and par.get("op") in ("+", "-"))
                                       or par.get("k") == "ParenExpr"):
                par = fn.parent(par)
            if par is not None and par.get("k") == "BinaryOperator" and par.get("op") == "%":
                inner = True
            paired = (expr_text(_unwrap(x["c"][0])), k) in quots
            if inner or paired:
                continue
            nmod += 1
            rg = _math_range(fn, iv, x, x["c"][0])
            site = "%s %% %d" % (expr_text(_unwrap(x["c"][0]))[:50], k)
            if rg is not None and rg[0] is not None and rg[0] >= 0:
                R.ob("RF14-negmod", "%s: operand of `%s` is non-negative" % (name, site), True,
                     sample={"rule": "RF14-negmod", "function": name, "operand range": [rg[0], rg[1]]})
            else:
                R.finding("RF14-negmod", fn, site, "the remainder `%s` is used as a residue but its operand ranges over %s in the integers: a "
                          "negative value gives a negative remainder (or wraps into the unsigned type first), and the weekday bookkeeping "
                          "built on it is off -- large backward counts land on a weekend" % (site, rg), x)
        # switches over weekday + remainder
        for sw in fn.switches():
            op = _unwrap(sw["c"][0])
            if op is None or op.get("k") != "BinaryOperator" or op.get("op") != "+":
                continue
            labels = set()
            has_default_action = False
            for g in switch_cases(sw):
                for l in g["labels"]:
                    if l["lo"] is not None:
                        labels.update(range(l["lo"], l["hi"] + 1))
                    elif l["en"] == "default" and any(s_.get("k") not in ("BreakStmt", "NullStmt") for s_ in g["stmts"]):
                        has_default_action = True
            ncov += 1
            rg = None
            for y in walk(sw["c"][0]):
                if "i" in y and iv.states_at(y) is not None:
                    # states before the first evaluated part of the operand
                    rg = iv.range_at(y, sw["c"][0])
                    break
            if rg is None or rg[0] is None or rg[1] is None:
                R.finding("RF1-cover", fn, "switch (%s)" % expr_text(op)[:40], "the operand of the weekday switch is not bounded", sw)
                continue
            missing = [v for v in range(rg[0], rg[1] + 1) if v not in labels]
            if not missing or has_default_action:
                R.ob("RF1-cover", "%s: switch (%s) has a case for every value in [%d, %d]" % (name, expr_text(op)[:40], rg[0], rg[1]), True)
            else:
                R.finding("RF1-cover", fn, "switch (%s)" % expr_text(op)[:40], "the operand ranges over [%d, %d] but there is no case for %s: "
                          "these combinations contribute nothing to the count" % (rg[0], rg[1], missing[:6]), sw)
        # week constants: q-factor pairs  x / A * B  and  C * (x / D)
        for x in fn.walk():
            if x.get("k") == "BinaryOperator" and x.get("op") == "*":
                for a, b in ((x["c"][0], x["c"][1]), (x["c"][1], x["c"][0])):
                    q = _unwrap(a)
                    if q is not None and q.get("k") == "BinaryOperator" and q.get("op") == "/" and const_of(q["c"][1]) is not None \
                            and const_of(b) is not None:
                        week[name] = (const_of(q["c"][1]), const_of(b))
    R.floor("RF14-negmod", "residue remainders in the business-day closed forms", nmod, 3)
    R.floor("RF1-cover", "weekday switches", ncov, 1)
    try:
        check_periodic(P, R, tu)
    except AnalysisBroken as e:
        # a form that cannot be decoded is `undecided`, but it must not hide violations the other rules have already found
        if not R.findings:
            raise
        R.notes.append(str(e))
    import adddecode
    todo = [("ymd", "b", "__ymd_add_b"), ("yd", "b", "__yd_add_b"), ("ywd", "b", "__ywd_add_b"), ("ymcw", "b", "__ymcw_add_b")]
    nad = adddecode.run_parallel(R, tu, "RF2-add", todo, every=(tier == "thorough"), jobs=14)
    R.floor("RF2-add", "decoded (start, count) points of the business-day adders", nad, 150000)
    nadn = adddecode.run_daynumbers_b(R, tu, "RF2-add")
    R.floor("RF2-add", "decoded (start, count) points of the business-day adder on day numbers", nadn, 2000)
    import bizdecode
    nbz = bizdecode.run_parallel(R, tu, "RF2-biz", jobs=14)
    nbz += bizdecode.run_history(R, tu, "RF2-biz-hist")
    R.floor("RF2-biz", "decoded getters / conversions / additions of business-day dates", nbz, 30000)
    import fresh
    nfr = fresh.check_unit(R, tu, "RF-fresh", only_file="bizda.c")
    R.floor("RF-fresh", "uses of looked-up period lengths in the business-day code", nfr, 10)
    # the business days of a month: a 4 x 7 table spelled as a closed form
    import lentab
    nb = lentab.check(P, R, tu, {"bdays"}, rule="RF2-closed")
    R.floor("RF2-closed", "entries of the business-days-per-month table", nb, 28)
    d, b = week.get("__get_d_equiv"), week.get("__get_b_equiv")
    if d is None or b is None:
        raise AnalysisBroken("RF2-week: the week factors of __get_d_equiv / __get_b_equiv were not recognised (%s, %s)" % (d, b))
    if d == (5, 7) and b == (7, 5):
        R.ob("RF2-week", "business days -> days uses /5*7, days -> business days uses /7*5", True)
    else:
        R.finding("RF2-week", tu.func("__get_d_equiv"), "week factors", "business days are converted to days with /%d*%d and back with /%d*%d; "
                  "a week has 5 business days in 7 days" % (d[0], d[1], b[0], b[1]))


LEVEL = ("Decides the two closed forms the property is about for ALL counts by decoding them with the week quotient kept symbolic "
         "(RF2-period): __get_d_equiv is the distance to the n-th Monday-Friday day strictly after / before for every weekday and "
         "every non-zero count; __get_nbdays counts the Monday-Friday days of the half-open interval for non-negative distances "
         "(negative ones: known finding, the mirrored interval is pinned by tests); the business days of a month as a 4 x 7 table "
         "(RF2-closed); plus three structural conditions (residue remainders from non-negative operands, weekday switch coverage, 5 "
         "per 7 both ways) and freshness of looked-up month lengths.  The getters and conversions of business-day dates (day of month, weekday, business day of the year through "
         "the packed yearly tables, to year-month-day / day number / week date) and __bizda_add_b are decoded for every business day of the "
         "21 class years (RF2-biz).  NOT decided: __get_b_equiv on its own, __bizda_add_d / _w, 32-bit overflow of huge counts.")
RULE = "obligation = one residue remainder, one weekday switch, the week factor pair, one decoded closed form (all its cases), one use of a looked-up length"
ASSUME = ["weekdays handed to the closed forms are 1..7 (entry contract of the analysis)"]
