"""C07 — business-day arithmetic counts Monday-Friday days exactly.

That the closed forms count business days correctly for every (weekday, count) is a value-level fact and is NOT decided.
Decided are three structural necessary conditions of the closed forms in lib/bizda.c:

 RF14-negmod   a remainder that is used as a residue (a weekday offset, compared or subtracted as such) is taken from a
               non-negative operand: C's % yields negative remainders for negative operands, and the "+384" bias the code adds only
               covers residues, not arbitrary day counts (interval analysis of the operand); remainders that stay paired with their
               quotient (q*k + r recombination) or whose sign is handled by a covering switch are exempt
 RF1-cover     a switch over weekday + remainder has a case for every value its operand can take (interval of the operand inside
               the set of case labels), so no (weekday, remainder) combination silently contributes nothing
 RF2-week      the two directions use the same week: business days are converted with 5 per 7 calendar days and back with 7 per 5
"""
from core import (AnalysisBroken, strip, kids, const_of, call_args, expr_text, walk, CASTS, switch_cases)
import intervals
from intervals import Intervals

FUNCS = ("__get_d_equiv", "__get_b_equiv", "__get_nwedays", "__get_nbdays")


def _unwrap(e):
    e = strip(e)
    while e is not None and e.get("k") in CASTS and e.get("c"):
        e = strip(e["c"][0])
    return e


def _math_range(fn, iv, at, e):
    """range of an additive expression in the integers, i.e. before any wrap into an unsigned type: a negative count added to an
    unsigned weekday wraps to a huge value whose remainder is not the residue that was meant"""
    e0 = _unwrap(e)
    if e0 is not None and e0.get("k") == "BinaryOperator" and e0.get("op") in ("+", "-"):
        a, b = _math_range(fn, iv, at, e0["c"][0]), _math_range(fn, iv, at, e0["c"][1])
        if a is None or b is None:
            return None
        return intervals.add(a, b) if e0["op"] == "+" else intervals.sub(a, b)
    return iv.range_at(at, e0)


def check(P, R, tier):
    tu = P.tu("libdut_a-date-core.o")
    nmod = ncov = 0
    week = {}
    for name in FUNCS:
        fn = tu.func(name)
        if fn is None:
            raise AnalysisBroken("%s vanished" % name)
        R.saw(fn)
        # contract: a weekday parameter is one of the seven weekdays
        entry = {p_["d"]: (1, 7) for p_ in fn.params if "dt_dow_t" in (fn.tu.types[p_["t"]].get("td") or []) or fn.tu.types[p_["t"]].get("s") == "dt_dow_t"}
        iv = Intervals(fn, entry=entry).run()
        # quotients present in the function: (operand text, divisor) -> the remainder of the same pair is a recombination
        quots = set()
        for x in fn.walk():
            if x.get("k") in ("BinaryOperator", "CompoundAssignOperator") and x.get("op") in ("/", "/=") and const_of(x["c"][1]) is not None:
                quots.add((expr_text(_unwrap(x["c"][0])), const_of(x["c"][1])))
        for x in fn.walk():
            if x.get("k") != "BinaryOperator" or x.get("op") != "%":
                continue
            k = const_of(x["c"][1])
            if k is None or k < 2:
                continue
            # is this remainder an operand of another remainder (a biased sum that is reduced again)?
            par, inner = fn.parent(x), False
            while par is not None and (par.get("k") in CASTS or (par.get("k") == "BinaryOperator" and par.get("op") in ("+", "-"))
                                       or par.get("k") == "ParenExpr"):
                par = fn.parent(par)
            if par is not None and par.get("k") == "BinaryOperator" and par.get("op") == "%":
                inner = True
            paired = (expr_text(_unwrap(x["c"][0])), k) in quots
            if inner or paired:
                continue
            nmod += 1
            rg = _math_range(fn, iv, x, x["c"][0])
            site = "%s %% %d" % (expr_text(_unwrap(x["c"][0]))[:50], k)
            if rg is not None and rg[0] is not None and rg[0] >= 0:
                R.ob("RF14-negmod", "%s: operand of `%s` is non-negative" % (name, site), True,
                     sample={"rule": "RF14-negmod", "function": name, "operand range": [rg[0], rg[1]]})
            else:
                R.finding("RF14-negmod", fn, site, "the remainder `%s` is used as a residue but its operand ranges over %s in the integers: a "
                          "negative value gives a negative remainder (or wraps into the unsigned type first), and the weekday bookkeeping "
                          "built on it is off -- large backward counts land on a weekend" % (site, rg), x)
        # switches over weekday + remainder
        for sw in fn.switches():
            op = _unwrap(sw["c"][0])
            if op is None or op.get("k") != "BinaryOperator" or op.get("op") != "+":
                continue
            labels = set()
            has_default_action = False
            for g in switch_cases(sw):
                for l in g["labels"]:
                    if l["lo"] is not None:
                        labels.update(range(l["lo"], l["hi"] + 1))
                    elif l["en"] == "default" and any(s_.get("k") not in ("BreakStmt", "NullStmt") for s_ in g["stmts"]):
                        has_default_action = True
            ncov += 1
            rg = None
            for y in walk(sw["c"][0]):
                if "i" in y and iv.states_at(y) is not None:
                    # states before the first evaluated part of the operand
                    rg = iv.range_at(y, sw["c"][0])
                    break
            if rg is None or rg[0] is None or rg[1] is None:
                R.finding("RF1-cover", fn, "switch (%s)" % expr_text(op)[:40], "the operand of the weekday switch is not bounded", sw)
                continue
            missing = [v for v in range(rg[0], rg[1] + 1) if v not in labels]
            if not missing or has_default_action:
                R.ob("RF1-cover", "%s: switch (%s) has a case for every value in [%d, %d]" % (name, expr_text(op)[:40], rg[0], rg[1]), True)
            else:
                R.finding("RF1-cover", fn, "switch (%s)" % expr_text(op)[:40], "the operand ranges over [%d, %d] but there is no case for %s: "
                          "these combinations contribute nothing to the count" % (rg[0], rg[1], missing[:6]), sw)
        # week constants: q-factor pairs  x / A * B  and  C * (x / D)
        for x in fn.walk():
            if x.get("k") == "BinaryOperator" and x.get("op") == "*":
                for a, b in ((x["c"][0], x["c"][1]), (x["c"][1], x["c"][0])):
                    q = _unwrap(a)
                    if q is not None and q.get("k") == "BinaryOperator" and q.get("op") == "/" and const_of(q["c"][1]) is not None \
                            and const_of(b) is not None:
                        week[name] = (const_of(q["c"][1]), const_of(b))
    R.floor("RF14-negmod", "residue remainders in the business-day closed forms", nmod, 3)
    R.floor("RF1-cover", "weekday switches", ncov, 1)
    # the business days of a month: a 4 x 7 table spelled as a closed form
    import lentab
    nb = lentab.check(P, R, tu, {"bdays"}, rule="RF2-closed")
    R.floor("RF2-closed", "entries of the business-days-per-month table", nb, 28)
    d, b = week.get("__get_d_equiv"), week.get("__get_b_equiv")
    if d is None or b is None:
        raise AnalysisBroken("RF2-week: the week factors of __get_d_equiv / __get_b_equiv were not recognised (%s, %s)" % (d, b))
    if d == (5, 7) and b == (7, 5):
        R.ob("RF2-week", "business days -> days uses /5*7, days -> business days uses /7*5", True)
    else:
        R.finding("RF2-week", tu.func("__get_d_equiv"), "week factors", "business days are converted to days with /%d*%d and back with /%d*%d; "
                  "a week has 5 business days in 7 days" % (d[0], d[1], b[0], b[1]))


LEVEL = ("Decides three structural necessary conditions of the business-day closed forms only: residue remainders are taken from "
         "non-negative operands (interval analysis), the weekday switches cover their operand's range, and both directions use 5 "
         "business days per 7 days.  That the closed forms count Monday-Friday days exactly for every weekday and count is NOT "
         "decided.")
RULE = "obligation = one residue remainder, one weekday switch, the week factor pair"
ASSUME = ["weekdays handed to the closed forms are 1..7 (entry contract of the analysis)"]
