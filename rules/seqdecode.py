"""RF2-seq: the sequence engine of dseq decoded.

(1) Skip lists: set_skip (comma lists, ranges, the weekend shorthand) and skipp are folded for lists of one to five elements; the
    days skipped must be exactly the weekdays the list names.
(2) Sequences: the tail of dseq's main() -- everything behind the argument switch: promotion of the bounds, the choice of the
    direction (__get_dir), the start (__seq_this or, with --compute-from-last, __fixup_fst), the emitting loop with its range test
    (__in_range_p on the clamped iterate), its step (__seq_next, date_add) and its exits -- is folded as it stands on a closure record
    built the way the argument code builds it (first and last value, the parsed increments as an array behind a pointer, the skip
    set); argument parsing is replaced by that record and dt_io_write by a recorder (which gives up after 400 values: `endless').
    What is written must be the arithmetic progression FIRST + k*INC between the bounds, without the skipped weekdays, anchored at
    LAST with --compute-from-last; month and year steps in one go with the day clamped; times of day run once around the clock at
    most; a zero or wrong-way increment is refused; a run over business-day dates ends even where a day step makes no progress."""
import datetime
from core import AnalysisBroken, NotConst, kids
import fold
from fold import CPtr, Ptr, cstr
from fmtdecode import LIBC
from durdecode import _strtol

WD = {"mo": 1, "tu": 2, "we": 3, "th": 4, "fr": 5, "sa": 6, "su": 7}
SKIPS = ["sat", "ss", "sat-sun", "mon,wed,fri", "sun,tue,thu,sat", "mo,tu,we,th", "fri-mon", "tue,thu-sat,mon", "a,s", "wed,wed,fri,mon,tue",
         "mon-wed,fri-sun", "thu", "m,w,f"]


def _skip_oracle(spec):
    out = set()

    def wd(s):
        s = s.lower()
        if s[:2] in WD:
            return WD[s[:2]]
        return {"m": 1, "w": 3, "f": 5, "a": 6, "s": 7}.get(s[:1]) if len(s) == 1 else None
    for el in spec.split(","):
        if "-" in el:
            a, b = el.split("-", 1)
            a, b = wd(a), wd(b)
            d = a
            while True:
                out.add(d)
                if d == b:
                    break
                d = d % 7 + 1
        elif el.lower()[:2] == "ss":
            out |= {6, 7}
        else:
            out.add(wd(el))
    return out


class _Endless(Exception):
    pass


def _mk(P):
    tu = P.tu("dseq-dseq.o")
    libs = [tu, P.tu("libdut_a-dt-core.o"), P.tu("libdut_a-date-core.o"), P.tu("libdut_a-time-core.o"), P.tu("libdut_a-strops.o"),
            P.tu("libdut_a-token.o"), P.tu("libdut_a-dt-locale.o")]

    def resolve(name):
        for l in libs:
            f = l.func(name)
            if f is not None and getattr(f, "body", None) is not None:
                return f
        return None

    def glob(name):
        for l in libs:
            g = l.global_var(name)
            if g is not None and (g.get("init") is not None or "val" in g):
                return g
        return None
    return tu, resolve, glob


def run(R, P, rule):
    tu, resolve, glob = _mk(P)
    fold.RESOLVE["fn"] = resolve
    fold.GLOBALS["fn"] = glob
    need = ("set_skip", "skipp", "__get_dir", "__seq_this", "__seq_next", "__in_range_p", "__fixup_fst", "date_add", "__durstack_naught_p")
    for f in need:
        if tu.func(f) is None or getattr(tu.func(f), "body", None) is None:
            raise AnalysisBroken("%s: %s vanished from dseq" % (rule, f))
        R.saw(tu.func(f))
    dtu = P.tu("libdut_a-dt-core.o")
    E = {k: dtu.enum_value(k) for k in ("DT_YMD", "DT_HMS", "DT_DURD", "DT_DURWK", "DT_DURMO", "DT_DURYR", "DT_DURH", "DT_DURM", "DT_DURS", "DT_DURBD")}
    err = {"errno": 0}
    calls = dict(LIBC)
    calls.update({"strtol": _strtol, "__errno_location": lambda: Ptr(err, "errno", None), "serror": lambda *a: 0, "error": lambda *a: 0})
    tabs = {}

    def call(name, *args, t=None):
        f = (t or tu).func(name) or resolve(name)
        fo = fold.Folder(f, calls=calls, inline=True, max_steps=3000000)
        fo._tabs = tabs
        return fo.run(list(args))
    n = 0
    try:
        # ---- (1) skip lists
        week = [datetime.date(2001, 2, 5) + datetime.timedelta(days=i) for i in range(7)]      # Monday .. Sunday
        bad = []
        for spec in SKIPS:
            ss = call("set_skip", 0, cstr(spec))
            got = set()
            for d in week:
                rec = {"typ": E["DT_YMD"], "d.typ": E["DT_YMD"], "d.ymd.y": d.year, "d.ymd.m": d.month, "d.ymd.d": d.day, "sandwich": 0}
                n += 1
                if call("skipp", ss, rec):
                    got.add(d.isoweekday())
            if got != _skip_oracle(spec):
                bad.append((spec, sorted(got), sorted(_skip_oracle(spec))))
        if bad:
            spec, got, exp = bad[0]
            R.finding(rule, tu.func("set_skip"), "skip lists decoded", "%d of %d skip lists come out as other weekdays; first: `--skip %s` skips the "
                      "weekdays %s (1 = Monday), the list names %s" % (len(bad), len(SKIPS), spec, got, exp))
        else:
            R.ob(rule, "set_skip / skipp: %d skip lists (single names, ranges also across the week's end, the weekend shorthand, lists of up to "
                 "five elements) skip exactly the weekdays they name" % len(SKIPS), True)
        # ---- (2) sequences
        n += _sequences(R, rule, tu, call, E, calls, tabs)
    except NotConst as e:
        raise AnalysisBroken("%s: the sequence engine left the foldable fragment (%s)" % (rule, e))
    except fold.Abort as e:
        raise AnalysisBroken("%s: fold aborted (%s)" % (rule, e))
    return n


def _drec(E, d):
    return {"typ": E["DT_YMD"], "sandwich": 0, "d.typ": E["DT_YMD"], "d.ymd.y": d.year, "d.ymd.m": d.month, "d.ymd.d": d.day}


def _trec(E, t):
    # a time without a date, as dt_make_t_only leaves it
    return {"typ": 0, "sandwich": 1, "d.typ": 0, "d.u": 0, "t.typ": E["DT_HMS"], "t.hms.h": t[0], "t.hms.m": t[1], "t.hms.s": t[2], "t.hms.ns": 0}


def _addm(d, k):
    t = d.year * 12 + d.month - 1 + k
    y, m = t // 12, t % 12 + 1
    last = (datetime.date(y + (m == 12), m % 12 + 1, 1) - datetime.timedelta(days=1)).day
    return datetime.date(y, m, min(d.day, last))


def _sequences(R, rule, tu, call, E, calls, tabs):
    n = 0
    bad = []

    mn = tu.func("main")
    if mn is None or getattr(mn, "body", None) is None:
        raise AnalysisBroken("%s: main of dseq vanished" % rule)
    R.saw(mn)
    body = kids(mn.body)
    sw = [i for i, s_ in enumerate(body) if s_.get("k") == "SwitchStmt"]
    if not sw:
        raise AnalysisBroken("%s: the argument switch of dseq's main not found" % rule)
    tail = body[sw[-1] + 1:]
    names = {}
    for v in mn.walk():
        if v.get("k") == "Var" and v.get("n"):
            names.setdefault(v["n"], v["d"])
    for nm in ("argi", "clo", "ofmt", "rc", "tmp", "tgttyp"):
        if nm not in names:
            raise AnalysisBroken("%s: local `%s` of dseq's main not found" % (rule, nm))

    def replay(fst, lst, durs, ss=0, from_last=False):
        """the tail of main() itself, from behind the argument switch to the return: promotion of the bounds, direction, start, the
        emitting loop; argument parsing is replaced by the closure it would have built, printing by a recorder"""
        ite = CPtr([dict(x) for x in durs] + [0], 0)
        clo = {"ite": ite, "nite": len(durs), "altite": 0, "naltite": 0, "ss": ss, "dir": 0, "flags": 0}
        for k, v in fst.items():
            clo["fst." + k] = v
        for k, v in lst.items():
            clo["lst." + k] = v
        out = []

        def write(tgt, ofmt, zone, ch):
            if len(out) > 400:
                raise _Endless()
            out.append(dict(tgt))
            return 0
        argi = {"a": {"nargs": 3, "quiet_flag": 1, "compute_from_last_flag": int(from_last), "from_locale_arg": 0, "locale_arg": 0}}
        c2 = dict(calls)
        c2.update({"dt_io_write": write, "free": lambda p_: 0, "yuck_free": lambda p_: 0, "setilocale": lambda p_: 0, "setflocale": lambda p_: 0})
        fo = fold.Folder(mn, calls=c2, inline=True, max_steps=30000000)
        fo._tabs = tabs
        fo.env = {names["argi"]: Ptr(argi, "a", None), names["clo"]: clo, names["ofmt"]: 0, names["rc"]: 0, names["tmp"]: {}, names["tgttyp"]: 0}
        fo.steps = 0
        rc = None
        try:
            try:
                for st_ in tail:
                    fo.st(st_)
            except fold._Goto as g:
                fo.resume_at(g.args[0])
        except fold._Return as r_:
            rc = r_.v
        except _Endless:
            return "endless", out
        if rc:
            return "refused", None
        # what was written, clamped the way the printer does it
        return "ok", [call("dt_fixup", dict(x)) for x in out]

    def replay_py(fst, lst, durs, ss=0, from_last=False):
        """main()'s tail: direction, start, loop; -> ('refused', None) or ('ok', [records])"""
        ite = CPtr([dict(x) for x in durs] + [0], 0)
        clo = {"fst": None, "lst": None, "ite": ite, "nite": len(durs), "altite": 0, "naltite": 0, "ss": ss, "dir": 0, "flags": 0}
        for k, v in fst.items():
            clo["fst." + k] = v
        for k, v in lst.items():
            clo["lst." + k] = v
        del clo["fst"], clo["lst"]
        frame = {"clo": clo}
        cp = Ptr(frame, "clo", None)
        if call("__durstack_naught_p", ite, len(durs)):
            return "refused", None
        frame["clo"]["dir"] = call("__get_dir", dict(fst), cp)
        if not frame["clo"]["dir"]:
            return "refused", None
        tmp = call("__fixup_fst", cp) if from_last else call("__seq_this", dict(fst), cp)
        out = []
        for _ in range(400):
            fx = call("dt_fixup", dict(tmp))
            if not call("__in_range_p", fx, cp):
                return "ok", out
            out.append(fx)
            tmp = call("__seq_next", dict(tmp), cp)
        return "endless", out

    def dur(typ, v):
        if typ in ("DT_DURH", "DT_DURM", "DT_DURS"):
            return {"durtyp": E[typ], "dv": v, "neg": 0, "tai": 0}
        return {"d.durtyp": E[typ], "d.dv": v, "neg": 0}
    # dates
    D = datetime.date
    cases = [
        (D(2012, 1, 28), D(2012, 3, 3), [("DT_DURD", 1)], set()), (D(2012, 1, 28), D(2012, 3, 3), [("DT_DURD", 3)], set()),
        (D(2012, 3, 3), D(2012, 1, 28), [("DT_DURD", -2)], set()), (D(2012, 1, 28), D(2012, 3, 3), [("DT_DURD", -2)], set()),
        (D(2012, 1, 28), D(2012, 3, 3), [("DT_DURD", 0)], set()), (D(2011, 12, 20), D(2012, 1, 20), [("DT_DURWK", 1)], set()),
        (D(2012, 1, 31), D(2012, 12, 31), [("DT_DURMO", 1)], set()), (D(2012, 1, 31), D(2013, 7, 1), [("DT_DURMO", 3)], set()),
        (D(2012, 12, 31), D(2012, 1, 1), [("DT_DURMO", -1)], set()), (D(2012, 2, 29), D(2021, 1, 1), [("DT_DURYR", 1)], set()),
        (D(2012, 1, 28), D(2012, 3, 3), [("DT_DURD", 1)], {6, 7}), (D(2012, 1, 28), D(2012, 3, 3), [("DT_DURD", 2)], {1, 3, 5}),
        (D(2012, 3, 3), D(2012, 1, 28), [("DT_DURD", -1)], {6, 7}), (D(2012, 1, 30), D(2012, 6, 30), [("DT_DURMO", 1), ("DT_DURD", 1)], set()),
        (D(2012, 1, 1), D(2012, 1, 1), [("DT_DURD", 1)], set()),
        # month steps from a 31st with a skip set: the weekday that counts is that of the clamped date that is printed
        (D(2013, 5, 31), D(2013, 9, 30), [("DT_DURMO", 1)], {6, 7}), (D(2012, 1, 31), D(2012, 12, 31), [("DT_DURMO", 1)], {1, 2, 3}),
    ]
    for fst, lst, incs, skip in cases:
        for from_last in (False, True):
            ss = sum(1 << w for w in skip)
            st, recs = replay(_drec(E, fst), _drec(E, lst), [dur(t, v) for t, v in incs], ss, from_last)
            n += 1
            got = [(r.get("d.ymd.y"), r.get("d.ymd.m"), r.get("d.ymd.d")) for r in (recs or [])]

            def step(d0, k):
                d1 = d0
                # FIRST plus k increments, each unit taken in one step
                for t, v in incs:
                    if t == "DT_DURD":
                        d1 = d1 + datetime.timedelta(days=v * k) if len(incs) == 1 else d1
                    elif t == "DT_DURWK":
                        d1 = d1 + datetime.timedelta(days=7 * v * k)
                return d1
            sign = 0
            probe = fst
            if len(incs) == 1:
                t, v = incs[0]
                sign = (v > 0) - (v < 0)
            else:
                sign = 1
            if sign == 0 or (sign > 0 and fst > lst) or (sign < 0 and fst < lst):
                exp = None if sign == 0 else []
            else:
                exp = []
                anchor = lst if from_last else fst
                k = 0
                while k < 400:
                    kk = -k if from_last else k
                    if len(incs) == 1:
                        t, v = incs[0]
                        if t == "DT_DURD":
                            d1 = anchor + datetime.timedelta(days=v * kk)
                        elif t == "DT_DURWK":
                            d1 = anchor + datetime.timedelta(days=7 * v * kk)
                        elif t == "DT_DURMO":
                            d1 = _addm(anchor, v * kk)
                        else:
                            d1 = _addm(anchor, 12 * v * kk)
                    else:
                        # compound steps are applied one after the other, round by round (the day is kept lazily between the rounds)
                        d1 = None
                    if d1 is None:
                        break
                    lo_, hi_ = (fst, lst) if fst <= lst else (lst, fst)
                    if not (lo_ <= d1 <= hi_):
                        break
                    exp.append(d1)
                    k += 1
                if from_last:
                    exp.reverse()
                exp = [(d.year, d.month, d.day) for d in exp if d.isoweekday() not in skip]
            what = "dseq %s %s %s%s%s" % (fst, " ".join("%+d%s" % (v, {"DT_DURD": "d", "DT_DURWK": "w", "DT_DURMO": "mo", "DT_DURYR": "y"}[t]) for t, v in incs), lst,
                                          " --skip %s" % sorted(skip) if skip else "", " --compute-from-last" if from_last else "")
            if st == "endless":
                bad.append((what, "does not end (400 rounds)", "a finite run"))
            elif len(incs) > 1:
                # compound: only sanity (strictly increasing, inside the bounds, ends)
                ds = [datetime.date(*g) for g in got]
                if any(b <= a for a, b in zip(ds, ds[1:])) or any(not (fst <= d <= lst) for d in ds):
                    bad.append((what, str(got[:6]), "a strictly increasing run inside the bounds"))
            elif exp is None:
                if st != "refused":
                    bad.append((what, "%s %s" % (st, got[:4]), "refused (the increment is naught)"))
            elif st == "refused":
                if exp:
                    bad.append((what, "refused", str(exp[:4])))
            elif got != exp:
                i = next((i for i, (a, b) in enumerate(zip(got, exp)) if a != b), min(len(got), len(exp)))
                bad.append((what, "%d values, element %d is %s" % (len(got), i, got[i] if i < len(got) else "missing"),
                            "%d values, element %d is %s" % (len(exp), i, exp[i] if i < len(exp) else "missing")))
    # business-day dates: a day step does not move a Friday's business day (the next day is no business day); the run must end all the same
    Eb = tu.enum_value("DT_BIZDA") if tu.enum_value("DT_BIZDA") is not None else None
    if Eb is None:
        raise AnalysisBroken("%s: DT_BIZDA not found" % rule)
    for (y_, m_, b1, b2, typ, v) in ((2014, 2, 18, 3, "DT_DURD", 1), (2014, 2, 18, 3, "DT_DURBD", 1), (2014, 3, 3, 18, "DT_DURBD", -1)):
        m2 = m_ + 1 if v > 0 else m_ - 1
        f_ = {"typ": Eb, "sandwich": 0, "d.typ": Eb, "d.param": 0, "d.bizda.y": y_, "d.bizda.m": m_, "d.bizda.bd": b1}
        l_ = {"typ": Eb, "sandwich": 0, "d.typ": Eb, "d.param": 0, "d.bizda.y": y_, "d.bizda.m": m2, "d.bizda.bd": b2}
        st, recs = replay(f_, l_, [dur(typ, v)])
        n += 1
        got = [(r.get("d.bizda.y"), r.get("d.bizda.m"), r.get("d.bizda.bd")) for r in (recs or [])]
        what = "dseq %d-%02d-%02db %+d%s %d-%02d-%02db" % (y_, m_, b1, v, "b" if typ == "DT_DURBD" else "d", y_, m2, b2)
        if st == "endless":
            bad.append((what, "does not end (400 rounds): %s ..." % got[:4], "a finite run"))
        elif typ == "DT_DURBD":
            # Monday-to-Friday days of the two months between the bounds
            import calendar
            def nb(mm):
                return sum(1 for k in range(1, calendar.monthrange(y_, mm)[1] + 1) if datetime.date(y_, mm, k).isoweekday() <= 5)
            if v > 0:
                exp = [(y_, m_, b) for b in range(b1, nb(m_) + 1)] + [(y_, m2, b) for b in range(1, b2 + 1)]
            else:
                exp = [(y_, m_, b) for b in range(b1, 0, -1)] + [(y_, m2, b) for b in range(nb(m2), b2 - 1, -1)]
            if got != exp:
                bad.append((what, "%d values %s" % (len(got), got[:5]), "%d values %s" % (len(exp), exp[:5])))
    # date-times held as month-count-weekday: steps within one day are told apart by the time
    Ec = tu.enum_value("DT_YMCW")
    for (h1, h2, v) in ((10, 15, 1), (15, 10, -1)):
        def ymcw(h):
            return {"typ": Ec, "sandwich": 1, "d.typ": Ec, "d.ymcw.y": 2014, "d.ymcw.m": 8, "d.ymcw.c": 1, "d.ymcw.w": 5,
                    "t.typ": E["DT_HMS"], "t.hms.h": h, "t.hms.m": 0, "t.hms.s": 0, "t.hms.ns": 0}
        st, recs = replay(ymcw(h1), ymcw(h2), [dur("DT_DURH", v)])
        n += 1
        got = [r.get("t.hms.h") for r in (recs or [])]
        exp = list(range(h1, h2 + v, v))
        if st != "ok" or got != exp:
            bad.append(("dseq 2014-08-01-05T%02d:00:00 %+dh 2014-08-01-05T%02d:00:00" % (h1, v, h2), "%s %s" % (st, got), "hours %s" % exp))
    # times of day
    tcases = [((0, 0, 0), (23, 0, 0), ("DT_DURH", 12)), ((0, 0, 0), (23, 0, 0), ("DT_DURH", 6)), ((0, 0, 0), (5, 0, 0), ("DT_DURH", 1)),
              ((23, 0, 0), (0, 0, 0), ("DT_DURH", -12)), ((22, 0, 0), (2, 0, 0), ("DT_DURH", 1)), ((13, 0, 0), (2, 0, 0), ("DT_DURH", 12)),
              ((2, 0, 0), (22, 0, 0), ("DT_DURH", -1)), ((10, 0, 0), (11, 0, 0), ("DT_DURM", 30)), ((0, 0, 0), (23, 0, 0), ("DT_DURH", 24)),
              ((0, 0, 0), (23, 0, 0), ("DT_DURH", 25)), ((0, 0, 0), (23, 0, 0), ("DT_DURM", 1440)), ((10, 0, 0), (10, 0, 50), ("DT_DURS", 7)),
              ((10, 0, 0), (11, 0, 0), ("DT_DURH", 0)), ((23, 59, 50), (0, 0, 10), ("DT_DURS", 5)), ((5, 0, 0), (0, 0, 0), ("DT_DURH", -1)),
              ((5, 0, 0), (1, 0, 0), ("DT_DURM", -120)), ((0, 0, 10), (23, 59, 50), ("DT_DURS", -5))]
    tcases = [(f_, l_, tv, False) for (f_, l_, tv) in tcases]
    # anchored on LAST: the same bounds, the progression ends on LAST (bounds around midnight among them)
    tcases += [((23, 20, 0), (2, 0, 0), ("DT_DURM", 20), True), ((23, 30, 0), (2, 0, 0), ("DT_DURM", 20), True),
               ((10, 0, 0), (11, 10, 0), ("DT_DURM", 20), True), ((23, 30, 0), (2, 0, 0), ("DT_DURH", 3), True),
               ((1, 0, 0), (23, 10, 0), ("DT_DURM", -20), True), ((23, 20, 0), (22, 0, 0), ("DT_DURM", -20), True),
               ((22, 0, 0), (2, 0, 0), ("DT_DURH", 1), True), ((0, 0, 0), (23, 0, 0), ("DT_DURH", 6), True)]
    for fst, lst, (t, v), from_last in tcases:
        st, recs = replay(_trec(E, fst), _trec(E, lst), [dur(t, v)], 0, from_last)
        n += 1
        got = [(r.get("t.hms.h"), r.get("t.hms.m"), r.get("t.hms.s")) for r in (recs or [])]
        mult = {"DT_DURH": 3600, "DT_DURM": 60, "DT_DURS": 1}[t]
        a, b = fst[0] * 3600 + fst[1] * 60 + fst[2], lst[0] * 3600 + lst[1] * 60 + lst[2]
        what = "dseq %02d:%02d:%02d %+d%s %02d:%02d:%02d" % (fst + (v, {"DT_DURH": "h", "DT_DURM": "m", "DT_DURS": "s"}[t]) + lst)
        what += " --compute-from-last" if from_last else ""
        if v == 0:
            # main() takes a zero increment on times of day for `none given` and guesses one from the bounds: finite is what matters
            if st == "endless":
                bad.append((what, "does not end (400 rounds)", "refused, or a finite run with a guessed increment"))
            continue
        # run in the direction of the increment from FIRST until LAST is passed, around midnight if LAST lies that way
        if v > 0:
            end = b if b >= a else b + 86400
        else:
            end = b if b <= a else b - 86400
        exp = []
        x = a
        if from_last:
            # the first element is LAST minus as many steps as fit between the bounds
            x = end - (abs(end - a) // abs(v * mult)) * (v * mult)
        while (v > 0 and x <= end) or (v < 0 and x >= end):
            y_ = x % 86400
            exp.append((y_ // 3600, y_ // 60 % 60, y_ % 60))
            x += v * mult
            if len(exp) > 400:
                break
        if st == "endless":
            bad.append((what, "does not end (400 rounds): %s ..." % got[:5], "%d values" % len(exp)))
        elif st == "refused":
            bad.append((what, "refused", str(exp[:4])))
        elif got != exp:
            bad.append((what, "%d values %s" % (len(got), got[:5]), "%d values %s" % (len(exp), exp[:5])))
    fn = tu.func("__in_range_p")
    if bad:
        what, got, exp = bad[0]
        R.finding(rule, fn, "sequences decoded", "%d of %d runs differ from the progression; first: `%s` gives %s, the progression is %s"
                  % (len(bad), n, what, got, exp))
    else:
        R.ob(rule, "%d runs (days, weeks, months, years both ways, zero and wrong-way increments, skip sets, --compute-from-last; times of "
             "day incl. steps that miss LAST, steps of a day and more, bounds around midnight): the progression between the bounds, finite"
             % n, True)
    return n
