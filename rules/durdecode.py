"""RF2-neg: negating a parsed duration decoded.

The tools read the sign of a duration apart from the number (src/dt-io.c: dt_io_strpdtdur) and flip the parsed value with
dt_neg_dtdur when the sign test dt_dtdur_neg_p disagrees with it; dseq negates the same way.  dt_strpdtdur, dt_neg_dtdur,
dt_dtdur_neg_p (lib/dt-core.c) and dt_neg_dur, dt_dur_neg_p (lib/date-core.c) are folded as they stand for every unit suffix the
duration parser knows: the value obtained by negating the parsed `7<unit>` must be the value parsed from `-7<unit>` (and the
other way round), and the sign tests must say so.  A unit missing from one of the switches leaves the value as it was."""
from core import AnalysisBroken, NotConst
import fold
from fold import CPtr, Ptr, cstr
from fmtdecode import LIBC

UNITS = ["", "d", "D", "y", "w", "b", "q", "Q", "mo", "h", "m", "s", "rs", "rh", "rm", "ns", "n", "'", '"']
DATE_UNITS = ("", "d", "D", "y", "w", "b", "q", "Q", "mo")
SKIP = ("neg", "t.neg")


def _strtol(p, endp, base):
    i = 0
    while p.get(i) in (32, 9):
        i += 1
    sg = 1
    if p.get(i) in (43, 45):
        sg = -1 if p.get(i) == 45 else 1
        i += 1
    j = i
    v = 0
    while 48 <= p.get(j) <= 57:
        v = v * 10 + p.get(j) - 48
        j += 1
    if j == i:
        j = 0
    if isinstance(endp, Ptr):
        endp.env[endp.d] = CPtr(p.buf, p.off + j)
    return sg * v


def _val(r):
    return {k: v for k, v in r.items() if k not in SKIP and v not in (0, None)} if isinstance(r, dict) else r


def check(R, P, rule):
    tu = P.tu("libdut_a-dt-core.o")
    dtu = P.tu("libdut_a-date-core.o")
    libs = [tu, dtu, P.tu("libdut_a-time-core.o"), P.tu("libdut_a-strops.o")]
    fs = {}
    for t, names in ((tu, ("dt_strpdtdur", "dt_neg_dtdur", "dt_dtdur_neg_p")), (dtu, ("dt_neg_dur", "dt_dur_neg_p"))):
        for nm in names:
            f = t.func(nm)
            if f is None or getattr(f, "body", None) is None:
                raise AnalysisBroken("%s: %s vanished" % (rule, nm))
            R.saw(f)
            fs[nm] = f

    def resolve(name):
        for l in libs:
            f = l.func(name)
            if f is not None and getattr(f, "body", None) is not None:
                return f
        return None

    def glob(name):
        for l in libs:
            g = l.global_var(name)
            if g is not None and (g.get("init") is not None or "val" in g):
                return g
        return None
    fold.RESOLVE["fn"] = resolve
    fold.GLOBALS["fn"] = glob
    err = {"errno": 0}
    calls = dict(LIBC)
    calls["strtol"] = _strtol
    calls["__errno_location"] = lambda: Ptr(err, "errno", None)

    def run(nm, *args):
        fo = fold.Folder(fs[nm], calls=calls, inline=True, max_steps=200000)
        return fo.run([dict(a) if isinstance(a, dict) else a for a in args])
    n = 0
    try:
        for u in UNITS:
            what = "unit suffix `%s`" % u if u else "no unit suffix (days)"
            fr = {"ep": 0}
            A = run("dt_strpdtdur", cstr("7" + u), Ptr(fr, "ep", None))
            B = run("dt_strpdtdur", cstr("-7" + u), Ptr(fr, "ep", None))
            if not isinstance(A, dict) or not isinstance(B, dict) or _val(A) == _val(B):
                raise AnalysisBroken("%s: the duration parser was not decoded for `7%s`" % (rule, u))
            N, M = run("dt_neg_dtdur", A), run("dt_neg_dtdur", B)
            n += 4
            negok = _val(N) == _val(B) and _val(M) == _val(A)
            if not negok:
                R.finding(rule, fs["dt_neg_dtdur"], what, "negating the parsed `7%s` gives %s, but `-7%s` parses to %s (and back: %s against %s): "
                          "a sign read apart from the number (-7%s on the command line of dadd / dseq) is lost"
                          % (u, _val(N), u, _val(B), _val(M), _val(A), u))
            else:
                R.ob(rule, "dt_neg_dtdur, %s: the negated `7%s` is the parsed `-7%s` and the other way round" % (what, u, u), True)
            sg = [run("dt_dtdur_neg_p", x) for x in ((A, B, N, M) if negok else (A, B, B, A))]
            n += 4
            if [bool(x) for x in sg] != [False, True, True, False]:
                R.finding(rule, fs["dt_dtdur_neg_p"], what, "the sign test says %s for `7%s`, `-7%s` and their negations; it must say "
                          "[0, 1, 1, 0]: dt_io_strpdtdur flips the value exactly when the test disagrees with the sign it read" % (sg, u, u))
            else:
                R.ob(rule, "dt_dtdur_neg_p, %s: false / true for `7%s` / `-7%s`, swapped after negation" % (what, u, u), True)
            if u in DATE_UNITS:
                a, b = ({k[2:]: v for k, v in X.items() if k.startswith("d.")} for X in (A, B))
                nn, mm = run("dt_neg_dur", a), run("dt_neg_dur", b)
                sg = [run("dt_dur_neg_p", x) for x in (a, b, nn, mm)]
                n += 6
                if _val(nn) != _val(b) or _val(mm) != _val(a) or [bool(x) for x in sg] != [False, True, True, False]:
                    R.finding(rule, fs["dt_neg_dur"], what, "the date-only negation gives %s for `7%s` (parsed `-7%s`: %s), sign tests %s"
                              % (_val(nn), u, u, _val(b), sg))
                else:
                    R.ob(rule, "dt_neg_dur / dt_dur_neg_p, %s: the same for the date-only duration" % what, True)
    except NotConst as e:
        raise AnalysisBroken("%s: the duration parser / negation left the foldable fragment (%s)" % (rule, e))
    except fold.Abort as e:
        raise AnalysisBroken("%s: fold aborted (%s)" % (rule, e))
    return n
