"""C20 — results depend only on the arguments, not on clock, TZ or locale settings.

RF7a  environment sources: every call site of a clock/TZ/locale/env libc function must be a row of
      ENV_SITES; every call of a clock-tainted dateutils function must be a row of GATES (with its
      guard, decided on the CFG) or of PROPAGATES (the caller is tainted itself).  Closed world:
      a new site anywhere in the build is a finding.
RF7b  locale partition: transitive write/read sets of setilocale / setflocale over dut_*/duf_*;
      parser closure never reads duf_*, printer closure never reads the dut_* name tables.
RF9   sibling agreement of the 16 __str{p,f}_{set,reset}_{long,abbr}_{wday,mon} functions.
"""
import re
from core import (kids, AnalysisBroken, CallGraph, global_accesses, guards_of, norm_cond, strip, expr_text,
                  call_args, kids, const_of, walk)

ENV_FUNCS = set("""time gettimeofday clock_gettime clock ftime localtime localtime_r gmtime gmtime_r mktime
timegm timelocal strftime strptime tzset ctime ctime_r asctime asctime_r setlocale uselocale newlocale
nl_langinfo localeconv strcoll strxfrm getenv secure_getenv getdate getdate_r stime
strftime_l strptime_l""".split())
PATH_FUNCS = set("stat lstat open fopen readlink access opendir realpath".split())

# units that are not dateutils tools in the sense of the property
EXEMPT_UNITS = {
    "strptime-strptime.o": "the strptime tool is by definition a front end to libc strptime/strftime/setlocale/tzset",
    "ltrcc-ltrcc.o": "build-time generator of the leap-second table (not installed)",
    "tzmap-tzmap.o": "build-time zone-map compiler (tzmap.c with -DSTANDALONE, not installed)",
    "tzraw-tzraw.o": "noinst debugging front end of tzraw.c (-DSTANDALONE)",
    "tzraw-leaps.o": "noinst debugging front end",
}

# (caller, callee, first-argument literal or None, reason)
ENV_SITES = [
    ("now_tv", "gettimeofday", None, "the run-wide `now' singleton"),
    ("dt_time", "gettimeofday", None, "current time for dseq's single-argument form"),
    ("dt_date", "time", None, "current date for dseq's single-argument form"),
    ("__setlocale", "getenv", "LOCALE_FILE", "location of the shipped locale table; only consulted by --locale/--from-locale"),
    ("find_tzmap", "getenv", "TZMAP_DIR", "location of the shipped zone maps; only consulted for MAP:KEY zone specs"),
    ("__local", "stat", "/etc/localtime", "zone spec `localtime' asks for the system zone explicitly"),
]

# functions whose result depends on the clock / system configuration
TAINTED = ["dt_date", "dt_time", "now_tv", "now_tm", "dt_datetime", "dt_get_base", "dt_get_dbase",
           "dt_get_tbase", "__local"]

# caller is itself tainted: (caller, callee)
PROPAGATES = {
    ("now_tm", "now_tv"), ("dt_datetime", "now_tv"), ("dt_datetime", "now_tm"),
    ("dt_get_dbase", "dt_get_base"), ("dt_get_tbase", "dt_get_base"),
}


def _shape(n):
    """variable-name independent description of a guard operand"""
    n = strip(n)
    if n is None:
        return "?"
    k = n.get("k")
    if k == "DeclRefExpr":
        if n.get("dk") == "gvar":
            return "g:" + n["n"]
        if n.get("dk") == "enum":
            return n["n"]
        return "var"
    if k == "MemberExpr":
        # last named member
        return "." + n.get("n", "")
    if k == "CallExpr":
        lits = [a.get("s") for a in (strip(x) for x in call_args(n)) if a is not None and a.get("k") == "StringLiteral"]
        return "call:%s(%s)" % (n.get("callee"), ",".join(lits))
    if k in ("IntegerLiteral", "CharacterLiteral") or "v" in n:
        return str(n.get("v"))
    if k == "BinaryOperator" and n.get("op") == "=":
        return _shape(n["c"][0])
    return expr_text(n)


def guard_shapes(fn, node):
    out = set()
    for g in guards_of(fn, node):
        c = strip(g["cond"])
        if "pol" in g:
            pol = g["pol"]
            while c is not None and c.get("k") == "UnaryOperator" and c.get("op") == "!":
                pol = not pol
                c = strip(c["c"][0])
            op, _, _ = norm_cond(g["cond"], g["pol"])
            if c is not None and c.get("k") == "BinaryOperator" and c.get("op") in ("==", "!=", "<", ">", "<=", ">="):
                l, r = strip(c["c"][0]), strip(c["c"][1])
                if const_of(l) is not None and const_of(r) is None and l.get("k") != "DeclRefExpr":
                    l, r = r, l
                out.add((op, _shape(l), _shape(r)))
            else:
                out.add((op, _shape(c), "0"))
        else:
            labs = []
            for ln in g["cases"]:
                if ln is None:
                    labs.append("?")
                elif ln.get("k") == "DefaultStmt":
                    labs.append("default")
                else:
                    labs.append(ln.get("en") or str(ln.get("lo")))
            out.add(("in", _shape(c), tuple(sorted(labs))))
    return out


# (caller, callee) -> list of alternative guard sets; every call site of the pair must satisfy one alternative
GATES = {
    ("dt_get_base", "dt_datetime"): ([("==", ".typ", "DT_UNK")],
                                     "singleton fallback: only while no --base has been stored"),
    ("dt_io_strpdt", "dt_datetime"): ([(">", "var", "STRPDT_UNK")],
                                      "only for the literal input words now/today/tomorrow/yesterday/time"),
    ("main@dseq.c", "dt_date"): ([("==", ".nargs", "1")], "dseq with a single argument counts up to today"),
    ("main@dseq.c", "dt_time"): ([("==", ".nargs", "1")], "dseq with a single argument counts up to now"),
    ("main@dseq.c", "dt_datetime"): ([("==", ".nargs", "1")], "dseq with a single argument counts up to now"),
    ("main@dzone.c", "dt_datetime"): ([("==", "var", "0")], "dzone without any date/time argument shows the current time"),
    ("__to_unix_epoch", "dt_get_base"): ([("!=", "call:dt_sandwich_only_t_p()", "0")],
                                         "a time without a date is put on the base date"),
    ("massage_strpdt", "dt_get_base"): ([("==", ".y", "0")], "input that specifies no year takes it from the base date"),
    ("__strpd_card", "dt_get_dbase"): ([("in", ".spfl", ("DT_SPFL_N_YEAR",))],
                                       "%y / %_y: century window around the base date"),
    ("dt_io_zone", "__local"): ([("==", "call:strcmp(localtime)", "0")], "zone spec `localtime' only"),
}


def fn_parent_text(fn, n):
    p_ = n
    for _ in range(3):
        q = fn.parent(p_)
        if q is None or q.get("k") in ("CompoundStmt", "IfStmt"):
            break
        p_ = q
    return p_


def check(P, R, tier):
    cg = CallGraph(P, exclude_objs=())
    # ---------------------------------------------------------------- RF7a: libc environment sources
    nsites = 0
    allowed = {(c, f, a) for c, f, a, _ in ENV_SITES}
    matched = set()
    for fn in P.all_functions():
        R.saw(fn)
        exempt = fn.tu.obj in EXEMPT_UNITS
        for n in fn.calls():
            nm = n.get("callee")
            if nm in ENV_FUNCS or nm in PATH_FUNCS:
                args = call_args(n)
                a0 = strip(args[0]) if args else None
                lit = a0.get("s") if a0 is not None and a0.get("k") == "StringLiteral" else None
                if nm in PATH_FUNCS:
                    if lit is None or not lit.startswith("/"):
                        continue  # path comes from the arguments (zone spec, file operand)
                nsites += 1
                site = "%s(%s)" % (nm, lit if lit is not None else "")
                if exempt:
                    R.ob("RF7a", "%s %s exempt-unit" % (fn.name, site), True)
                    continue
                key = (fn.name, nm, lit)
                if key in allowed:
                    matched.add(key)
                    R.ob("RF7a", "%s %s" % (fn.name, site), True,
                         sample={"rule": "RF7a", "site": fn.where(n), "call": expr_text(n), "verdict": "listed environment source"})
                else:
                    R.finding("RF7a", fn, "call %s" % site,
                              "call of environment-dependent libc function %s is not one of the %d listed sources"
                              % (expr_text(n), len(ENV_SITES)), n)
    for row in ENV_SITES:
        if (row[0], row[1], row[2]) not in matched:
            raise AnalysisBroken("RF7a: listed environment source %s->%s(%s) not found; table out of date" % row[:3])
    R.floor("RF7a", "environment call sites", nsites, 6)
    # ---------------------------------------------------------------- RF7a-opt: each locale option reaches its own side, whatever else is given
    import re as _re
    PAIR = {"setilocale": "from_locale_arg", "setflocale": "locale_arg"}
    nopt = 0
    for fn in P.all_functions():
        if fn.name != "main" or not fn.file.startswith("src/") and "/src/" not in fn.file:
            continue
        for n in fn.calls():
            nm = n.get("callee")
            if nm not in PAIR:
                continue
            args = call_args(n)
            a0 = strip(args[0]) if args else None
            if a0 is None or a0.get("k") != "MemberExpr":
                continue        # the reset at the end of the run (NULL) is judged by RF7b's pairing
            nopt += 1
            passed = a0.get("n") or a0.get("member") or ""
            if not passed:
                m_ = _re.search(r"(\w+)\s*$", expr_text(a0))
                passed = m_.group(1) if m_ else ""
            gs = [g for g in guards_of(fn, n) if "pol" in g]
            opts = set()
            for g in gs:
                opts |= set(_re.findall(r"\b(\w+_(?:arg|flag|nargs|args))\b", expr_text(strip(g["cond"]))))
            site = "%s: %s(%s)" % (fn.file.rsplit("/", 1)[-1], nm, passed)
            if passed != PAIR[nm]:
                R.finding("RF7a-opt", fn, site, "%s installs the %s side of the name tables and is handed the value of `%s`; the option "
                          "for that side is `%s`" % (nm, "input" if nm == "setilocale" else "output", passed, PAIR[nm]), n)
            elif (opts & set(PAIR.values())) - {passed}:
                R.finding("RF7a-opt", fn, site, "the locale option `%s` is applied only depending on %s: given together, one option "
                          "switches the other off, so an option of the other direction changes this one's" %
                          (passed, ", ".join("`%s`" % o for o in sorted((opts & set(PAIR.values())) - {passed}))), n)
            else:
                R.ob("RF7a-opt", "%s: no test of the other direction's locale option on the way to it" % site, True)
    R.floor("RF7a-opt", "locale options applied in the tools' main()", nopt, 13)
    # ---------------------------------------------------------------- RF7a-tzpin: the libc front end pins TZ and the locale unless asked not to
    st_ = P.by_obj.get("strptime-strptime.o")
    if st_ is not None:
        mn = st_.func("main")
        if mn is None:
            raise AnalysisBroken("RF7a-tzpin: main of the strptime tool vanished")
        uses = [n for n in mn.tu.funclist for n in n.calls() if n.get("callee") in ("tzset", "strftime", "mktime", "localtime", "localtime_r")]
        pins = []
        for n in mn.calls():
            nm = n.get("callee")
            args = call_args(n)
            a0 = strip(args[0]) if args else None
            lit = a0.get("s") if a0 is not None and a0.get("k") == "StringLiteral" else None
            if nm == "setenv" and lit == "TZ" and len(args) >= 3:
                ov = const_of(args[2])
                if ov is not None and ov != 0:
                    pins.append(n)
                else:
                    R.finding("RF7a-tzpin", mn, "setenv(\"TZ\", ..., %s)" % expr_text(args[2]), "the tool pins TZ for its libc calls, but "
                              "with overwrite %s a TZ already in the environment stays in force: %%Z, %%z and %%s of the strptime tool follow "
                              "the caller's TZ although --locale was not asked for" % expr_text(args[2]), n)
                    pins.append(None)
            elif nm == "unsetenv" and lit == "TZ" or nm == "putenv" and lit is not None and lit.startswith("TZ="):
                pins.append(n)
        good = [p_ for p_ in pins if p_ is not None]
        for p_ in good:
            gs = [g for g in guards_of(mn, p_) if "pol" in g]
            txt = " ".join(("" if g["pol"] else "!") + expr_text(strip(g["cond"])) for g in gs)
            if "locale_flag" in txt:
                R.ob("RF7a-tzpin", "strptime main: TZ pinned (overwriting) on the path without --locale (`%s`)" % txt, True)
            else:
                R.ob("RF7a-tzpin", "strptime main: TZ pinned (overwriting)", True)
        if uses and not pins:
            R.finding("RF7a-tzpin", mn, "no pin of TZ", "the strptime tool calls %s but nothing pins TZ first: its output follows the caller's TZ "
                      "whether or not --locale was given" % ", ".join(sorted({u.get("callee") for u in uses})), mn.body if getattr(mn, "body", None) else None)
        R.floor("RF7a-tzpin", "TZ pins in the strptime tool", len(pins), 1 if uses else 0)
    for u, why in EXEMPT_UNITS.items():
        R.exceptions.append("unit %s exempt: %s" % (u, why))
    # exempt unit must stay isolated: nothing it defines is called from elsewhere
    st = P.by_obj.get("strptime-strptime.o")
    if st is not None:
        own = {f.name for f in st.funclist if not f.static and f.file.endswith("strptime.c")} - {"main"}
        for fn in P.all_functions():
            if fn.tu.obj == "strptime-strptime.o":
                continue
            for n in fn.calls():
                if n.get("callee") in own:
                    R.finding("RF7a", fn, "call %s" % n["callee"], "function of the exempt strptime unit called from %s" % fn.name, n)
        R.ob("RF7a", "strptime unit isolated", True)

    # ---------------------------------------------------------------- RF7a: tainted dateutils functions and their gates
    for t in TAINTED:
        callers = cg.callers_of(t)
        for fn, n in callers:
            if fn.tu.obj in EXEMPT_UNITS or fn.file.endswith("testlib.c"):
                continue
            if (fn.name, t) in PROPAGATES:
                if fn.name not in TAINTED:
                    raise AnalysisBroken("table error: %s propagates but is not tainted" % fn.name)
                R.ob("RF7a-gate", "%s->%s propagates" % (fn.name, t), True)
                continue
            key = (fn.name, t)
            if fn.name == "main":
                key = ("main@" + fn.file.rsplit("/", 1)[-1], t)
            gate = GATES.get(key)
            if gate is None:
                R.finding("RF7a-gate", fn, "call %s" % t,
                          "%s() (clock/system dependent) is called from %s, which is not a listed gated use" % (t, fn.name), n)
                continue
            need, why = gate
            have = guard_shapes(fn, n)
            missing = [g for g in need if g not in have]
            if missing:
                R.finding("RF7a-gate", fn, "call %s gate" % t,
                          "call of %s() must be guarded by %s (%s); guards found on the CFG: %s"
                          % (t, need, why, sorted(map(str, have))), n)
            else:
                R.ob("RF7a-gate", "%s->%s @%s" % (fn.name, t, n.get("l")), True,
                     sample={"rule": "RF7a-gate", "site": fn.where(n), "callee": t, "guard": [list(map(str, g)) for g in need], "why": why})
    # ENV_SITES callers must be tainted functions or config lookups
    for c, f, a, _ in ENV_SITES:
        if f in ("time", "gettimeofday", "stat") and c not in TAINTED:
            raise AnalysisBroken("table error: %s calls %s but is not in TAINTED" % (c, f))
    # config lookups: getenv sites only reachable through setilocale/setflocale resp. MAP: zone specs
    for fn, n in cg.callers_of("__setlocale"):
        if fn.name not in ("setilocale", "setflocale"):
            R.finding("RF7a-gate", fn, "call __setlocale", "__setlocale (reads $LOCALE_FILE) called from unexpected function", n)
        else:
            R.ob("RF7a-gate", "%s->__setlocale" % fn.name, True)
    for fn, n in cg.callers_of("find_tzmap"):
        if fn.name != "dt_io_zone":
            R.finding("RF7a-gate", fn, "call find_tzmap", "find_tzmap (reads $TZMAP_DIR) called from unexpected function", n)
        else:
            R.ob("RF7a-gate", "%s->find_tzmap" % fn.name, True)
    # setilocale / setflocale are only called under the respective option
    for setter, opt in (("setilocale", "from_locale_arg"), ("setflocale", "locale_arg")):
        cs = cg.callers_of(setter)
        R.floor("RF7a-gate", "callers of " + setter, len(cs), 3)
        for fn, n in cs:
            args = call_args(n)
            a = strip(args[0]) if args else None
            ok = False
            if a is not None and a.get("k") == "MemberExpr" and a.get("n") == opt:
                ok = True
            elif a is not None and const_of(a) == 0:
                ok = True  # reset to built-in names
            if ok and a.get("k") == "MemberExpr":
                have = guard_shapes(fn, n)
                ok = ("!=", "." + opt, "0") in have
            if ok:
                R.ob("RF7a-gate", "%s(%s) in %s" % (setter, opt, fn.where(n)), True)
            else:
                R.finding("RF7a-gate", fn, "call %s" % setter,
                          "%s must be called with argi->%s under `if (argi->%s)` (or with NULL to reset); got %s"
                          % (setter, opt, opt, expr_text(n)), n)
    # --base: every tool that reads base_arg hands it to dt_set_base
    ntools = 0
    for t in P.tus:
        mainf = t.functions.get("main")
        if mainf is None or t.obj in EXEMPT_UNITS:
            continue
        reads = [n for n in mainf.walk() if n.get("k") == "MemberExpr" and n.get("n") == "base_arg"]
        if not reads:
            continue
        ntools += 1
        calls = list(mainf.calls("dt_set_base"))
        if not calls:
            R.finding("RF7a-gate", mainf, "dt_set_base missing", "tool reads --base but never stores it with dt_set_base()", reads[0])
        else:
            ok = all(("!=", ".base_arg", "0") in guard_shapes(mainf, c) for c in calls)
            if ok:
                R.ob("RF7a-gate", "%s --base -> dt_set_base" % t.obj, True)
            else:
                R.finding("RF7a-gate", mainf, "dt_set_base guard", "dt_set_base() not under `if (argi->base_arg)`", calls[0])
    R.floor("RF7a-gate", "tools with --base", ntools, 9)
    # the setter stores (a conversion of) its argument and nothing else: the clock is consulted whenever the stored base is unknown
    # (gate of dt_get_base above), so a setter that stores anything but what it was given silently re-opens that gate
    for t in P.tus:
        sb = t.functions.get("dt_set_base")
        if sb is None or getattr(sb, "body", None) is None or t.obj in EXEMPT_UNITS or not t.obj.startswith("libdut_a-"):
            continue
        R.saw(sb)
        par = sb.params[0]["d"]
        stores = [x for x in sb.walk() if x.get("k") == "BinaryOperator" and x.get("op") == "=" and strip(x["c"][0]).get("k") == "DeclRefExpr"
                  and strip(x["c"][0]).get("dk") not in ("parm",) and strip(x["c"][0]).get("n") == "base" and strip(x["c"][0]).get("d") != par]
        if not stores:
            raise AnalysisBroken("RF7a-setter: dt_set_base does not store into `base` any more")
        gd = strip(stores[0]["c"][0]).get("d")
        bad = []
        for x in sb.walk():
            if x.get("k") == "DeclRefExpr" and x.get("d") == gd and not any(strip(st["c"][0]) is x for st in stores):
                bad.append(x)
        inits = {}
        for v in sb.walk():
            if v.get("k") == "Var" and kids(v):
                inits[v["d"]] = kids(v)[0]

        def from_param(e, depth=0):
            """every variable the expression reads is the parameter, or a local made from the parameter alone"""
            for y in walk(e):
                if y.get("k") != "DeclRefExpr":
                    continue
                if y.get("dk") == "parm":
                    if y.get("d") != par:
                        return y
                elif y.get("dk") == "var":
                    if y.get("d") not in inits or depth > 4:
                        return y
                    sub = from_param(inits[y["d"]], depth + 1)
                    if sub is not None:
                        return sub
                elif y.get("dk") == "gvar":
                    return y
            return None
        for st in stores:
            culprit = from_param(st["c"][1])
            if culprit is not None:
                bad.append(st)
        # what the parameter is reassigned from mentions only the parameter itself
        for x in sb.walk():
            if x.get("k") == "BinaryOperator" and x.get("op") == "=" and strip(x["c"][0]).get("d") == par:
                for y in walk(x["c"][1]):
                    if y.get("k") == "DeclRefExpr" and y.get("dk") in ("var", "parm") and y.get("d") != par:
                        bad.append(y)
        if bad:
            R.finding("RF7a-setter", sb, "value stored by dt_set_base", "dt_set_base must store its argument (converted, if need be) and read "
                      "nothing else; `%s` brings in something else -- if that is the still unknown static itself, the stored base stays "
                      "unknown and dt_get_base() falls back to the clock although --base was given" % expr_text(fn_parent_text(sb, bad[0])), bad[0])
        else:
            R.ob("RF7a-setter", "dt_set_base stores a function of its argument only", True)

    # a time-only --base is stored with its type unknown (there is no date to type it by), so the getter's clock branch is taken
    # for it: whatever that branch stores into `base` must carry the time that was set (RF7a-keep)
    for t in P.tus:
        gb = t.functions.get("dt_get_base")
        if gb is None or getattr(gb, "body", None) is None or t.obj in EXEMPT_UNITS or not t.obj.startswith("libdut_a-"):
            continue
        R.saw(gb)
        stores = [x for x in gb.walk() if x.get("k") == "BinaryOperator" and x.get("op") == "=" and strip(x["c"][0]).get("k") == "DeclRefExpr"
                  and strip(x["c"][0]).get("dk") == "gvar" and strip(x["c"][0]).get("n") == "base"]
        if not stores:
            raise AnalysisBroken("RF7a-keep: dt_get_base does not store into `base` any more")

        def _mem(e, root_pred, name):
            e = strip(e)
            if e is None or e.get("k") != "MemberExpr" or e.get("n") != name:
                return False
            b = strip(e["c"][0])
            while b is not None and b.get("k") == "MemberExpr" and not b.get("n"):
                b = strip(b["c"][0])         # members of anonymous structs / unions
            return root_pred(b)
        for st in stores:
            r = strip(st["c"][1])
            kept = False
            if r is not None and r.get("k") == "DeclRefExpr" and r.get("dk") in ("var",):
                for x in gb.walk():
                    if x.get("k") == "BinaryOperator" and x.get("op") == "=" \
                            and _mem(x["c"][0], lambda b: b is not None and b.get("d") == r.get("d"), "t") \
                            and _mem(x["c"][1], lambda b: b is not None and b.get("dk") == "gvar" and b.get("n") == "base", "t"):
                        kept = True
            if kept:
                R.ob("RF7a-keep", "dt_get_base: the value it stores when the base has no type carries the time part a time-only --base set", True)
            else:
                R.finding("RF7a-keep", gb, "clock value stored over the base", "dt_get_base stores `%s` over the base whenever its type is unknown -- "
                          "that is also the case after `--base HH:MM:SS` (a time has no date type), so the hour, minute and second of the "
                          "base are replaced by the wall clock's" % expr_text(st["c"][1])[:60], st)

    # ---------------------------------------------------------------- RF7b: locale partition
    loc = P.tu("dt-locale.c")
    names = ("long_wday", "abbr_wday", "long_mon", "abbr_mon")
    in_tabs = {"dut_" + k for k in names} | {"dut_r" + k for k in names}
    out_tabs = {"duf_" + k for k in names}
    gl = {g["name"] for g in loc.globals}
    for v in in_tabs | out_tabs:
        if v not in gl:
            raise AnalysisBroken("RF7b: locale table %s vanished from dt-locale.c" % v)

    def effects(root):
        f0 = loc.func(root)
        if f0 is None:
            raise AnalysisBroken("RF7b: %s not found" % root)
        rs, ws = {}, {}
        for f in cg.reachable([f0]):
            R.saw(f)
            for nm, mode, n in global_accesses(f):
                if nm in in_tabs or nm in out_tabs:
                    if "w" in mode:
                        ws.setdefault(nm, (f, n))
                    if "r" in mode or mode == "addr":
                        rs.setdefault(nm, (f, n))
        return rs, ws

    for root, own, other, optname in (("setilocale", in_tabs, out_tabs, "--from-locale"),
                                      ("setflocale", out_tabs, in_tabs, "--locale")):
        rs, ws = effects(root)
        for v in sorted(other):
            if v in ws:
                f, n = ws[v]
                R.finding("RF7b", f, "write %s" % v,
                          "%s (%s) reaches a write of %s, a table of the other direction" % (root, optname, v), n)
            else:
                R.ob("RF7b", "%s never writes %s" % (root, v), True)
            if v in rs:
                f, n = rs[v]
                R.finding("RF7b", f, "read %s" % v,
                          "%s (%s) reaches a read of %s, a table of the other direction" % (root, optname, v), n)
            else:
                R.ob("RF7b", "%s never reads %s" % (root, v), True)
        for v in sorted(own):
            if v not in ws:
                R.finding("RF7b", loc.func(root), "missing write %s" % v, "%s does not (re)set its own table %s" % (root, v))
            else:
                R.ob("RF7b", "%s sets %s" % (root, v), True,
                     sample={"rule": "RF7b", "root": root, "table": v, "written_in": ws[v][0].name})
    # nobody else writes the tables
    for fn in P.all_functions():
        if fn.file.endswith("dt-locale.c"):
            continue
        for nm, mode, n in global_accesses(fn):
            if (nm in in_tabs or nm in out_tabs) and "w" in mode:
                R.finding("RF7b", fn, "write %s" % nm, "locale table %s written outside dt-locale.c" % nm, n)
    # parser closure / printer closure
    pent = [f for f in P.all_functions() if re.match(r"dt_strp(d|t|dt|ddur|dtdur|tdur)$", f.name) and f.tu.obj.startswith("libdut")]
    fent = [f for f in P.all_functions() if re.match(r"dt_strf(d|t|dt|ddur|dtdur|tdur)$", f.name) and f.tu.obj.startswith("libdut")]
    R.floor("RF7b", "parser entry points", len(pent), 5)
    R.floor("RF7b", "printer entry points", len(fent), 5)
    stop = ("setilocale", "setflocale")
    pclos = cg.reachable(pent, stop=stop)
    fclos = cg.reachable(fent, stop=stop)
    nread = 0
    for f in pclos:
        R.saw(f)
        for nm, mode, n in global_accesses(f):
            if nm in out_tabs:
                R.finding("RF7b", f, "read %s" % nm, "parser-side function reads the output-locale table %s" % nm, n)
            elif nm in in_tabs:
                nread += 1
                R.ob("RF7b", "parser %s reads %s" % (f.name, nm), True)
    for f in fclos:
        R.saw(f)
        for nm, mode, n in global_accesses(f):
            if nm in in_tabs:
                R.finding("RF7b", f, "read %s" % nm, "printer-side function reads the input-locale table %s" % nm, n)
            elif nm in out_tabs:
                nread += 1
                R.ob("RF7b", "printer %s reads %s" % (f.name, nm), True)
    R.floor("RF7b", "locale table reads in parser/printer closures", nread, 8)

    # ---------------------------------------------------------------- RF9: the 16 siblings
    fam = re.compile(r"__str([pf])_(set|reset)_(long|abbr)_(wday|mon)$")
    nsib = 0
    for f in loc.funclist:
        m = fam.match(f.name)
        if not m:
            continue
        nsib += 1
        R.saw(f)
        d, kind, la, wm = m.groups()
        pre = "dut" if d == "p" else "duf"
        K = "%s_%s" % (la, wm)
        bad = False
        for nm, mode, n in global_accesses(f):
            mm = re.match(r"(dut|duf)_(r?)(long|abbr)_(wday|mon)$", nm)
            if mm:
                if mm.group(1) != pre or "%s_%s" % (mm.group(3), mm.group(4)) != K:
                    R.finding("RF9", f, "ref %s" % nm, "%s touches %s; its own table is %s_%s" % (f.name, nm, pre, K), n)
                    bad = True
                continue
            mm = re.match(r"__(r?)(long|abbr)_(wday|mon)$", nm)
            if mm and "%s_%s" % (mm.group(2), mm.group(3)) != K:
                R.finding("RF9", f, "ref %s" % nm, "%s uses the default table %s of another kind" % (f.name, nm), n)
                bad = True
        callees = [c.get("callee") for c in f.calls()]
        for c in callees:
            mm = fam.match(c or "")
            if mm and (mm.group(1) != d or "%s_%s" % (mm.group(3), mm.group(4)) != K):
                n = next(f.calls(c))
                R.finding("RF9", f, "call %s" % c, "%s calls %s, the helper of another direction/table" % (f.name, c), n)
                bad = True
        if kind == "set":
            want = "__str%s_reset_%s" % (d, K)
            if want not in callees:
                R.finding("RF9", f, "missing call %s" % want, "%s does not release the previous table via %s" % (f.name, want))
                bad = True
        if not bad:
            R.ob("RF9", "%s agrees with its family" % f.name, True)
    R.floor("RF9", "locale setter/resetter siblings", nsib, 16)
    # aggregate setters pass the matching field
    for agg, d, kind in (("set_il", "p", "set"), ("set_fl", "f", "set"), ("reset_il", "p", "reset"), ("reset_fl", "f", "reset")):
        f = loc.func(agg)
        if f is None:
            raise AnalysisBroken("RF9: %s not found" % agg)
        R.saw(f)
        got = set()
        for c in f.calls():
            m = fam.match(c.get("callee") or "")
            if not m:
                continue
            if m.group(1) != d or m.group(2) != kind:
                R.finding("RF9", f, "call %s" % c["callee"], "%s must only call __str%s_%s_*" % (agg, d, kind), c)
                continue
            K = "%s_%s" % (m.group(3), m.group(4))
            if kind == "set":
                a = strip(call_args(c)[0])
                if a is None or a.get("k") != "MemberExpr" or a.get("n") != K:
                    R.finding("RF9", f, "arg of %s" % c["callee"], "%s passes %s to %s (expected field %s)"
                              % (agg, expr_text(a), c["callee"], K), c)
                    continue
            got.add(K)
        if got == set(names):
            R.ob("RF9", "%s covers the four tables" % agg, True)
        else:
            R.finding("RF9", f, "coverage", "%s handles %s, expected all of %s" % (agg, sorted(got), sorted(names)))


LEVEL = ("Static who-may-call / effect analysis over all %d-odd translation units of the build: closed-world table of "
         "environment sources and CFG-decided gates on every path to them; transitive mod/ref sets of the two locale "
         "setters; structural agreement of the 16 locale setter/resetter siblings.")
RULE = ("one obligation per (rule, site): RF7a call site of a libc environment function; RF7a-gate call site of a "
        "clock-tainted dateutils function with the guard found by CFG dominance; RF7b (root, table) effect pair or "
        "(function, table) read in the parser/printer closure; RF9 sibling function")
ASSUME = ["libc functions not in the ENV list do not consult clock/TZ/locale while the process stays in the C locale "
          "(setlocale is never called outside the exempt strptime unit — itself checked)",
          "child processes sort(1)/cut(1) spawned by dsort are outside the analysis",
          "the clang-14 AST/CFG of each unit under the build's -D/-I flags is faithful to what gcc compiles"]
