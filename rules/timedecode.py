"""RF2-time: adding hours, minutes and seconds to date-times, and the epoch conversions, decoded against the timeline.

dt_dtadd is folded (library helpers folded with it) for start date-times on a grid -- the days around every month end, year end and
leap day of the 21 class years, the seconds next to midnight, noon and every minute / hour boundary -- with the count of seconds
(minutes, hours) kept as one symbolic parameter over a window that reaches across two midnights in both directions; the window
falls into pieces on which every quotient and carry is constant, and at every integer count the result must be the date-time that
many seconds later on the timeline.  dt_dtconv to and from epoch seconds is folded on the same grid: the epoch value is 86400 x
(days since 1970-01-01) + seconds of the day, and converting back returns the date-time."""
import datetime
from core import AnalysisBroken, NotConst
import fold
from fold import Aff
import convdecode

EPOCH = datetime.datetime(1970, 1, 1)
WIN = {"DT_DURS": 90000, "DT_DURM": 3000, "DT_DURH": 60}
MULT = {"DT_DURS": 1, "DT_DURM": 60, "DT_DURH": 3600}
FAR = {"DT_DURS": [604800, 31622400, 10 ** 9, 2147483647], "DT_DURM": [10 ** 5, 527040, 35791394], "DT_DURH": [1000, 8784, 596523]}
_G = {}


def _val(v, t):
    return v.c + v.k * t if isinstance(v, Aff) else v


def _grid(y, every):
    days = [(1, 1), (2, 28), (3, 1), (12, 31)] if not every else [(m, d) for m in range(1, 13) for d in (1, 28)] + [(12, 31)]
    times = [(0, 0, 0), (0, 0, 1), (11, 59, 59), (23, 59, 59), (23, 0, 30)]
    for (m, d) in days:
        for (h, mi, s) in times:
            yield datetime.datetime(y, m, d, h, mi, s)


def _worker(ys):
    tu, res, E, every = _G["tu"], _G["resolve"], _G["E"], _G["every"]
    fold.RESOLVE["fn"] = res
    fadd, fconv = tu.func("dt_dtadd"), tu.func("dt_dtconv")
    bad = {}
    n = 0
    tabs = {}

    def mk(fn):
        fo = fold.Folder(fn, calls={}, inline=True, max_steps=2000000)
        fo._tabs = tabs
        return fo

    def rec(d):
        return {"typ": E["DT_YMD"], "sandwich": 1, "d.typ": E["DT_YMD"], "d.ymd.y": d.year, "d.ymd.m": d.month, "d.ymd.d": d.day,
                "t.typ": E["DT_HMS"], "t.hms.h": d.hour, "t.hms.m": d.minute, "t.hms.s": d.second, "t.hms.ns": 0}
    for y in ys:
        for d in _grid(y, every):
            src = rec(d)
            # epoch conversion and back
            n += 1
            sx = mk(fconv).run([E["DT_SEXY"], dict(src)])
            exp = int((d - EPOCH).total_seconds())
            if not isinstance(sx, dict) or sx.get("sexy") != exp:
                bad.setdefault("epoch", []).append((d.isoformat(), 0, str(sx.get("sexy") if isinstance(sx, dict) else sx), str(exp)))
            else:
                back = mk(fconv).run([E["DT_YMD"], dict(sx)])
                n += 1
                got = tuple(back.get(k) for k in ("d.ymd.y", "d.ymd.m", "d.ymd.d", "t.hms.h", "t.hms.m", "t.hms.s"))
                if got != (d.year, d.month, d.day, d.hour, d.minute, d.second):
                    bad.setdefault("epoch", []).append((d.isoformat(), 1, str(got), "back to the date-time"))
            # differences in seconds against every other grid point of the year and of the year after
            for d2 in list(_grid(y, False)) + list(_grid(y + 1, False)):
                n += 1
                r = mk(tu.func("dt_dtdiff")).run([E["DT_DURS"], dict(src), rec(d2)])
                exp = int((d2 - d).total_seconds())
                got = r.get("dv") if isinstance(r, dict) else None
                if isinstance(r, dict) and r.get("neg"):
                    got = -got if got is not None else None
                if got != exp:
                    bad.setdefault("diff", []).append((d.isoformat(), 0, "%s .. %s: %s" % (d.isoformat(), d2.isoformat(), got), str(exp)))
            # the same instant held as an epoch value: every unit of duration adds what it adds to the date-time
            exp = int((d - EPOCH).total_seconds())
            if isinstance(sx, dict) and sx.get("sexy") == exp:
                for unit, cnts in (("DT_DURD", (1, -1, 40)), ("DT_DURWK", (1, -1, 5)), ("DT_DURMO", (1, -1, 13)), ("DT_DURYR", (1, -4)),
                                   ("DT_DURQU", (1, -3)), ("DT_DURBD", (1, -1, 7)), ("DT_DURH", (25, -1)), ("DT_DURM", (1500,)), ("DT_DURS", (-90000, 59))):
                    for c in cnts:
                        dur = {"durtyp": E[unit], "dv": c, "neg": 0} if unit in MULT else {"d.durtyp": E[unit], "d.dv": c, "neg": 0}
                        n += 1
                        try:
                            r = mk(fadd).run([dict(sx), dict(dur)])
                            got = r.get("sexy") if isinstance(r, dict) else r
                            via = mk(fconv).run([E["DT_SEXY"], mk(tu.func("dt_fixup")).run([mk(fadd).run([dict(src), dict(dur)])])])
                            want = via.get("sexy") if isinstance(via, dict) else via
                        except fold.Abort as ex:
                            got, want = "abort: %s" % ex, None
                        if unit in MULT or unit in ("DT_DURD", "DT_DURWK"):
                            want = exp + c * (MULT.get(unit) or (86400 if unit == "DT_DURD" else 604800))
                        if got != want:
                            lst = bad.setdefault("sexy", [])
                            if len(lst) < 300:
                                lst.append((d.isoformat(), c, "%+d %s on the epoch value %d gives %s" % (c, unit, exp, got), str(want)))
            # two additions in a row on the same value (what the first leaves in the carry slot must not count again)
            for (u1, c1) in (("DT_DURH", 2), ("DT_DURH", -2), ("DT_DURS", 3700), ("DT_DURS", -3700), ("DT_DURM", 1), ("DT_DURS", 86400)):
                for (u2, c2) in (("DT_DURH", 24), ("DT_DURH", -48), ("DT_DURS", 0), ("DT_DURS", 86400), ("DT_DURS", -86400), ("DT_DURM", 1440),
                                 ("DT_DURS", 1), ("DT_DURH", 1)):
                    n += 1
                    try:
                        r1 = mk(fadd).run([dict(src), {"durtyp": E[u1], "dv": c1, "neg": 0}])
                        r2 = mk(fadd).run([dict(r1), {"durtyp": E[u2], "dv": c2, "neg": 0}])
                        got = tuple(r2.get(k) for k in ("d.ymd.y", "d.ymd.m", "d.ymd.d", "t.hms.h", "t.hms.m", "t.hms.s"))
                    except fold.Abort as ex:
                        got = "abort: %s" % ex
                    e = d + datetime.timedelta(seconds=c1 * MULT[u1] + c2 * MULT[u2])
                    if got != (e.year, e.month, e.day, e.hour, e.minute, e.second):
                        lst = bad.setdefault("twice", [])
                        if len(lst) < 300:
                            lst.append((d.isoformat(), 0, "%+d x %d s then %+d x %d s gives %s" % (c1, MULT[u1], c2, MULT[u2], got), e.isoformat()))
            for unit in ("DT_DURS", "DT_DURM", "DT_DURH"):
                W = WIN[unit] if unit != "DT_DURS" or (every and (d.month, d.day, d.hour) in ((2, 28, 23), (12, 31, 23))) else 4000
                work = [(-W, W)]
                if (d.month, d.day, d.hour, d.second) in ((2, 28, 23, 59), (12, 31, 23, 59), (1, 1, 0, 0)):
                    # far counts: weeks, years, decades (as many seconds as the 32-bit count holds)
                    work += [(sg * c, sg * c) for c in FAR[unit] for sg in (1, -1)]
                while work:
                    a, b = work.pop()
                    if a > b:
                        continue
                    try:
                        tv = Aff(0, 1, (a, b)) if a < b else a
                        r = mk(fadd).run([dict(src), {"durtyp": E[unit], "dv": tv, "neg": 0}])
                    except fold.Split as sp:
                        work.append((a, sp.args[0] - 1))
                        work.append((sp.args[0], b))
                        continue
                    for t in range(a, b + 1):
                        n += 1
                        e = d + datetime.timedelta(seconds=t * MULT[unit])
                        got = tuple(_val(r.get(k), t) for k in ("d.ymd.y", "d.ymd.m", "d.ymd.d", "t.hms.h", "t.hms.m", "t.hms.s"))
                        if got != (e.year, e.month, e.day, e.hour, e.minute, e.second):
                            lst = bad.setdefault(unit, [])
                            if len(lst) < 300:
                                lst.append((d.isoformat(), t, str(got), e.isoformat()))
    return n, bad


def run_parallel(R, P, rule, every=False, jobs=12):
    import multiprocessing as mp
    tu = P.tu("libdut_a-dt-core.o")
    libs = [tu, P.tu("libdut_a-date-core.o"), P.tu("libdut_a-time-core.o")]
    for f in ("dt_dtadd", "dt_dtconv"):
        if tu.func(f) is None:
            raise AnalysisBroken("%s vanished" % f)
        R.saw(tu.func(f))

    def resolve(name):
        for l in libs:
            f = l.func(name)
            if f is not None and getattr(f, "body", None) is not None:
                return f
        return None
    E = {k: tu.enum_value(k) for k in ("DT_YMD", "DT_HMS", "DT_SEXY", "DT_DURS", "DT_DURM", "DT_DURH", "DT_DURD", "DT_DURWK", "DT_DURMO",
                                       "DT_DURYR", "DT_DURQU", "DT_DURBD")}
    if tu.func("dt_fixup") is None:
        raise AnalysisBroken("dt_fixup vanished")
    if None in E.values():
        raise AnalysisBroken("%s: tags not found (%s)" % (rule, E))
    _G.update(tu=tu, resolve=resolve, E=E, every=every)
    years = convdecode.class_years()
    chunks = [c for c in (years[i::jobs] for i in range(jobs)) if c]
    try:
        ctx = mp.get_context("fork")
        with ctx.Pool(len(chunks)) as pool:
            parts = pool.map(_worker, chunks)
    except NotConst as e:
        raise AnalysisBroken("%s: a routine left the foldable fragment (%s)" % (rule, e))
    n = 0
    bad = {}
    for k, b in parts:
        n += k
        for key, lst in b.items():
            bad.setdefault(key, []).extend(lst)
    UN = {"DT_DURS": "seconds", "DT_DURM": "minutes", "DT_DURH": "hours"}
    if "diff" in bad:
        lst = sorted(bad["diff"])
        R.finding(rule, tu.func("dt_dtdiff"), "difference in seconds, decoded", "%d pairs of grid points differ; first: %s, the epoch values differ "
                  "by %s" % (len(lst), lst[0][2], lst[0][3]))
    else:
        R.ob(rule, "difference in seconds: the difference of the epoch values for every pair of grid points within two years", True)
    if "sexy" in bad:
        lst = sorted(bad["sexy"])
        R.finding(rule, tu.func("dt_dtadd"), "adding to epoch values, decoded", "%s%d (instant, unit, count) points differ; first: at %s %s, the "
                  "date-time plus the same duration is at %s" % (">= " if len(lst) >= 300 else "", len(lst), lst[0][0], lst[0][2], lst[0][3]))
    else:
        R.ob(rule, "adding days, weeks, months, quarters, years, business days, hours, minutes and seconds to an instant held as an epoch "
             "value: the epoch value of the date-time plus the same duration", True)
    if "twice" in bad:
        lst = sorted(bad["twice"])
        R.finding(rule, tu.func("dt_dtadd"), "two additions in a row, decoded", "%s%d (start, first, second) points differ from the timeline; first: "
                  "%s %s, the timeline says %s" % (">= " if len(lst) >= 300 else "", len(lst), lst[0][0], lst[0][2], lst[0][3]))
    else:
        R.ob(rule, "two additions in a row on one value (the first across midnight or not, the second whole days, nothing, or a second): the "
             "sum later on the timeline", True)
    for key in ("epoch", "DT_DURS", "DT_DURM", "DT_DURH"):
        fn = tu.func("dt_dtconv" if key == "epoch" else "dt_dtadd")
        if key in bad:
            lst = sorted(bad[key])
            day, t, got, exp = lst[0]
            if key == "epoch":
                R.finding(rule, fn, "epoch conversion, decoded", "%d grid points differ; first: %s converts to %s, expected %s" % (len(lst), day, got, exp))
            else:
                R.finding(rule, fn, "adding %s, decoded with a symbolic count" % UN[key], "%s%d (start, count) points differ from the timeline; first: "
                          "%s %+d %s gives %s, the timeline says %s" % (">= " if len(lst) >= 300 else "", len(lst), day, t, UN[key], got, exp))
        elif key == "epoch":
            R.ob(rule, "epoch conversion: 86400 x days since 1970-01-01 + seconds of the day on every grid point, and back", True)
        else:
            R.ob(rule, "adding %s: for every grid start and every count in the window the result is that much later on the timeline" % UN[key], True)
    return n
