"""C18 — stream filters are transparent and independent of input chunking.

Independence of the read() schedule is a statement about schedules and is NOT decided (no static argument in reach).
Decided are the structural conditions without which lines are lost, split or corrupted:

 RF5-window   prchunk_fill: every access to the window stays inside the mapping -- the read() target, the stores that
              stamp line ends, the memcpy of the carried-over tail -- and the window invariants (bytes filled <= window
              size, lines recorded <= line table) are re-established at every exit (interval + difference-bound
              analysis with the window base as offset 0 and the invariants assumed at entry)
 RF-idx-loff  every index into the line-offset table is < MAX_NLINES (caller argument ranges)
 RF-noloss    prchunk_fill reports failure only with an empty window (end of input) or because one line does not fit the window
 RF11-read    a failed or empty read() never moves the fill cursor
 RF-pair      every byte class the reader overwrites in place ('\\n' -> NUL, '\\r' -> NUL) is restored or re-emitted by
              each stream consumer on its copy-through path
 RF11-sed     in sed mode each proc_line writes the unmatched prefix [line, sp), then the converted value, continues
              behind the match, and writes the rest of the line exactly once with its newline
"""
import re
from core import (AnalysisBroken, strip, kids, const_of, call_args, expr_text, walk, guards_of, norm_cond, CASTS, member_path)
import intervals
from intervals import Intervals

MAP_LEN = 16384 * 1024


def _macro(tu, name):
    m = tu.macro(name)
    return m["body"] if m else None


def check_window(P, R):
    rule = "RF5-window"
    tu = P.tu("prchunk.c")
    fn = tu.func("prchunk_fill")
    if fn is None:
        raise AnalysisBroken("prchunk_fill vanished")
    R.saw(fn)
    # constants of the window from the source (macros are visible through the folded literals at their use sites)
    maxl = None
    for g in tu.records:
        if g.get("name") == "prch_ctx_s":
            for f in g["fields"]:
                if f["n"] == "loff":
                    maxl = tu.types[f["t"]].get("arr")
    if maxl is None:
        raise AnalysisBroken("line table prch_ctx_s.loff vanished")
    # the mapping length: third argument of the mmap that initialises .buf
    ini = tu.func("init_prchunk")
    maplen = None
    if ini is not None:
        for x in ini.walk():
            if x.get("k") == "BinaryOperator" and x.get("op") == "=":
                l = strip(x["c"][0])
                r = strip(x["c"][1])
                if l is not None and l.get("k") == "MemberExpr" and l.get("n") == "buf" and r is not None and r.get("k") == "CallExpr" \
                        and r.get("callee") == "mmap":
                    maplen = const_of(call_args(r)[1])
    if maplen is None:
        raise AnalysisBroken("%s: mapping length of the window not found in init_prchunk" % rule)
    ctx = fn.params[0]
    bufk = (ctx["d"], "buf")
    ptrs = set()
    for x in fn.walk():
        if x.get("k") == "Var" and fn.tu.types[x["t"]].get("ptr") and "char" in fn.tu.types[x["t"]]["c"]:
            ptrs.add(x["d"])
    entry = {bufk: (0, 0), (ctx["d"], "bno"): (0, maplen), (ctx["d"], "off"): (0, maplen),
             (ctx["d"], "tot_lno"): (0, maxl), (ctx["d"], "cur_lno"): (0, maxl),
             ("rel", (ctx["d"], "off"), (ctx["d"], "bno")): 0}          # consumed offset <= bytes in the window
    iv = Intervals(fn, entry=entry, ptr_keys=ptrs, call_ranges={"read": (-1, None)})
    iv.zero_keys = {bufk}

    # read(fd, p, n) returns at most n
    def read_range(ivv, n, st):
        a = call_args(n)
        sz = ivv.eval(a[2], st) if len(a) > 2 else (None, None)
        return (-1, sz[1])
    iv.call_ranges["read"] = read_range
    iv.span_calls = {"memchr": (0, 2)}
    iv.run()
    nsite = 0

    def bounds(expr, st):
        """offset range of a pointer expression: intervals sharpened by the difference bounds against the window base"""
        r = iv.eval(expr, st)
        lin = iv._linear(expr)
        if lin is not None and lin[0] is not None:
            up = iv.rel(st, lin[0], bufk)          # x <= base + up
            dn = iv.rel(st, bufk, lin[0])          # base <= x + dn
            lo, hi = r
            if up is not None and (hi is None or up + lin[1] < hi):
                hi = up + lin[1]
            if dn is not None and (lo is None or -dn + lin[1] > lo):
                lo = -dn + lin[1]
            r = (lo, hi)
        return r

    def need_inside(node, ptr_expr, length, what):
        nonlocal nsite
        nsite += 1
        sts = iv.states_at(node)
        if not sts:
            return
        worst_lo, worst_hi = None, None
        ok = True
        for st in sts:
            r = bounds(ptr_expr, st)
            if r[0] is None or r[0] < 0 or r[1] is None or r[1] + length > maplen:
                ok = False
                worst_lo, worst_hi = r
        if ok:
            R.ob(rule, "%s within the window" % what, True, sample={"rule": rule, "access": what, "window": maplen})
        else:
            R.finding(rule, fn, what, "%s: offset range [%s, %s] + %d byte(s) is not proven inside the %d-byte window"
                      % (what, worst_lo, worst_hi, length, maplen), node)
    for x in fn.walk():
        k = x.get("k")
        if k == "CallExpr" and x.get("callee") == "read":
            a = call_args(x)
            n = const_of(a[2])
            if n is None:
                raise AnalysisBroken("%s: read size is not a constant" % rule)
            need_inside(x, a[1], n, "read(fd, %s, %d)" % (expr_text(strip(a[1])), n))
        elif k == "CallExpr" and x.get("callee") in ("memcpy", "memmove"):
            a = call_args(x)
            for which, pe in (("dst", a[0]), ("src", a[1])):
                nsite += 1
                ok = True
                for st in iv.states_at(x) or []:
                    p = bounds(pe, st)
                    ln = iv.eval(a[2], st)
                    if p[0] is not None and p[0] >= 0 and p[1] is not None and ln[1] is not None and p[1] + ln[1] <= maplen:
                        continue
                    # n == A - B exactly and the pointer is base + B: the range ends at A
                    kn = iv.key_of(intervals.strip_casts(a[2]))
                    df = st.get(("diff", kn)) if kn is not None else None
                    lp = iv._linear(pe)
                    if df is not None and lp is not None and lp[0] == df[1] and p[0] is not None and p[0] >= 0:
                        end = st.get(df[0])
                        if end is not None and end[1] is not None and end[1] + lp[1] + df[2] <= maplen:
                            continue
                    ok = False
                if ok:
                    R.ob(rule, "memcpy %s range within the window" % which, True)
                else:
                    R.finding(rule, fn, "memcpy %s" % which, "the carried-over tail is copied with a %s range not proven inside the window" % which, x)
        elif k == "BinaryOperator" and x.get("op") == "=":
            l = strip(x["c"][0])
            if l is not None and l.get("k") == "UnaryOperator" and l.get("op") == "*":
                need_inside(x, l["c"][0], 1, "store %s" % expr_text(l))
            elif l is not None and l.get("k") == "ArraySubscriptExpr":
                b = strip(l["c"][0])
                if b is not None and b.get("k") == "DeclRefExpr" and b["d"] in ptrs:
                    synth = {"k": "BinaryOperator", "op": "+", "c": [l["c"][0], l["c"][1]], "t": b.get("t")}
                    need_inside(x, synth, 1, "store %s" % expr_text(l))
        elif k == "ArraySubscriptExpr":
            # reads p[-1]
            b = strip(x["c"][0])
            c = const_of(x["c"][1])
            par = fn.parent(x)
            if b is not None and b.get("k") == "DeclRefExpr" and b["d"] in ptrs and c is not None and c < 0 and \
                    not (par is not None and par.get("k") == "BinaryOperator" and par.get("op") == "=" and strip(par["c"][0]) is x):
                synth = {"k": "BinaryOperator", "op": "+", "c": [x["c"][0], x["c"][1]], "t": b.get("t")}
                need_inside(x, synth, 1, "read %s" % expr_text(x))
    # invariants at the exits: ctx->bno <= window, ctx->off <= window, tot_lno <= table
    for r in fn.walk():
        if r.get("k") != "ReturnStmt":
            continue
        rv = const_of(kids(r)[0]) if kids(r) else None
        if rv is not None and rv < 0:
            continue     # failure: the context is not used any further by the callers
        for st in iv.states_at(r) or []:
            for key, lim, nm in (((ctx["d"], "bno"), maplen, "bytes in the window"), ((ctx["d"], "off"), maplen, "consumed offset"),
                                 ((ctx["d"], "tot_lno"), maxl, "lines recorded")):
                nsite += 1
                v = st.get(key)
                if v is not None and v[0] is not None and v[0] >= 0 and v[1] is not None and v[1] <= lim:
                    R.ob(rule, "exit invariant: %s <= %d" % (nm, lim), True)
                else:
                    R.finding(rule, fn, "exit invariant %s" % nm, "at a successful return %s has range %s, the invariant %s <= %d is not "
                              "re-established" % (nm, v, nm, lim), r)
    # ... and consumed offset <= bytes in the window
    for r in fn.walk():
        if r.get("k") != "ReturnStmt":
            continue
        rv = const_of(kids(r)[0]) if kids(r) else None
        if rv is not None and rv < 0:
            continue
        for st in iv.states_at(r) or []:
            nsite += 1
            c = iv.rel(st, (ctx["d"], "off"), (ctx["d"], "bno"))
            if c is not None and c <= 0:
                R.ob(rule, "exit invariant: consumed offset <= bytes in the window", True)
            else:
                R.finding(rule, fn, "exit invariant off <= bno", "at a successful return the consumed offset is not known to be <= the bytes "
                          "in the window (difference bound %s)" % c, r)
    R.floor(rule, "window accesses and invariants", nsite, 8)
    # ---- no line is lost: failure is reported only with an empty window, or because one line does not fit the window
    rule4 = "RF-noloss"
    nfail = 0
    for r in fn.walk():
        if r.get("k") != "ReturnStmt" or not kids(r):
            continue
        rv = const_of(kids(r)[0])
        if rv is None or rv >= 0:
            continue
        sts = iv.states_at(r) or []
        if not sts:
            R.ob(rule4, "failing return at line %s is unreachable under the window invariants" % r.get("l"), True)
            continue
        nfail += 1
        gs = [norm_cond(g["cond"], g["pol"]) for g in guards_of(fn, r) if "pol" in g]
        too_long = any(op == ">" and b == str(maplen) for op, a, b in gs)
        empty = all(st.get((ctx["d"], "bno")) == (0, 0) for st in sts)
        if empty:
            R.ob(rule4, "failure (end of input) reported only with an empty window", True)
        elif too_long:
            R.ob(rule4, "failure reported because a single line does not fit the window", True)
        else:
            worst = [st.get((ctx["d"], "bno")) for st in sts if st.get((ctx["d"], "bno")) != (0, 0)][0]
            R.finding(rule4, fn, "failing return with data", "prchunk_fill reports failure although the window may still hold bytes "
                      "(bytes in the window: %s): the lines in it are lost" % (worst,), r)
    R.floor(rule4, "failing returns", nfail, 2)
    # ---- line table indices in prchunk_fill: argument of set_loff / set_lftermd < MAX_NLINES
    rule2 = "RF-idx-loff"
    n2 = 0
    for x in fn.walk():
        if x.get("k") == "CallExpr" and x.get("callee") in ("set_loff", "set_lftermd", "get_loff", "lftermdp"):
            n2 += 1
            a = call_args(x)[1]
            ok = True
            worst = None
            for st in iv.states_at(x) or []:
                v = iv.eval(a, st)
                if v[0] is None or v[0] < 0 or v[1] is None or v[1] >= maxl:
                    ok = False
                    worst = v
            if ok:
                R.ob(rule2, "%s(ctx, %s) index < %d" % (x["callee"], expr_text(strip(a)), maxl), True)
            else:
                R.finding(rule2, fn, "%s index %s" % (x["callee"], expr_text(strip(a))),
                          "the line table has %d entries; the index passed here ranges over %s" % (maxl, worst), x)
    # accesses in pieces of prchunk_fill that were given a name of their own: the index is a member of the context the helper is
    # handed, ranged where the helper is called
    for x in fn.walk():
        if x.get("k") != "CallExpr" or x.get("callee") in ("set_loff", "set_lftermd", "get_loff", "lftermdp"):
            continue
        h = fn.tu.func(x.get("callee") or "")
        if h is None or getattr(h, "body", None) is None or h is fn:
            continue
        for y in h.walk():
            if y.get("k") == "CallExpr" and y.get("callee") in ("set_loff", "set_lftermd", "get_loff", "lftermdp") and len(call_args(y)) > 1:
                a = strip(call_args(y)[1])
                while a is not None and a.get("k") in CASTS and a.get("c"):
                    a = strip(a["c"][0])
                if a is None or a.get("k") != "MemberExpr" or not a.get("arrow"):
                    continue
                b0 = strip(a["c"][0])
                pj = [i for i, p_ in enumerate(h.params) if b0 is not None and b0.get("k") == "DeclRefExpr" and p_["d"] == b0.get("d")]
                if not pj or pj[0] >= len(call_args(x)):
                    continue
                if any(z.get("k") in ("BinaryOperator", "CompoundAssignOperator", "UnaryOperator") and z.get("op") in ("=", "+=", "-=", "++", "--")
                       and (strip(z["c"][0]) or {}).get("k") == "MemberExpr" and (strip(z["c"][0]) or {}).get("n") == a.get("n") for z in h.walk()):
                    continue
                n2 += 1
                synth = dict(a)
                synth["c"] = [call_args(x)[pj[0]]]
                synth.pop("i", None)
                ok, worst = True, None
                for st in iv.states_at(x) or []:
                    v = iv.eval(synth, st)
                    if v[0] is None or v[0] < 0 or v[1] is None or v[1] >= maxl:
                        ok, worst = False, v
                if ok:
                    R.ob(rule2, "%s -> %s(ctx, %s) index < %d" % (h.name, y["callee"], expr_text(a), maxl), True)
                else:
                    R.finding(rule2, fn, "%s -> %s index %s" % (h.name, y["callee"], expr_text(a)),
                              "the line table has %d entries; the index passed here ranges over %s" % (maxl, worst), x)
    R.floor(rule2, "line table accesses in prchunk_fill", n2, 3)
    # ---- the readers of the table: prchunk_getlineno bounds lno by the number of lines
    gl = tu.func("prchunk_getlineno")
    if gl is None:
        raise AnalysisBroken("prchunk_getlineno vanished")
    R.saw(gl)
    gs_ok = False
    for c in gl.calls("get_llen"):
        a = strip(call_args(c)[1])
        if a is not None and a.get("k") == "DeclRefExpr":
            gs = [norm_cond(g["cond"], g["pol"]) for g in guards_of(gl, c) if "pol" in g]
            if any(op == "<" and "prchunk_get_nlines" in b2 for op, a2, b2 in gs) and any(op == ">" and b2 == "0" for op, a2, b2 in gs):
                gs_ok = True
    if gs_ok:
        R.ob(rule2, "prchunk_getlineno reads line lno only for 0 < lno < nlines", True)
    else:
        R.finding(rule2, gl, "line number bound", "prchunk_getlineno must bound the line number by the number of lines recorded")
    # ---- read result
    rule3 = "RF11-read"
    ok = False
    for x in fn.walk():
        if x.get("k") == "CompoundAssignOperator" and x.get("op") == "+=":
            l = strip(x["c"][0])
            if l is not None and l.get("k") == "DeclRefExpr" and l["d"] in ptrs:
                og = [y for y in walk(x["c"][1])]
                r = strip(x["c"][1])
                if r is not None and r.get("k") == "DeclRefExpr":
                    gs = [norm_cond(g["cond"], g["pol"]) for g in guards_of(fn, x) if "pol" in g]
                    if any(op == ">" and b == "0" and (a == r["n"] or a.startswith("(%s = " % r["n"])) for op, a, b in gs):
                        ok = True
                        R.ob(rule3, "fill cursor advanced by the read count only if positive", True)
                    else:
                        R.finding(rule3, fn, "fill cursor += %s" % r["n"], "the fill cursor is moved by read()'s result without testing it to be positive "
                                  "(-1 on error)", x)
                        ok = None
                elif any(y.get("k") == "CallExpr" and y.get("callee") == "read" for y in walk(x["c"][1])):
                    R.finding(rule3, fn, "fill cursor += read()", "the fill cursor is moved by read()'s raw result (-1 on error)", x)
                    ok = None
    if ok is False:
        raise AnalysisBroken("%s: advance of the fill cursor not recognised" % rule3)


def check_pairing(P, R):
    rule = "RF-pair"
    tu = P.tu("prchunk.c")
    fn = tu.func("prchunk_fill")
    stamped = set()
    for x in fn.walk():
        if x.get("k") == "BinaryOperator" and x.get("op") == "=" and const_of(x["c"][1]) == 0:
            l = strip(x["c"][0])
            if l is None:
                continue
            gs = [norm_cond(g["cond"], g["pol"]) for g in guards_of(fn, x) if "pol" in g]
            if l.get("k") == "UnaryOperator" and l.get("op") == "*":
                stamped.add("\n")      # *p = '\0' at the memchr('\n') position
            elif l.get("k") == "ArraySubscriptExpr" and any(b == "13" for op, a, b in gs):
                stamped.add("\r")
    if "\n" not in stamped:
        raise AnalysisBroken("%s: the newline stamp of prchunk_fill was not recognised" % rule)
    for unit in ("dconv.c", "dadd.c", "dround.c"):
        t = P.tu(unit)
        f = t.func("proc_line")
        if f is None:
            raise AnalysisBroken("%s: proc_line of %s vanished" % (rule, unit))
        R.saw(f)
        restores = [x for x in f.walk() if x.get("k") == "BinaryOperator" and x.get("op") == "=" and const_of(x["c"][1]) == 10 and
                    strip(x["c"][0]).get("k") == "ArraySubscriptExpr"]
        if restores:
            R.ob(rule, "%s: newline restored in place (position and length: RF11-sed)" % unit, True)
        else:
            R.finding(rule, f, "newline restore [%s]" % unit, "the sed-mode copy-through path must put the newline back where the reader stamped it")
        if "\r" in stamped:
            cr = [x for x in f.walk() if x.get("k") == "BinaryOperator" and x.get("op") == "=" and const_of(x["c"][1]) == 13]
            if cr:
                R.ob(rule, "%s: carriage return restored" % unit, True)
            else:
                R.finding(rule, f, "carriage return restore [%s]" % unit,
                          "prchunk_fill overwrites the \\r of a CRLF line end with NUL; this consumer never restores it: CRLF input comes "
                          "out as LF in sed mode")


def check_pairing_all(P, R):
    """RF-pair (every consumer): whichever function takes a line from the reader (prchunk_getline) and puts the newline back in place
    to copy the line through must put the carriage return back as well -- the reader took both"""
    rule = "RF-pair"
    n = 0
    for f in P.all_functions():
        if getattr(f, "body", None) is None or f.name == "proc_line" or "/lib/" in f.file or f.file.startswith("lib/"):
            continue
        if not any(c.get("callee") == "prchunk_getline" for c in f.calls()):
            continue
        nl = [x for x in f.walk() if x.get("k") == "BinaryOperator" and x.get("op") == "=" and const_of(x["c"][1]) == 10 and
              strip(x["c"][0]) is not None and strip(x["c"][0]).get("k") == "ArraySubscriptExpr"]
        if not nl:
            continue
        n += 1
        R.saw(f)
        cr = [x for x in f.walk() if x.get("k") == "BinaryOperator" and x.get("op") == "=" and const_of(x["c"][1]) == 13]
        asks = any(c.get("callee") == "prchunk_crlfp" for c in f.calls())
        if cr and asks:
            R.ob(rule, "%s (%s): carriage return restored where the reader says it took one" % (f.name, f.file), True)
        else:
            R.finding(rule, f, "carriage return restore [%s]" % f.name, "this function takes lines from the reader and puts the newline back in "
                      "place to copy a line through, but never asks whether the reader took a carriage return as well "
                      "(prchunk_crlfp) and never puts one back: CRLF lines come out as LF", nl[0])
    return n


def _lin(e, env):
    """symbolic linear form of an integer/pointer expression: {symbol: coefficient}, constant under key 1"""
    e = strip(e)
    while e is not None and e.get("k") in CASTS and e.get("c"):
        e = strip(e["c"][0])
    if e is None:
        return {}
    c = const_of(e)
    if c is not None and e.get("k") != "DeclRefExpr":
        return {1: c}
    if e.get("k") == "DeclRefExpr" and e.get("dk") in ("var", "parm"):
        return dict(env.get(e["d"], {("v", e["d"]): 1}))
    if e.get("k") == "BinaryOperator" and e.get("op") in ("+", "-"):
        a, b = _lin(e["c"][0], env), _lin(e["c"][1], env)
        sg = 1 if e["op"] == "+" else -1
        out = dict(a)
        for k2, v in b.items():
            out[k2] = out.get(k2, 0) + sg * v
        return {k2: v for k2, v in out.items() if v}
    return {("e", e.get("i")): 1}


def _sym_block(f, blk_id, env=None):
    """run the assignments of one straight-line CFG block symbolically; yields (node, env-before) for calls and stores"""
    env = dict(env or {})
    cfg = f.cfg
    events = []
    for e in cfg.blocks[blk_id]["e"]:
        n = f.nodes.get(e)
        if n is None:
            continue
        k = n.get("k")
        if k == "CallExpr":
            events.append((n, dict(env)))
        elif k == "BinaryOperator" and n.get("op") == "=":
            l = strip(n["c"][0])
            if l is not None and l.get("k") == "DeclRefExpr":
                env[l["d"]] = _lin(n["c"][1], env)
            else:
                events.append((n, dict(env)))
        elif k == "CompoundAssignOperator" and n.get("op") in ("+=", "-="):
            l = strip(n["c"][0])
            if l is not None and l.get("k") == "DeclRefExpr":
                synth = {"k": "BinaryOperator", "op": n["op"][0], "c": [n["c"][0], n["c"][1]]}
                env[l["d"]] = _lin(synth, env)
        elif k == "UnaryOperator" and n.get("op") in ("++", "--"):
            l = strip(n["c"][0])
            if l is not None and l.get("k") == "DeclRefExpr":
                cur = dict(env.get(l["d"], {("v", l["d"]): 1}))
                cur[1] = cur.get(1, 0) + (1 if n["op"] == "++" else -1)
                env[l["d"]] = {k2: v for k2, v in cur.items() if v}
        elif k in ("DeclStmt", "Var"):
            for v in ([n] if k == "Var" else kids(n)):
                if v.get("k") == "Var" and kids(v):
                    env[v["d"]] = _lin(kids(v)[0], env)
    return events, env


def check_sed(P, R):
    rule = "RF11-sed"
    for unit in ("dconv.c", "dadd.c", "dround.c"):
        t = P.tu(unit)
        f = t.func("proc_line")
        R.saw(f)
        cfg = f.cfg
        if len(f.params) < 3:
            raise AnalysisBroken("%s: proc_line(ctx, line, llen) of %s changed its signature" % (rule, unit))
        LINE, LLEN = f.params[1]["d"], f.params[2]["d"]
        # the finder call names the match bounds: dt_io_find_strpdt2(line, llen, needles, &sp, &ep, zone)
        SP = EP = None
        for c in f.calls("dt_io_find_strpdt2"):
            a = call_args(c)
            vs = []
            for x in a[3:5]:
                x = strip(x)
                if x is not None and x.get("k") == "UnaryOperator" and x.get("op") == "&" and strip(x["c"][0]).get("k") == "DeclRefExpr":
                    vs.append(strip(x["c"][0])["d"])
            if len(vs) == 2:
                SP, EP = vs
            if _lin(a[0], {}) != {("v", LINE): 1} or _lin(a[1], {}) != {("v", LLEN): 1}:
                R.finding(rule, f, "finder arguments [%s]" % unit, "the finder must be run on the rest of the line (line, llen)", c)
        if SP is None:
            raise AnalysisBroken("%s: the finder call of proc_line in %s was not recognised" % (rule, unit))
        vL, vN, vS, vE = ("v", LINE), ("v", LLEN), ("v", SP), ("v", EP)
        n_match = n_tail = 0
        for b in cfg.blocks:
            events, env = _sym_block(f, b)
            writes = [(n, ev) for n, ev in events if n.get("k") == "CallExpr" and n.get("callee") == "__io_write"]
            convs = [(n, ev) for n, ev in events if n.get("k") == "CallExpr" and n.get("callee") == "dt_io_write"]
            stores = [(n, ev) for n, ev in events if n.get("k") == "BinaryOperator"]
            sedconv = [c for c, _ in convs if const_of(call_args(c)[-1]) == 0]
            for n, ev in writes:
                a = call_args(n)
                ptr, ln = _lin(a[0], ev), _lin(a[1], ev)
                if sedconv and not (ptr == {vL: 1} and ln == {vS: 1, vL: -1}):
                    n_match += 1
                    R.finding(rule, f, "prefix write [%s]" % unit, "next to the converted value the loop must write exactly the unmatched text "
                              "[line, sp); it writes %s bytes from %s" % (_show(f, ln), _show(f, ptr)), n)
                elif ptr == {vL: 1} and ln == {vS: 1, vL: -1}:
                    # the match step
                    n_match += 1
                    order = [x.get("i") for x, _ in events]
                    after = [c for c, _ in convs if order.index(c.get("i")) > order.index(n.get("i"))]
                    endl, endn = env.get(LINE, {vL: 1}), env.get(LLEN, {vN: 1})
                    ok = bool(after) and endl == {vE: 1} and endn == {vN: 1, vL: 1, vE: -1}
                    if ok:
                        R.ob(rule, "%s: prefix [line, sp), converted value, continue at ep with llen - (ep - line)" % unit, True)
                    else:
                        R.finding(rule, f, "match step [%s]" % unit, "after writing the prefix [line, sp) the loop must write the converted value and "
                                  "continue with line = ep, llen = llen - (ep - line); the block ends with line = %s, llen = %s, converted "
                                  "value written afterwards: %s" % (_show(f, endl), _show(f, endn), bool(after)), n)
                elif set(ptr) == {vL} or (ptr.get(vL) == 1 and ln.get(vN)):
                    # the rest of the line: the stamped position gets its newline back and is included
                    n_tail += 1
                    st_ok = False
                    for sn, sev in stores:
                        l = strip(sn["c"][0])
                        if l.get("k") == "ArraySubscriptExpr" and const_of(sn["c"][1]) == 10:
                            pos = _lin({"k": "BinaryOperator", "op": "+", "c": [l["c"][0], l["c"][1]]}, sev)
                            end = dict(ptr)
                            for k2, v in ln.items():
                                end[k2] = end.get(k2, 0) + v
                            end[1] = end.get(1, 0) - 1
                            end = {k2: v for k2, v in end.items() if v}
                            if pos == end:
                                st_ok = True
                    succ_loop = any(b in cfg.reachable_from(s2) for s2 in cfg.succs[b])
                    if st_ok and not succ_loop:
                        R.ob(rule, "%s: rest of the line written once with its newline, then the loop is left" % unit, True)
                    elif not st_ok:
                        R.finding(rule, f, "tail write [%s]" % unit, "the rest of the line must be written through the restored newline: a store of "
                                  "'\\n' at the last byte written", n)
                    else:
                        R.finding(rule, f, "tail write [%s]" % unit, "the rest of the line can be written more than once (the loop continues)", n)
        if n_match != 1 or n_tail != 1:
            raise AnalysisBroken("%s: sed-mode shape of proc_line in %s not recognised (%d match steps, %d tail writes)" % (rule, unit, n_match, n_tail))


def _show(f, lin):
    names = {x["d"]: x["n"] for x in f.walk() if x.get("k") == "Var"}
    names.update({p["d"]: p["n"] for p in f.params})
    out = []
    for k2, v in lin.items():
        nm = str(k2) if k2 == 1 else (names.get(k2[1], "?") if k2[0] == "v" else "<expr>")
        out.append(("%+d" % v) + ("" if k2 == 1 else "*" + nm))
    return " ".join(out) or "0"


def check_eof(P, R):
    """RF-eof: every caller reads a negative result of prchunk_fill as the end of the input and stops without a word; so the reader
    may answer -1 only where the input has ended (nothing more could be read) or the caller broke the protocol"""
    rule = "RF-eof"
    tu = P.tu("prchunk.c")
    fn = tu.func("prchunk_fill")
    if fn is None:
        raise AnalysisBroken("prchunk_fill vanished")
    R.saw(fn)
    nrd = None
    for x in fn.walk():
        if x.get("k") == "BinaryOperator" and x.get("op") == "=":
            r = strip(x["c"][1])
            if r is not None and r.get("k") == "CallExpr" and r.get("callee") == "read":
                nrd = strip(x["c"][0]).get("n")
    if nrd is None:
        raise AnalysisBroken("%s: the read() of prchunk_fill was not found" % rule)
    rets = [r for r in fn.walk() if r.get("k") == "ReturnStmt" and kids(r) and const_of(kids(r)[0]) is not None and const_of(kids(r)[0]) < 0]
    if not rets:
        raise AnalysisBroken("%s: prchunk_fill has no negative return any more" % rule)
    n = 0
    for r in rets:
        n += 1
        gs = [g for g in guards_of(fn, r) if "pol" in g]
        texts = [(expr_text(strip(g["cond"])), g["pol"]) for g in gs]
        ended = any(pol and re.search(r"\b%s\b\s*<=\s*0|!\s*%s\b" % (nrd, nrd), t) for t, pol in texts)
        # the caller's position against what the window holds, and nothing else (whichever way the chain of tests is written)
        mem = set(re.findall(r"ctx->(\w+)", " ".join(t for t, _ in texts)))
        misuse = bool(texts) and mem == {"bno", "off"} and all("bno" in t for t, _ in texts)
        if ended:
            R.ob(rule, "prchunk_fill line %s: -1 where nothing more could be read (`%s`)" % (r.get("l"), nrd), True)
        elif misuse:
            R.ob(rule, "prchunk_fill line %s: -1 where the caller has not consumed the window it was given (protocol breach, no input lost "
                 "by the reader)" % r.get("l"), True)
        else:
            names = sorted(set(re.findall(r"ctx->(\w+)", " ".join(t for t, _ in texts))))
            R.finding(rule, fn, "return -1 under tests of %s only" % ", ".join("ctx->" + x for x in names),
                      "the reader answers -1, which every caller takes for the end of the input, on a path where the input has not "
                      "ended: whatever follows in the input is dropped without a message and the tool exits 0", r)
    R.floor(rule, "negative returns of prchunk_fill", n, 2)


def check_shortread(P, R):
    """RF-shortread: read() may hand out fewer bytes than were asked for at any time (pipes, sockets, terminals) without the input
    having ended; the end of the input is a count of 0 and nothing else.  So the count that read() returned may be tested against 0
    only: a comparison with the size requested (or any other quantity) makes what the filters print depend on how the bytes happened
    to be cut into reads."""
    rule = "RF-shortread"
    tu = P.tu("prchunk.c")
    n = 0
    for fn in tu.funclist:
        if getattr(fn, "body", None) is None:
            continue
        cnt = set()
        for x in fn.walk():
            if x.get("k") == "BinaryOperator" and x.get("op") == "=":
                r = strip(x["c"][1])
                if r is not None and r.get("k") == "CallExpr" and r.get("callee") == "read":
                    l = strip(x["c"][0])
                    if l is not None and l.get("n"):
                        cnt.add(l.get("n"))
        if not cnt:
            continue
        R.saw(fn)
        for x in fn.walk():
            if x.get("k") == "BinaryOperator" and x.get("op") in ("<", "<=", ">", ">=", "==", "!="):
                a, b = strip(x["c"][0]), strip(x["c"][1])
                # an embedded assignment `(nrd = read(...)) > 0` counts as the count itself
                def is_cnt(e):
                    if e is None:
                        return False
                    if e.get("k") == "DeclRefExpr" and e.get("n") in cnt:
                        return True
                    if e.get("k") == "BinaryOperator" and e.get("op") == "=":
                        l = strip(e["c"][0])
                        return l is not None and l.get("n") in cnt
                    return False
                for me, other in ((a, b), (b, a)):
                    if is_cnt(me):
                        n += 1
                        c = const_of(other)
                        op = x.get("op") if me is a else {"<": ">", "<=": ">=", ">": "<", ">=": "<=", "==": "==", "!=": "!="}[x.get("op")]
                        same = c is not None and len({eval("v %s c" % op, {"v": v, "c": c}) for v in (1, 2, 3, 4095, 4096, 4097, 1 << 20, 1 << 30)}) == 1
                        if same:
                            R.ob(rule, "%s line %s: the count read() returned is tested for its sign / for 0 only: the test answers alike for every positive count (`%s`)" % (fn.name, x.get("l"), expr_text(x)), True)
                        else:
                            R.finding(rule, fn, "`%s`" % expr_text(x), "the count read() returned is compared with `%s`: a short read (a pipe or "
                                      "terminal handing out what it has) is taken for something it is not -- the end of the input is a count "
                                      "of 0 only, so the output depends on how the input was cut into reads" % expr_text(other), x)
    R.floor(rule, "tests of the count read() returned in prchunk.c", n, 3)


def check_counted(P, R):
    """RF-count: the reader hands out the lines below its line count.  Where prchunk_fill records the end of a line under the
    current count (`set_loff(ctx, ctx->tot_lno, ...)`) it takes the line's bytes for consumed, so the count must go up before
    control leaves that stretch of code -- a line recorded but not counted is never handed out, and nothing reads it again."""
    rule = "RF-count"
    tu = P.tu("prchunk.c")
    fn = tu.func("prchunk_fill")
    if fn is None:
        raise AnalysisBroken("prchunk_fill vanished")
    R.saw(fn)

    def bumps(node):
        for y in walk(node):
            if y.get("k") == "UnaryOperator" and y.get("op") in ("++", "pre++", "post++", "++pre", "++post") and "tot_lno" in expr_text(y):
                return True
            if y.get("k") == "UnaryOperator" and "++" in str(y.get("op")) and "tot_lno" in expr_text(y):
                return True
            if y.get("k") in ("CompoundAssignOperator", "BinaryOperator") and y.get("op") in ("+=",) and "tot_lno" in expr_text(y["c"][0]):
                return True
            if y.get("k") == "BinaryOperator" and y.get("op") == "=" and "tot_lno" in expr_text(y["c"][0]) and "tot_lno" in expr_text(y["c"][1]) and "+" in expr_text(y["c"][1]):
                return True
        return False
    n = 0
    for x in fn.walk():
        if x.get("k") != "CallExpr" or x.get("callee") != "set_loff":
            continue
        args = call_args(x)
        if len(args) < 2 or "tot_lno" not in expr_text(args[1]):
            continue
        n += 1
        # the statement holding the call, and the block it sits in
        st = x
        blk = fn.parent(st)
        while blk is not None and blk.get("k") != "CompoundStmt":
            st, blk = blk, fn.parent(blk)
        if blk is None:
            raise AnalysisBroken("%s: set_loff outside a block" % rule)
        sibs = [c for c in blk.get("c", []) if c is not None]
        i = [k for k, c in enumerate(sibs) if c is st][0]
        found = False
        for c in sibs[i + 1:]:
            if bumps(c):
                found = True
                break
            if c.get("k") in ("GotoStmt", "ReturnStmt", "BreakStmt", "ContinueStmt"):
                break
        if found:
            R.ob(rule, "prchunk_fill line %s: the line recorded under the count is counted before control leaves" % x.get("l"), True)
        else:
            R.finding(rule, fn, "set_loff at line %s" % x.get("l"), "a line end is recorded under the current line count and its bytes are taken "
                      "for consumed, but the count does not go up before control leaves this stretch: the line is never handed out "
                      "(prchunk_haslinep stops below the count) and never read again -- it is lost", x)
    R.floor(rule, "line ends recorded in prchunk_fill", n, 3)


def check_rewind(P, R):
    """RF-rewind: a fill starts a new window (the line count is zeroed on entry); the reader's position in the window must be zeroed
    on every path that hands the window out (returns 0), or the first lines of the new window are skipped"""
    rule = "RF-rewind"
    tu = P.tu("prchunk.c")
    fn = tu.func("prchunk_fill")
    if fn is None:
        raise AnalysisBroken("prchunk_fill vanished")
    ctx = fn.params[0]["d"]
    zeroed = []
    for x in fn.walk():
        if x.get("k") == "BinaryOperator" and x.get("op") == "=" and const_of(x["c"][1]) == 0:
            l = strip(x["c"][0])
            if l is not None and l.get("k") == "MemberExpr" and l.get("arrow") and l.get("c") and (strip(l["c"][0]) or {}).get("d") == ctx \
                    and tu.types[l["t"]].get("int"):
                zeroed.append((l.get("n"), x))
    cfg = fn.cfg

    def blk(n):
        cur = n
        while cur is not None:
            if "i" in cur:
                sb = cfg.stmt_block(cur["i"])
                if sb is not None:
                    return sb[0]
            cur = fn.parent(cur)
        return None
    rets = [r for r in fn.walk() if r.get("k") == "ReturnStmt" and kids(r) and const_of(kids(r)[0]) == 0]
    if not rets or len(zeroed) < 2:
        raise AnalysisBroken("%s: the zeroing of the line count / reader position or the successful return of prchunk_fill not recognised" % rule)
    # the count: zeroed before anything else (its block dominates every return); the position: the other one
    count = [z for z in zeroed if all(cfg.dominates(blk(z[1]), blk(r)) for r in fn.walk() if r.get("k") == "ReturnStmt")]
    other = set()       # members that also take other values here are bookkeeping of the fill itself (offsets), not the reader's position
    for x in fn.walk():
        if x.get("k") in ("BinaryOperator", "CompoundAssignOperator", "UnaryOperator") and x.get("op") in ("=", "+=", "-=", "++", "--"):
            l = strip(x["c"][0])
            if l is not None and l.get("k") == "MemberExpr" and l.get("arrow") and not (x.get("op") == "=" and const_of(x["c"][1]) == 0):
                other.add(l.get("n"))
    pos = [z for z in zeroed if (not count or z[0] != count[0][0]) and z[0] not in other]
    if not count or not pos:
        raise AnalysisBroken("%s: line count / reader position not told apart" % rule)
    for r in rets:
        if any(cfg.dominates(blk(z[1]), blk(r)) for z in pos):
            R.ob(rule, "prchunk_fill: the successful return (line %s) is reached only through `ctx->%s = 0`" % (r.get("l"), pos[0][0]), True)
        else:
            R.finding(rule, fn, "return 0 (line %s)" % r.get("l"), "a path hands the new window out without zeroing the reader's position `%s` "
                      "(zeroed at line %s only): the reader goes on from where it stood in the previous window and the first lines of this one "
                      "are lost" % (pos[0][0], pos[0][1].get("l")), r)


def check_terminated(P, R):
    """RF-term: the consumers parse NUL-terminated text, and the window is reused, so behind a line lies whatever an earlier window
    left there: every place where prchunk_fill records the end of a line also stores a NUL at that end (the store may be guarded by
    `end < size of the window` where the end can coincide with the end of the mapping)"""
    rule = "RF-term"
    tu = P.tu("prchunk.c")
    fn = tu.func("prchunk_fill")
    if fn is None:
        raise AnalysisBroken("prchunk_fill vanished")
    # prchunk_fill and the pieces of it that were given a name of their own (static helpers called from it only)
    fns = [fn] + [h for h in tu.funclist if getattr(h, "body", None) is not None and h is not fn and h.name != "set_loff"
                  and any(c.get("k") == "CallExpr" and c.get("callee") == h.name for c in fn.walk())
                  and not any(g is not fn and g is not h and getattr(g, "body", None) is not None
                              and any(c.get("k") == "CallExpr" and c.get("callee") == h.name for c in g.walk()) for g in tu.funclist)]
    sites = [(f_, c) for f_ in fns for c in f_.walk() if c.get("k") == "CallExpr" and c.get("callee") == "set_loff" and len(call_args(c)) >= 3]
    if len(sites) < 2:
        raise AnalysisBroken("%s: the places where prchunk_fill records a line end were not recognised (%d)" % (rule, len(sites)))
    for fn, c in sites:
        end = strip(call_args(c)[2])
        # the end is `P - buffer start`: the pointer P
        ptr = None
        if end is not None and end.get("k") == "BinaryOperator" and end.get("op") == "-":
            pe = strip(end["c"][0])
            while pe is not None and pe.get("k") in CASTS and pe.get("c"):
                pe = strip(pe["c"][0])
            if pe is not None and pe.get("k") == "DeclRefExpr":
                ptr = pe
        if ptr is None:
            raise AnalysisBroken("%s: the end offset of a recorded line is not `pointer - start` (%s)" % (rule, expr_text(end)[:40]))
        # a store `*P = 0` in the same compound statement (straight-line neighbourhood, possibly inside one guarding if)
        par = fn.parent(c)
        while par is not None and par.get("k") != "CompoundStmt":
            par = fn.parent(par)
        ok = False
        for x in (walk(par) if par is not None else []):
            if x.get("k") == "BinaryOperator" and x.get("op") == "=" and const_of(x["c"][1]) == 0:
                l = strip(x["c"][0])
                if l is not None and l.get("k") == "UnaryOperator" and l.get("op") == "*" and (strip(l["c"][0]) or {}).get("d") == ptr.get("d"):
                    ok = True
        site = "line end recorded at line %s (`%s`)" % (c.get("l"), expr_text(end)[:30])
        if ok:
            R.ob(rule, "prchunk_fill: %s is followed by a NUL stored there" % site, True)
        else:
            R.finding(rule, fn, site, "the end of a line is recorded but no NUL is stored at it: the line is handed out with whatever an earlier, "
                      "larger window left behind it, and the parsers read on into that", c)
    R.floor(rule, "recorded line ends", len(sites), 2)


def check(P, R, tier):
    import c10
    c10.check_finder_start(P, R, "RF4-start")
    check_rewind(P, R)
    check_eof(P, R)
    check_shortread(P, R)
    check_counted(P, R)
    check_terminated(P, R)
    check_window(P, R)
    check_pairing(P, R)
    npa = check_pairing_all(P, R)
    R.floor("RF-pair", "other consumers that copy lines through in place", npa, 1)
    check_sed(P, R)
    import finddecode
    nf = finddecode.run(R, P, "RF2-find")
    R.floor("RF2-find", "lines folded through the stream finder", nf, 10)


LEVEL = ("Decides the structural necessary conditions of transparency: all accesses of the chunking reader stay inside its "
         "window and line table and its invariants are re-established at every successful exit (interval / difference-bound "
         "abstract interpretation of prchunk_fill with the invariants assumed at entry: an inductive argument over fills), "
         "the read result is used safely, every in-place stamp has a restore in each consumer, and the sed-mode loops write "
         "prefix / value / rest exactly once in order.  Independence from the read() schedule is NOT decided.")
RULE = ("obligation = one window access or exit invariant, one line-table index, one stamp/restore pair per consumer, one "
        "sed-loop step per tool")
ASSUME = ["the window invariants hold at the first call (the context is zero-initialised static storage)",
          "read() returns at most the requested count", "schedule independence is out of reach of static analysis and not claimed"]
