"""C18 — stream filters are transparent and independent of input chunking.

Independence of the read() schedule is a statement about schedules and is NOT decided (no static argument in reach).
Decided are the structural conditions without which lines are lost, split or corrupted:

 RF5-window   prchunk_fill: every access to the window stays inside the mapping -- the read() target, the stores that
              stamp line ends, the memcpy of the carried-over tail -- and the window invariants (bytes filled <= window
              size, lines recorded <= line table) are re-established at every exit (interval + difference-bound
              analysis with the window base as offset 0 and the invariants assumed at entry)
 RF-idx-loff  every index into the line-offset table is < MAX_NLINES (caller argument ranges)
 RF11-read    a failed or empty read() never moves the fill cursor
 RF-pair      every byte class the reader overwrites in place ('\\n' -> NUL, '\\r' -> NUL) is restored or re-emitted by
              each stream consumer on its copy-through path
 RF11-sed     in sed mode each proc_line writes the unmatched prefix [line, sp), then the converted value, continues
              behind the match, and writes the rest of the line exactly once with its newline
"""
import re
from core import (AnalysisBroken, strip, kids, const_of, call_args, expr_text, walk, guards_of, norm_cond, CASTS, member_path)
import intervals
from intervals import Intervals

MAP_LEN = 16384 * 1024


def _macro(tu, name):
    m = tu.macro(name)
    return m["body"] if m else None


def check_window(P, R):
    rule = "RF5-window"
    tu = P.tu("prchunk.c")
    fn = tu.func("prchunk_fill")
    if fn is None:
        raise AnalysisBroken("prchunk_fill vanished")
    R.saw(fn)
    # constants of the window from the source (macros are visible through the folded literals at their use sites)
    maxl = None
    for g in tu.records:
        if g.get("name") == "prch_ctx_s":
            for f in g["fields"]:
                if f["n"] == "loff":
                    maxl = tu.types[f["t"]].get("arr")
    if maxl is None:
        raise AnalysisBroken("line table prch_ctx_s.loff vanished")
    # the mapping length: third argument of the mmap that initialises .buf
    ini = tu.func("init_prchunk")
    maplen = None
    if ini is not None:
        for x in ini.walk():
            if x.get("k") == "BinaryOperator" and x.get("op") == "=":
                l = strip(x["c"][0])
                r = strip(x["c"][1])
                if l is not None and l.get("k") == "MemberExpr" and l.get("n") == "buf" and r is not None and r.get("k") == "CallExpr" \
                        and r.get("callee") == "mmap":
                    maplen = const_of(call_args(r)[1])
    if maplen is None:
        raise AnalysisBroken("%s: mapping length of the window not found in init_prchunk" % rule)
    ctx = fn.params[0]
    bufk = (ctx["d"], "buf")
    ptrs = set()
    for x in fn.walk():
        if x.get("k") == "Var" and fn.tu.types[x["t"]].get("ptr") and "char" in fn.tu.types[x["t"]]["c"]:
            ptrs.add(x["d"])
    entry = {bufk: (0, 0), (ctx["d"], "bno"): (0, maplen), (ctx["d"], "off"): (0, maplen),
             (ctx["d"], "tot_lno"): (0, maxl), (ctx["d"], "cur_lno"): (0, maxl)}
    iv = Intervals(fn, entry=entry, ptr_keys=ptrs, call_ranges={"read": (-1, None)})
    iv.zero_keys = {bufk}

    # read(fd, p, n) returns at most n
    def read_range(ivv, n, st):
        a = call_args(n)
        sz = ivv.eval(a[2], st) if len(a) > 2 else (None, None)
        return (-1, sz[1])
    iv.call_ranges["read"] = read_range
    iv.span_calls = {"memchr": (0, 2)}
    iv.run()
    nsite = 0

    def bounds(expr, st):
        """offset range of a pointer expression: intervals sharpened by the difference bounds against the window base"""
        r = iv.eval(expr, st)
        lin = iv._linear(expr)
        if lin is not None and lin[0] is not None:
            up = iv.rel(st, lin[0], bufk)          # x <= base + up
            dn = iv.rel(st, bufk, lin[0])          # base <= x + dn
            lo, hi = r
            if up is not None and (hi is None or up + lin[1] < hi):
                hi = up + lin[1]
            if dn is not None and (lo is None or -dn + lin[1] > lo):
                lo = -dn + lin[1]
            r = (lo, hi)
        return r

    def need_inside(node, ptr_expr, length, what):
        nonlocal nsite
        nsite += 1
        sts = iv.states_at(node)
        if not sts:
            return
        worst_lo, worst_hi = None, None
        ok = True
        for st in sts:
            r = bounds(ptr_expr, st)
            if r[0] is None or r[0] < 0 or r[1] is None or r[1] + length > maplen:
                ok = False
                worst_lo, worst_hi = r
        if ok:
            R.ob(rule, "%s within the window" % what, True, sample={"rule": rule, "access": what, "window": maplen})
        else:
            R.finding(rule, fn, what, "%s: offset range [%s, %s] + %d byte(s) is not proven inside the %d-byte window"
                      % (what, worst_lo, worst_hi, length, maplen), node)
    for x in fn.walk():
        k = x.get("k")
        if k == "CallExpr" and x.get("callee") == "read":
            a = call_args(x)
            n = const_of(a[2])
            if n is None:
                raise AnalysisBroken("%s: read size is not a constant" % rule)
            need_inside(x, a[1], n, "read(fd, %s, %d)" % (expr_text(strip(a[1])), n))
        elif k == "CallExpr" and x.get("callee") in ("memcpy", "memmove"):
            a = call_args(x)
            for which, pe in (("dst", a[0]), ("src", a[1])):
                nsite += 1
                ok = True
                for st in iv.states_at(x) or []:
                    p = bounds(pe, st)
                    ln = iv.eval(a[2], st)
                    if p[0] is not None and p[0] >= 0 and p[1] is not None and ln[1] is not None and p[1] + ln[1] <= maplen:
                        continue
                    # n == A - B exactly and the pointer is base + B: the range ends at A
                    kn = iv.key_of(intervals.strip_casts(a[2]))
                    df = st.get(("diff", kn)) if kn is not None else None
                    lp = iv._linear(pe)
                    if df is not None and lp is not None and lp[0] == df[1] and p[0] is not None and p[0] >= 0:
                        end = st.get(df[0])
                        if end is not None and end[1] is not None and end[1] + lp[1] + df[2] <= maplen:
                            continue
                    ok = False
                if ok:
                    R.ob(rule, "memcpy %s range within the window" % which, True)
                else:
                    R.finding(rule, fn, "memcpy %s" % which, "the carried-over tail is copied with a %s range not proven inside the window" % which, x)
        elif k == "BinaryOperator" and x.get("op") == "=":
            l = strip(x["c"][0])
            if l is not None and l.get("k") == "UnaryOperator" and l.get("op") == "*":
                need_inside(x, l["c"][0], 1, "store %s" % expr_text(l))
            elif l is not None and l.get("k") == "ArraySubscriptExpr":
                b = strip(l["c"][0])
                if b is not None and b.get("k") == "DeclRefExpr" and b["d"] in ptrs:
                    synth = {"k": "BinaryOperator", "op": "+", "c": [l["c"][0], l["c"][1]], "t": b.get("t")}
                    need_inside(x, synth, 1, "store %s" % expr_text(l))
        elif k == "ArraySubscriptExpr":
            # reads p[-1]
            b = strip(x["c"][0])
            c = const_of(x["c"][1])
            par = fn.parent(x)
            if b is not None and b.get("k") == "DeclRefExpr" and b["d"] in ptrs and c is not None and c < 0 and \
                    not (par is not None and par.get("k") == "BinaryOperator" and par.get("op") == "=" and strip(par["c"][0]) is x):
                synth = {"k": "BinaryOperator", "op": "+", "c": [x["c"][0], x["c"][1]], "t": b.get("t")}
                need_inside(x, synth, 1, "read %s" % expr_text(x))
    # invariants at the exits: ctx->bno <= window, ctx->off <= window, tot_lno <= table
    for r in fn.walk():
        if r.get("k") != "ReturnStmt":
            continue
        rv = const_of(kids(r)[0]) if kids(r) else None
        if rv is not None and rv < 0:
            continue     # failure: the context is not used any further by the callers
        for st in iv.states_at(r) or []:
            for key, lim, nm in (((ctx["d"], "bno"), maplen, "bytes in the window"), ((ctx["d"], "off"), maplen, "consumed offset"),
                                 ((ctx["d"], "tot_lno"), maxl, "lines recorded")):
                nsite += 1
                v = st.get(key)
                if v is not None and v[0] is not None and v[0] >= 0 and v[1] is not None and v[1] <= lim:
                    R.ob(rule, "exit invariant: %s <= %d" % (nm, lim), True)
                else:
                    R.finding(rule, fn, "exit invariant %s" % nm, "at a successful return %s has range %s, the invariant %s <= %d is not "
                              "re-established" % (nm, v, nm, lim), r)
    R.floor(rule, "window accesses and invariants", nsite, 8)
    # ---- line table indices in prchunk_fill: argument of set_loff / set_lftermd < MAX_NLINES
    rule2 = "RF-idx-loff"
    n2 = 0
    for x in fn.walk():
        if x.get("k") == "CallExpr" and x.get("callee") in ("set_loff", "set_lftermd", "get_loff", "lftermdp"):
            n2 += 1
            a = call_args(x)[1]
            ok = True
            worst = None
            for st in iv.states_at(x) or []:
                v = iv.eval(a, st)
                if v[0] is None or v[0] < 0 or v[1] is None or v[1] >= maxl:
                    ok = False
                    worst = v
            if ok:
                R.ob(rule2, "%s(ctx, %s) index < %d" % (x["callee"], expr_text(strip(a)), maxl), True)
            else:
                R.finding(rule2, fn, "%s index %s" % (x["callee"], expr_text(strip(a))),
                          "the line table has %d entries; the index passed here ranges over %s" % (maxl, worst), x)
    R.floor(rule2, "line table accesses in prchunk_fill", n2, 3)
    # ---- the readers of the table: prchunk_getlineno bounds lno by the number of lines
    gl = tu.func("prchunk_getlineno")
    if gl is None:
        raise AnalysisBroken("prchunk_getlineno vanished")
    R.saw(gl)
    gs_ok = False
    for c in gl.calls("get_llen"):
        a = strip(call_args(c)[1])
        if a is not None and a.get("k") == "DeclRefExpr":
            gs = [norm_cond(g["cond"], g["pol"]) for g in guards_of(gl, c) if "pol" in g]
            if any(op == "<" and "prchunk_get_nlines" in b2 for op, a2, b2 in gs) and any(op == ">" and b2 == "0" for op, a2, b2 in gs):
                gs_ok = True
    if gs_ok:
        R.ob(rule2, "prchunk_getlineno reads line lno only for 0 < lno < nlines", True)
    else:
        R.finding(rule2, gl, "line number bound", "prchunk_getlineno must bound the line number by the number of lines recorded")
    # ---- read result
    rule3 = "RF11-read"
    ok = False
    for x in fn.walk():
        if x.get("k") == "CompoundAssignOperator" and x.get("op") == "+=":
            l = strip(x["c"][0])
            if l is not None and l.get("k") == "DeclRefExpr" and l["d"] in ptrs:
                og = [y for y in walk(x["c"][1])]
                r = strip(x["c"][1])
                if r is not None and r.get("k") == "DeclRefExpr":
                    gs = [norm_cond(g["cond"], g["pol"]) for g in guards_of(fn, x) if "pol" in g]
                    if any(op == ">" and b == "0" and (a == r["n"] or a.startswith("(%s = " % r["n"])) for op, a, b in gs):
                        ok = True
                        R.ob(rule3, "fill cursor advanced by the read count only if positive", True)
                    else:
                        R.finding(rule3, fn, "fill cursor += %s" % r["n"], "the fill cursor is moved by read()'s result without testing it to be positive "
                                  "(-1 on error)", x)
                        ok = None
                elif any(y.get("k") == "CallExpr" and y.get("callee") == "read" for y in walk(x["c"][1])):
                    R.finding(rule3, fn, "fill cursor += read()", "the fill cursor is moved by read()'s raw result (-1 on error)", x)
                    ok = None
    if ok is False:
        raise AnalysisBroken("%s: advance of the fill cursor not recognised" % rule3)


def check_pairing(P, R):
    rule = "RF-pair"
    tu = P.tu("prchunk.c")
    fn = tu.func("prchunk_fill")
    stamped = set()
    for x in fn.walk():
        if x.get("k") == "BinaryOperator" and x.get("op") == "=" and const_of(x["c"][1]) == 0:
            l = strip(x["c"][0])
            if l is None:
                continue
            gs = [norm_cond(g["cond"], g["pol"]) for g in guards_of(fn, x) if "pol" in g]
            if l.get("k") == "UnaryOperator" and l.get("op") == "*":
                stamped.add("\n")      # *p = '\0' at the memchr('\n') position
            elif l.get("k") == "ArraySubscriptExpr" and any(b == "13" for op, a, b in gs):
                stamped.add("\r")
    if "\n" not in stamped:
        raise AnalysisBroken("%s: the newline stamp of prchunk_fill was not recognised" % rule)
    for unit in ("dconv.c", "dadd.c", "dround.c"):
        t = P.tu(unit)
        f = t.func("proc_line")
        if f is None:
            raise AnalysisBroken("%s: proc_line of %s vanished" % (rule, unit))
        R.saw(f)
        restores = [x for x in f.walk() if x.get("k") == "BinaryOperator" and x.get("op") == "=" and const_of(x["c"][1]) == 10 and
                    strip(x["c"][0]).get("k") == "ArraySubscriptExpr"]
        writes = [c for c in f.calls("__io_write") if "llen + 1" in expr_text(strip(call_args(c)[1]))]
        if restores and writes:
            R.ob(rule, "%s: newline restored at line[llen] and llen + 1 bytes written" % unit, True)
        else:
            R.finding(rule, f, "newline restore [%s]" % unit, "the sed-mode copy-through path must put the newline back at line[llen] and write llen + 1 bytes")
        if "\r" in stamped:
            cr = [x for x in f.walk() if x.get("k") == "BinaryOperator" and x.get("op") == "=" and const_of(x["c"][1]) == 13]
            if cr:
                R.ob(rule, "%s: carriage return restored" % unit, True)
            else:
                R.finding(rule, f, "carriage return restore [%s]" % unit,
                          "prchunk_fill overwrites the \\r of a CRLF line end with NUL; this consumer never restores it: CRLF input comes "
                          "out as LF in sed mode")


def check_sed(P, R):
    rule = "RF11-sed"
    for unit in ("dconv.c", "dadd.c", "dround.c"):
        t = P.tu(unit)
        f = t.func("proc_line")
        R.saw(f)
        cfg = f.cfg
        pre = [c for c in f.calls("__io_write") if re.match(r"\(sp - line\)$", expr_text(strip(call_args(c)[1])))]
        conv = [c for c in f.calls("dt_io_write")]
        if len(pre) != 1:
            R.finding(rule, f, "prefix write [%s]" % unit, "the unmatched text before a match must be written as __io_write(line, sp - line) exactly once "
                      "per match; found %d such writes" % len(pre))
            continue
        pb = cfg.stmt_block(pre[0]["i"])[0]
        # a conversion write follows in the same straight-line region, then line = ep and llen -= (ep - line)
        after = [c for c in conv if cfg.stmt_block(c["i"])[0] == pb or cfg.stmt_block(c["i"])[0] in cfg.reachable_from(pb)]
        asg = {expr_text(strip(x["c"][0])): expr_text(strip(x["c"][1])) for x in f.walk()
               if x.get("k") in ("BinaryOperator", "CompoundAssignOperator") and x.get("op") in ("=", "-=") and
               cfg.stmt_block(x["i"]) and cfg.stmt_block(x["i"])[0] == pb}
        ok = bool(after) and asg.get("line") == "ep" and asg.get("llen") == "(ep - line)"
        # order inside the block: llen update must use the old line
        order = [expr_text(strip(x["c"][0])) for x in f.walk() if x.get("k") in ("BinaryOperator", "CompoundAssignOperator") and
                 x.get("op") in ("=", "-=") and cfg.stmt_block(x["i"]) and cfg.stmt_block(x["i"])[0] == pb and
                 expr_text(strip(x["c"][0])) in ("line", "llen")]
        if ok and order == ["llen", "line"]:
            R.ob(rule, "%s: prefix, converted value, continue behind the match" % unit, True)
        else:
            R.finding(rule, f, "match step [%s]" % unit, "after a match the loop must write the prefix and the converted value, shorten llen by (ep - line) "
                      "and then set line = ep; found assignments %s in order %s" % (asg, order), pre[0])
        # the tail is written on the no-more-match path only, once
        tails = [c for c in f.calls("__io_write") if "llen + 1" in expr_text(strip(call_args(c)[1]))]
        if len(tails) == 1:
            tb = cfg.stmt_block(tails[0]["i"])[0]
            loops_back = tb in set().union(*[cfg.reachable_from(s) for s in cfg.succs[tb]]) if cfg.succs[tb] else False
            if not loops_back:
                R.ob(rule, "%s: rest of the line written once, then the loop is left" % unit, True)
            else:
                R.finding(rule, f, "tail write [%s]" % unit, "the rest of the line can be written more than once", tails[0])
        else:
            R.finding(rule, f, "tail write [%s]" % unit, "the rest of the line must be written at exactly one place; found %d" % len(tails))


def check(P, R, tier):
    check_window(P, R)
    check_pairing(P, R)
    check_sed(P, R)


LEVEL = ("Decides the structural necessary conditions of transparency: all accesses of the chunking reader stay inside its "
         "window and line table and its invariants are re-established at every successful exit (interval / difference-bound "
         "abstract interpretation of prchunk_fill with the invariants assumed at entry: an inductive argument over fills), "
         "the read result is used safely, every in-place stamp has a restore in each consumer, and the sed-mode loops write "
         "prefix / value / rest exactly once in order.  Independence from the read() schedule is NOT decided.")
RULE = ("obligation = one window access or exit invariant, one line-table index, one stamp/restore pair per consumer, one "
        "sed-loop step per tool")
ASSUME = ["the window invariants hold at the first call (the context is zero-initialised static storage)",
          "read() returns at most the requested count", "schedule independence is out of reach of static analysis and not claimed"]
