"""Headroom analysis for cursors over NUL-terminated text (RF4).

For every `const char *` variable that a function advances, the analysis tracks
    k    = number of bytes starting at the cursor that are known to be non-NUL on every path, and
    past = whether the cursor may already lie beyond the string's terminator
           (0 no; 1 exactly one byte of unknown content was just skipped -- a later non-NUL test of p[-1], the idiom
            `if ((c = *p++) ...)`, clears it; 2 may be beyond).
Stepping over an unknown byte is not yet an error (the cursor may be dead afterwards); *using* such a cursor is:
dereferencing it, advancing it again, returning it or storing it through an out-parameter.

Forward dataflow on clang's CFG (all sub-expressions are elements), join = (min k, max past), edge refinement from
atomic conditions, `&&`/`||` in value context, and switch labels.
"""
from core import (strip, kids, const_of, call_args, expr_text, walk, effective_cond, AnalysisBroken, CASTS, ceval, NotConst,
                  local_defs)

KMAX = 6
NONNUL_PREDICATES = {"isdigit", "isalpha", "isalnum", "isspace", "isupper", "islower", "ispunct", "isxdigit", "isprint", "isgraph"}


def is_text_cursor_type(tu, tid):
    t = tu.types[tid]
    c = t["c"]
    return bool(t.get("ptr")) and c.startswith("const char *") and "**" not in c


def _var(n):
    n = strip(n)
    if n is not None and n.get("k") == "DeclRefExpr" and n.get("dk") in ("var", "parm"):
        return n
    return None


def deref_of(n):
    """`*p`, `p[i]`, `*++p`, `*p++`, `*(p + i)`, `(x = *p++)` -> (decl, offset, post_advance, name) or None.
    offset is relative to the cursor value *after* pre-increments and *before* post-increments took effect."""
    n = strip(n)
    if n is None:
        return None
    if n.get("k") == "BinaryOperator" and n.get("op") == "=":
        return deref_of(n["c"][1])
    if n.get("k") == "UnaryOperator" and n.get("op") == "*":
        x = strip(n["c"][0])
        if x is None:
            return None
        v = _var(x)
        if v is not None:
            return (v["d"], 0, 0, v["n"])
        if x.get("k") == "UnaryOperator" and x.get("op") in ("++", "--"):
            v = _var(x["c"][0])
            if v is not None:
                d = 1 if x["op"] == "++" else -1
                return (v["d"], 0, d if x.get("postfix") else 0, v["n"])
        if x.get("k") == "BinaryOperator" and x.get("op") in ("+", "-"):
            v, c = _var(x["c"][0]), const_of(x["c"][1])
            if v is not None and c is not None:
                return (v["d"], c if x["op"] == "+" else -c, 0, v["n"])
        return None
    if n.get("k") == "ArraySubscriptExpr":
        v, c = _var(n["c"][0]), const_of(n["c"][1])
        if v is not None and c is not None:
            return (v["d"], c, 0, v["n"])
    return None


class Result:
    def __init__(self):
        self.findings = []     # (kind, node, var, message)
        self.sites = 0


class InputCursors:
    def __init__(self, fn, entry_k=None, callee_pre=None):
        self.fn = fn
        self.tu = fn.tu
        self.entry_k = entry_k or {}
        self.callee_pre = callee_pre or {}      # callee name -> {arg index: required k}
        self.res = Result()
        self.tracked = self._tracked()
        # bases: const char * variables/parameters that never move; cursors initialised from them share their text
        self.bases = {}
        for n in fn.walk():
            if n.get("k") == "DeclRefExpr" and n.get("dk") in ("var", "parm") and n["d"] not in self.tracked \
                    and n.get("t") is not None and is_text_cursor_type(self.tu, n["t"]):
                self.bases[n["d"]] = n["n"]
        self.tracked_or_base = set(self.tracked) | set(self.bases)
        self.incl_nul_sets = any(c.get("callee") == "set_up_table" and const_of(call_args(c)[1]) not in (None, 0)
                                 for c in fn.calls("set_up_table")) and \
            not any(c.get("callee") == "set_up_table" and const_of(call_args(c)[1]) in (None, 0) for c in fn.calls("set_up_table"))
        self.report = False
        # the status variable: `return <var>`; a negative constant stored in it means failure, on which callers discard
        # the end pointer (checked at the call sites by the caller-side rule)
        self.status = None
        for r in fn.walk():
            if r.get("k") == "ReturnStmt" and kids(r):
                v = _var(kids(r)[0])
                if v is not None and self.tu.types[v["t"]].get("int"):
                    self.status = v["d"]

    def _tracked(self):
        tr = {}
        for n in self.fn.walk():
            v = None
            if n.get("k") == "UnaryOperator" and n.get("op") in ("++", "--"):
                v = _var(n["c"][0])
            elif n.get("k") == "CompoundAssignOperator" and n.get("op") in ("+=", "-="):
                v = _var(n["c"][0])
            if v is not None and is_text_cursor_type(self.tu, v["t"]):
                tr[v["d"]] = v["n"]
            # cursors repositioned by a callee through their address (strtoi_lim(sp, &sp, ...))
            if n.get("k") == "UnaryOperator" and n.get("op") == "&":
                v = _var(n["c"][0])
                if v is not None and is_text_cursor_type(self.tu, v["t"]):
                    tr[v["d"]] = v["n"]
        return tr

    def _get(self, st, d):
        return st.get(d, (0, 0))

    # must-alias: st[("alias", v)] = (base decl, delta) meaning v == base + delta (base never moves in this function)
    def _alias_of(self, st, d):
        a = st.get(("alias", d))
        if a is not None:
            return a
        if d in self.bases:
            return (d, 0)
        return None

    def _learn(self, st, decl, roff):
        """byte at decl + roff is known non-NUL: update decl and every cursor aliased to the same text"""
        targets = [(decl, roff)]
        a = self._alias_of(st, decl)
        if a is not None:
            base, delta = a
            for key, val in list(st.items()):
                if isinstance(key, tuple) and key[0] == "alias" and val[0] == base and key[1] != decl:
                    targets.append((key[1], delta + roff - val[1]))
            if base != decl and base in self.tracked_or_base:
                targets.append((base, delta + roff))
        for d, ro in targets:
            k0, past = self._get(st, d)
            if ro == -1 and past == 1:
                st[d] = (0, 0)
            elif ro >= 0 and not past and k0 >= ro:
                st[d] = (min(KMAX, max(k0, ro + 1)), 0)

    def _find(self, kind, node, name, msg):
        if self.report:
            self.res.findings.append((kind, node, name, msg))

    def _use(self, st, d, node, name, what):
        """the cursor value is used (dereferenced at offset >= 0, advanced, handed out)"""
        k, past = self._get(st, d)
        if past:
            self._find("past-" + what, node, name,
                       "cursor `%s` is %s although it may have stepped over the string terminator (a byte was skipped "
                       "without a non-NUL test)" % (name, {"read": "dereferenced", "advance": "advanced again", "escape": "handed out as the new position"}[what]))

    def _advance(self, st, d, n, node, name):
        a = st.get(("alias", d))
        if a is not None:
            st[("alias", d)] = (a[0], a[1] + n)
        k, past = self._get(st, d)
        if n > 0:
            if self.report:
                self.res.sites += 1
            self._use(st, d, node, name, "advance")
            if k >= n:
                st[d] = (k - n, past)
            else:
                st[d] = (0, 1 if (n - k == 1 and not past) else 2)
        elif n < 0:
            if past == 1 and n == -1:
                st[d] = (0, 0)
            else:
                st[d] = (min(KMAX, k - n) if not past else 0, past)

    def _set_alias(self, st, d, e):
        e = strip(e)
        delta = 0
        if e is not None and e.get("k") == "BinaryOperator" and e.get("op") in ("+", "-") and const_of(e["c"][1]) is not None:
            delta = const_of(e["c"][1]) * (1 if e["op"] == "+" else -1)
            e = strip(e["c"][0])
        v = _var(e)
        st.pop(("alias", d), None)
        if v is not None:
            a = self._alias_of(st, v["d"])
            if a is not None:
                st[("alias", d)] = (a[0], a[1] + delta)

    def _shifted(self, st, d, n):
        """state of the value p + n (without modifying p)"""
        tmp = {d: self._get(st, d)}
        rep, self.report = self.report, False
        self._advance(tmp, d, n, None, "")
        self.report = rep
        return tmp[d]

    def _value_state(self, e, st):
        """(k, past, name) of a pointer-valued expression over tracked cursors, or None if it is a fresh pointer"""
        e = strip(e)
        if e is None:
            return None
        v = _var(e)
        if v is not None:
            if v["d"] in self.tracked:
                k, p = self._get(st, v["d"])
                return (k, p, v["n"])
            if v["d"] in self.bases:
                k, p = self._get(st, v["d"])
                if v.get("dk") == "parm" and v["n"] in self.entry_k:
                    k = max(k, self.entry_k[v["n"]])
                return (k, p, v["n"])
            return None
        if e.get("k") == "BinaryOperator" and e.get("op") in ("+", "-"):
            b = self._value_state(e["c"][0], st)
            c = const_of(e["c"][1])
            if b is not None and c is not None:
                n = c if e["op"] == "+" else -c
                tmp = {0: (b[0], b[1])}
                rep, self.report = self.report, False
                self._advance(tmp, 0, n, None, b[2])
                self.report = rep
                return (tmp[0][0], tmp[0][1], b[2])
            if b is not None:
                # p + (*p == c) : 0 or 1 depending on a test of the byte itself
                r = strip(e["c"][1])
                if r is not None and r.get("k") == "BinaryOperator" and r.get("op") in ("==",) and deref_of(r["c"][0]) is not None \
                        and const_of(r["c"][1]) not in (None, 0):
                    return (0, b[1], b[2])
                return None   # base + runtime offset: a new position under the caller's contract (lengths, offsets)
        if e.get("k") == "UnaryOperator" and e.get("op") in ("++", "--"):
            v = _var(e["c"][0])
            if v is not None and v["d"] in self.tracked:
                k, p = self._get(st, v["d"])   # the inc/dec element itself has been applied already (it precedes its parent)
                if e.get("postfix"):
                    # value is the old cursor: one step back from the current one
                    return (min(KMAX, k + 1) if not p else 0, 0 if p == 1 else p, v["n"])
                return (k, p, v["n"])
        if e.get("k") == "CallExpr" and e.get("callee") in ("memchr", "strchr", "strrchr", "__builtin_strchr", "__builtin_memchr"):
            c = const_of(call_args(e)[1]) if len(call_args(e)) > 1 else None
            if c not in (None, 0):
                return (1, 0, e["callee"])     # points at the byte searched for (NULL is tested by the caller)
            return None
        if e.get("k") == "ConditionalOperator":
            a, b = self._value_state(e["c"][1], st), self._value_state(e["c"][2], st)
            if a is None and b is None:
                return None
            a = a or (0, 0, "")
            b = b or (0, 0, "")
            return (min(a[0], b[0]), max(a[1], b[1]), a[2] or b[2])
        return None

    def _effects(self, n, st):
        k = n.get("k")
        if k == "UnaryOperator" and n.get("op") in ("++", "--"):
            v = _var(n["c"][0])
            if v is not None and v["d"] in self.tracked:
                self._advance(st, v["d"], 1 if n["op"] == "++" else -1, n, v["n"])
        elif k == "CompoundAssignOperator" and n.get("op") in ("+=", "-="):
            v = _var(n["c"][0])
            if v is not None and v["d"] in self.tracked:
                c = const_of(n["c"][1])
                if c is not None:
                    self._advance(st, v["d"], c if n["op"] == "+=" else -c, n, v["n"])
                else:
                    r = strip(n["c"][1])
                    # p += (*p == c): steps over a byte just tested to be c (non-NUL) or not at all
                    ok = n["op"] == "+=" and self._is_byte_test(r, v["d"], st)
                    if self.report:
                        self.res.sites += 1
                    self._use(st, v["d"], n, v["n"], "advance")
                    if ok:
                        st[v["d"]] = (0, self._get(st, v["d"])[1])
                    else:
                        if self.report:
                            self._find("advance-var", n, v["n"],
                                       "cursor `%s` is advanced by the non-constant amount `%s` that is not derived from a test of "
                                       "the bytes skipped" % (v["n"], expr_text(r)))
                        st[v["d"]] = (0, 2)
        elif k == "BinaryOperator" and n.get("op") == "=" and self.status is not None and _var(n["c"][0]) is not None \
                and _var(n["c"][0])["d"] == self.status:
            c = const_of(n["c"][1])
            st["#failed"] = 1 if (c is not None and c < 0) else 0
        elif k == "BinaryOperator" and n.get("op") == "=":
            l = strip(n["c"][0])
            lv = _var(l)
            if lv is not None and lv["d"] in self.tracked:
                vs = self._value_state(n["c"][1], st)
                st[lv["d"]] = (vs[0], vs[1]) if vs is not None else (0, 0)
                self._set_alias(st, lv["d"], n["c"][1])
            elif lv is not None and lv["d"] in self.bases:
                vs = self._value_state(n["c"][1], st)
                st[lv["d"]] = (vs[0], vs[1]) if vs is not None else (0, 0)
                self._set_alias(st, lv["d"], n["c"][1])
            elif l is not None and l.get("k") != "DeclRefExpr":
                self._escape(n["c"][1], st, n)
        elif k in ("DeclStmt", "Var"):
            for v in ([n] if k == "Var" else kids(n)):
                if v.get("k") == "Var" and self.status is not None and v["d"] == self.status and kids(v):
                    c = const_of(kids(v)[0])
                    st["#failed"] = 1 if (c is not None and c < 0) else 0
                if v.get("k") == "Var" and v["d"] in self.bases and kids(v):
                    vs = self._value_state(kids(v)[0], st)
                    st[v["d"]] = (vs[0], vs[1]) if vs is not None else (0, 0)
                    self._set_alias(st, v["d"], kids(v)[0])
                if v.get("k") == "Var" and v["d"] in self.tracked and kids(v):
                    vs = self._value_state(kids(v)[0], st)
                    st[v["d"]] = (vs[0], vs[1]) if vs is not None else (0, 0)
                    self._set_alias(st, v["d"], kids(v)[0])
        elif k == "ReturnStmt" and kids(n):
            self._escape(kids(n)[0], st, n)
        elif k == "CallExpr":
            pre = self.callee_pre.get(n.get("callee") or "", {})
            for i, a in enumerate(call_args(n)):
                x = strip(a)
                if x is None:
                    continue
                if x.get("k") == "UnaryOperator" and x.get("op") == "&":
                    v = _var(x["c"][0])
                    if v is not None and v["d"] in self.tracked:
                        st[v["d"]] = (0, 0)      # callee repositions the cursor under its own (separately analysed) contract
                        st.pop(("alias", v["d"]), None)
                    continue
                vs = self._value_state(x, st)
                if vs is not None and is_text_cursor_type(self.tu, x["t"]) if x.get("t") is not None else False:
                    if self.report:
                        self.res.sites += 1
                    if vs[1]:
                        self._find("past-escape", n, vs[2], "`%s` is passed to %s() although the cursor may have stepped over the "
                                   "string terminator" % (expr_text(x), n.get("callee") or "?"))
                    elif i in pre and vs[0] < pre[i]:
                        self._find("precondition", n, vs[2], "%s() expects its text argument to point at a non-NUL byte; `%s` is not "
                                   "known to" % (n["callee"], expr_text(x)))
        d = deref_of(n) if k in ("UnaryOperator", "ArraySubscriptExpr") else None
        if d is not None and d[0] in self.tracked:
            decl, off, post, name = d
            kk, past = self._get(st, decl)
            # *p++ : the element for p++ precedes the dereference; the byte read is p[-1] in terms of the current state
            roff = off - post
            if self.report:
                self.res.sites += 1
            if roff >= 0:
                if past:
                    self._use(st, decl, n, name, "read")
                elif roff > 0 and kk < roff:
                    self._find("read", n, name, "`%s` is read although only %d byte(s) from the cursor are known to be non-NUL: the "
                               "read can lie beyond the terminator" % (expr_text(n), kk))
            elif roff == -1 and past == 2:
                self._use(st, decl, n, name, "read")

    def _is_byte_test(self, r, d, st, depth=0):
        """amount is 0/1 and 1 only if the byte at the cursor was tested equal to a non-NUL constant"""
        r = strip(r)
        if r is None or depth > 3:
            return False
        if r.get("k") == "BinaryOperator" and r.get("op") == "||":
            return self._is_byte_test(r["c"][0], d, st, depth + 1) and self._is_byte_test(r["c"][1], d, st, depth + 1)
        if r.get("k") == "BinaryOperator" and r.get("op") == "==":
            x = deref_of(r["c"][0])
            if x is not None and x[1] == 0 and x[2] == 0 and const_of(r["c"][1]) not in (None, 0):
                if x[0] == d:
                    return True
                a, b = self._alias_of(st, x[0]), self._alias_of(st, d)
                return a is not None and a == b
            return False
        v = _var(r)
        if v is not None:
            from core import local_defs
            defs = local_defs(self.fn).get(v["d"], [])
            # a flag variable: every definition is such a test made at the same text position
            return bool(defs) and all(self._is_byte_test(x, d, st, depth + 1) or const_of(x) == 0 for x in defs)
        return False

    def _escape(self, e, st, node):
        es = strip(e)
        if es is None or es.get("t") is None or not self.tu.types[es["t"]].get("ptr"):
            return
        vs = self._value_state(e, st)
        if vs is None:
            return
        if self.report:
            self.res.sites += 1
        if vs[1] and st.get("#failed") and node.get("k") != "CallExpr":
            return      # the function reports failure on this path: callers discard the position
        if vs[1]:
            self._find("past-escape", node, vs[2],
                       "`%s` is handed out as the new position although it may lie beyond the string terminator (a byte was skipped "
                       "without a non-NUL test): the caller continues reading past the end of the text" % expr_text(strip(e)))

    # ---- edge refinement
    def _refine(self, cond, pol, st):
        c = strip(cond)
        while c is not None and c.get("k") == "UnaryOperator" and c.get("op") == "!":
            pol = not pol
            c = strip(c["c"][0])
        if c is None:
            return
        k = c.get("k")
        if k == "BinaryOperator" and c.get("op") == ",":
            self._refine(c["c"][1], pol, st)
            return
        if k == "BinaryOperator" and c.get("op") in ("&&", "||"):
            if (c["op"] == "&&" and pol) or (c["op"] == "||" and not pol):
                self._refine(c["c"][0], pol, st)
                self._refine(c["c"][1], pol, st)
            return
        tgt = None
        if k == "BinaryOperator" and c.get("op") in ("==", "!=") and deref_of(c["c"][0]) is not None and deref_of(c["c"][1]) is not None:
            # *a == *b: if one byte is known to be non-NUL so is the other
            if (c["op"] == "==") == pol:
                da, db = deref_of(c["c"][0]), deref_of(c["c"][1])
                for x, y in ((da, db), (db, da)):
                    if x[0] in self.tracked_or_base and y[0] in self.tracked_or_base:
                        kx, px = self._get(st, x[0])
                        if not px and kx >= (x[1] - x[2]) + 1:
                            self._learn(st, y[0], y[1] - y[2])
            return
        if k == "BinaryOperator" and c.get("op") in ("==", "!="):
            for a, b in ((c["c"][0], c["c"][1]), (c["c"][1], c["c"][0])):
                d = deref_of(a)
                cv = const_of(b)
                if d is not None and cv is not None:
                    eq = (c["op"] == "==") == pol
                    if (eq and cv != 0) or (not eq and cv == 0):
                        tgt = d
                    break
        elif k == "BinaryOperator" and c.get("op") in ("<", "<=", ">", ">="):
            l, r = strip(c["c"][0]), strip(c["c"][1])
            op = c["op"]
            if not pol:
                op = {"<": ">=", "<=": ">", ">": "<=", ">=": "<"}[op]
            # bounded text: p < end (two pointers) means the byte at p belongs to the text
            lv, rv = _var(l), _var(r)
            if lv is not None and rv is not None and self.tu.types[lv["t"]].get("ptr") and self.tu.types[rv["t"]].get("ptr"):
                if op == "<" and lv["d"] in self.tracked_or_base:
                    self._learn(st, lv["d"], 0)
                elif op == ">" and rv["d"] in self.tracked_or_base:
                    self._learn(st, rv["d"], 0)
                return
            # assignment wrapper: (xc = (unsigned char)(*p++ ^ '0')) >= 10
            if l is not None and l.get("k") == "BinaryOperator" and l.get("op") == "=":
                l = strip(l["c"][1])
            if l is not None and l.get("k") == "BinaryOperator" and l.get("op") == "^":
                d = deref_of(l["c"][0])
                x, lim = const_of(l["c"][1]), const_of(r)
                if d is not None and x is not None and lim is not None and op in ("<", "<=") and x >= lim + (1 if op == "<=" else 0):
                    tgt = d      # (byte ^ x) < lim  with x >= lim: the byte cannot be 0
            else:
                d = deref_of(l)
                lim = const_of(r)
                if d is not None and lim is not None:
                    if (op == ">" and lim >= 0) or (op == ">=" and lim > 0):
                        tgt = d
        elif k == "CallExpr" and c.get("callee") in NONNUL_PREDICATES and pol:
            tgt = deref_of(call_args(c)[0])
        elif k == "CallExpr" and c.get("callee") == "in_current_set" and not pol and self.incl_nul_sets:
            # the set was built with include_NUL = true: a byte outside the set is not the terminator
            tgt = deref_of(call_args(c)[0])
        else:
            d = deref_of(c)
            if d is not None and pol:
                tgt = d
        if tgt is not None and tgt[0] in self.tracked_or_base:
            decl, off, post, name = tgt
            self._learn(st, decl, off - post)
        elif tgt is None:
            for d in self._nonnul_by_folding(c, pol):
                if d[0] in self.tracked_or_base:
                    self._learn(st, d[0], d[1] - d[2])

    def _nonnul_by_folding(self, c, pol, depth=0):
        """bytes of the text that cannot be NUL on this edge: the condition, constant-folded with the byte set to 0 and
        every other byte of the text left to range over 0..255, never takes the value `pol`"""
        if c is None or c.get("k") != "BinaryOperator" or c.get("op") not in ("==", "!=", "<", "<=", ">", ">="):
            return []
        # collect dereferences; expand local variables that have a single definition (p2 = ILEA(p[0], p[1]); casebit = 0x20)
        defs = local_defs(self.fn)
        sites = []   # (node, deref tuple)

        def collect(n, dep):
            n0 = n
            n = strip(n)
            if n is None:
                return True
            d = deref_of(n) if n.get("k") in ("UnaryOperator", "ArraySubscriptExpr") else None
            if d is not None:
                if d[2] != 0:
                    return False    # side effects inside the condition: leave to the specific patterns
                sites.append((n, d))
                return True
            if n.get("k") == "DeclRefExpr" and n.get("dk") in ("var",) and "v" not in n:
                ds = defs.get(n["d"], [])
                if len(ds) != 1 or dep > 2:
                    return False
                subst[n["i"]] = ds[0]
                return collect(ds[0], dep + 1)
            if n.get("k") in ("CallExpr",):
                return False
            for x in kids(n):
                if not collect(x, dep):
                    return False
            return True

        subst = {}
        if not collect(c, 0) or not sites or len({(d[0], d[1]) for _, d in sites}) > 2:
            return []
        keys = sorted({(d[0], d[1]) for _, d in sites})

        def fold(assign):
            saved = []
            try:
                for n, d in sites:
                    saved.append((n, dict(n)))
                    n.clear()
                    n.update({"k": "IntegerLiteral", "v": assign[(d[0], d[1])], "t": saved[-1][1].get("t")})
                return self._ceval_subst(c, subst)
            finally:
                for n, old in saved:
                    n.clear()
                    n.update(old)

        out = []
        for key in keys:
            others = [k for k in keys if k != key]
            feasible = False
            rng = range(256) if others else [0]
            for ov in rng:
                assign = {key: 0}
                for o in others:
                    assign[o] = ov
                try:
                    v = fold(assign)
                except NotConst:
                    feasible = True
                    break
                if bool(v) == pol:
                    feasible = True
                    break
            if not feasible:
                d = [d for _, d in sites if (d[0], d[1]) == key][0]
                out.append(d)
        return out

    def _ceval_subst(self, n, subst):
        """ceval with single-definition locals replaced by their defining expression"""
        def ev(x):
            x1 = x
            while x1 is not None and x1.get("k") in CASTS and x1.get("c"):
                inner = x1["c"][0]
                if inner.get("k") == "DeclRefExpr" and inner.get("i") in subst:
                    break
                x1 = inner
            return None
        # implement by temporarily patching DeclRefExpr nodes with the value of their definition
        patched = []
        try:
            for x in walk(n):
                if x.get("k") == "DeclRefExpr" and x.get("i") in subst and "v" not in x:
                    val = self._ceval_subst(subst[x["i"]], subst)
                    patched.append((x, dict(x)))
                    t = x.get("t")
                    x.clear()
                    x.update({"k": "IntegerLiteral", "v": val, "t": t})
            return ceval(n, {}, self.tu.types)
        finally:
            for x, old in patched:
                x.clear()
                x.update(old)

    # ---- driver
    def _step(self, b, st):
        nodes = self.fn.nodes
        cfg = self.fn.cfg
        blk = cfg.blocks[b]
        for e in blk["e"]:
            n = nodes.get(e)
            if n is not None:
                self._effects(n, st)
        outs = []
        ss = blk["s"]
        if blk.get("tk") == "SwitchStmt" and "cond" in blk:
            cond = nodes.get(blk["cond"])
            d = deref_of(cond) if cond is not None else None
            has_nul_case = False
            for s in ss:
                if s is None:
                    continue
                lab = nodes.get(cfg.blocks[s].get("label"))
                if lab is not None and lab.get("k") == "CaseStmt" and lab.get("lo") is not None and lab["lo"] <= 0 <= lab.get("hi", lab["lo"]):
                    has_nul_case = True
            for s in ss:
                if s is None:
                    continue
                ns = dict(st)
                lab = nodes.get(cfg.blocks[s].get("label"))
                if d is not None and d[0] in self.tracked_or_base:
                    nonnul = False
                    if lab is not None and lab.get("k") == "CaseStmt":
                        lo, hi = lab.get("lo"), lab.get("hi", lab.get("lo"))
                        nonnul = lo is not None and not (lo <= 0 <= hi)
                    elif has_nul_case:
                        nonnul = True
                    if nonnul:
                        self._learn(ns, d[0], d[1] - d[2])
                outs.append((s, ns))
        elif len(ss) == 2 and "cond" in blk and ss[0] is not None and ss[1] is not None:
            cond = nodes.get(blk["cond"])
            if cond is not None:
                cond = effective_cond(cond)
            for s, pol in ((ss[0], True), (ss[1], False)):
                ns = dict(st)
                if cond is not None:
                    self._refine(cond, pol, ns)
                outs.append((s, ns))
        else:
            for s in ss:
                if s is not None:
                    outs.append((s, dict(st)))
        return outs

    def run(self):
        fn = self.fn
        cfg = fn.cfg
        if cfg is None:
            raise AnalysisBroken("no CFG for %s" % fn.name)
        init = {}
        for p in fn.params:
            if p["d"] in self.tracked:
                init[p["d"]] = (self.entry_k.get(p["n"], 0), 0)
        init["#failed"] = 0
        instate = {(cfg.entry, 0): init}
        work = [(cfg.entry, 0)]
        rounds = 0
        self.report = False
        while work:
            bk = work.pop()
            b = bk[0]
            rounds += 1
            if rounds > 80000:
                raise AnalysisBroken("headroom analysis of %s does not converge" % fn.name)
            for s0, ns in self._step(b, dict(instate[bk])):
                s = (s0, ns.get("#failed", 0))
                if s not in instate:
                    instate[s] = ns
                    work.append(s)
                else:
                    old = instate[s]
                    new = {}
                    for k in set(old) | set(ns):
                        if isinstance(k, tuple) and k[0] == "alias":
                            if old.get(k) == ns.get(k):
                                new[k] = old[k]
                            continue
                        if k == "#failed":
                            new[k] = old.get(k, 0)
                            continue
                        a, c = old.get(k, (0, 0)), ns.get(k, (0, 0))
                        new[k] = (min(a[0], c[0]), max(a[1], c[1]))
                    if new != old:
                        instate[s] = new
                        work.append(s)
        # reporting pass over the fixpoint
        self.report = True
        self.res = Result()
        for bk in instate:
            self._step(bk[0], dict(instate[bk]))
        uniq, out = set(), []
        for kind, node, var, msg in self.res.findings:
            key = (kind, node.get("i") if node else None, var)
            if key not in uniq:
                uniq.add(key)
                out.append((kind, node, var, msg))
        self.res.findings = out
        return self.res
