"""C03 — adding days or weeks is exact in every calendar.

That the carried result is the day exactly n days away is a value-level fact (it depends on the lengths the loops look up)
and is NOT decided.  Decided is the structure every carry routine shares, each item a necessary condition of exactness:

 RF-carry     __ymd_fixup_d, __yd_fixup_d, __ymcw_fixup_c, __ywd_fixup_w: the value in range is kept as is only if it lies in
              1..L with L not above the smallest period length (28, 365, 4, 52); forward: `while (x > (len = LEN(pos)))` -- strict,
              length of the period being left, taken before the position moves -- with body `x -= len`; backward: the position
              moves first, then `x += LEN(new position)`, repeated `while (x < 1)`; so the result is in 1..LEN(final position)
 RF-wrap      where the position is (year, month): the month wraps 12 -> 1 with the year incremented, 1 -> 12 with the year
              decremented, and stays in 1..12 (interval analysis with entry month 1..12)
 RF9-week7    adding n weeks is adding 7 * n days (ymd, yd, bizda, day counts) or n to the week count handed to the week carry
              (ywd, ymcw)
 RF1-disp     dt_dadd_d and dt_dadd_w dispatch every calendar to its adder
"""
from core import (AnalysisBroken, strip, kids, const_of, call_args, expr_text, walk, CASTS, switch_handles, switch_cases)
import intervals
from intervals import Intervals

CARRY = {"__ymd_fixup_d": ("__get_mdays", 28, 2), "__yd_fixup_d": ("__get_ydays", 365, 1),
         "__ymcw_fixup_c": ("__get_mcnt", 4, 2), "__ywd_fixup_w": ("__get_isowk", 52, 1)}
WEEK_BY_DAYS = {"__ymd_add_w": "__ymd_add_d", "__yd_add_w": "__yd_add_d", "__bizda_add_w": "__bizda_add_d", "__daisy_add_w": "__daisy_add_d"}
WEEK_BY_COUNT = {"__ywd_add_w": "__ywd_fixup_w", "__ymcw_add_w": "__ymcw_fixup_c"}


def _u(e):
    e = strip(e)
    while e is not None and e.get("k") in CASTS and e.get("c"):
        e = strip(e["c"][0])
    return e


def _blk(fn, n):
    cur = n
    while cur is not None:
        if "i" in cur and fn.cfg.stmt_block(cur["i"]):
            return fn.cfg.stmt_block(cur["i"])
        cur = fn.parent(cur)
    return None


def check_carry(P, R, tu):
    rule = "RF-carry"
    for name, (lenf, least, xi) in CARRY.items():
        fn = tu.func(name)
        if fn is None:
            raise AnalysisBroken("%s vanished" % name)
        R.saw(fn)
        x = fn.params[xi]["d"]
        xn = fn.params[xi]["n"]
        loops = [l for l in fn.walk() if l.get("k") in ("WhileStmt", "DoStmt", "ForStmt")]
        fw = [l for l in loops if l["k"] in ("WhileStmt", "ForStmt")]       # test first: `while`, or `for` with the advance in its head
        bw = [l for l in loops if l["k"] == "DoStmt"]
        if len(fw) != 1 or len(bw) != 1:
            raise AnalysisBroken("%s: carry loops of %s not recognised (%d forward, %d backward)" % (rule, name, len(fw), len(bw)))
        # ---- in-range shortcut: 1 <= x <= L
        lo = hi = None
        for c in fn.walk():
            if c.get("k") == "BinaryOperator" and c.get("op") in (">=", "<=") and _u(c["c"][0]) is not None and _u(c["c"][0]).get("d") == x \
                    and const_of(c["c"][1]) is not None:
                if c["op"] == ">=":
                    lo = const_of(c["c"][1])
                else:
                    hi = const_of(c["c"][1])
        if lo == 1 and hi is not None and hi <= least:
            R.ob(rule, "%s: values 1..%d are kept, every period has at least %d" % (name, hi, least), True)
        else:
            R.finding(rule, fn, "shortcut %s..%s" % (lo, hi), "%s keeps values %s..%s without carrying; the valid ones are 1..(at most %d, the "
                      "shortest period)" % (name, lo, hi, least))
        # ---- forward loop
        w = fw[0]
        cond = _u(w["c"][0] if w["k"] == "WhileStmt" else w["c"][1])
        okf = False
        lenvar = None
        if cond is not None and cond.get("k") == "BinaryOperator" and cond.get("op") == ">" and _u(cond["c"][0]).get("d") == x:
            r = _u(cond["c"][1])
            if r is not None and r.get("k") == "BinaryOperator" and r.get("op") == "=" and _u(r["c"][1]).get("k") == "CallExpr" \
                    and _u(r["c"][1]).get("callee") == lenf:
                lenvar = _u(r["c"][0]).get("d")
                subs = [s for s in walk(w["c"][-1]) if s.get("k") == "CompoundAssignOperator" and s.get("op") == "-=" and
                        _u(s["c"][0]).get("d") == x and _u(s["c"][1]).get("d") == lenvar]
                okf = len(subs) == 1
        if okf:
            R.ob(rule, "%s forward: while (%s > (len = %s(position))) %s -= len" % (name, xn, lenf, xn), True)
        else:
            R.finding(rule, fn, "forward loop", "the forward carry of %s must be `while (%s > (len = %s(current position))) { %s -= len; "
                      "advance }`: strict comparison, length of the period being left, subtracted once; found condition `%s`"
                      % (name, xn, lenf, xn, expr_text(cond)[:80]), w)
        # ---- backward loop
        b = bw[0]
        body, bcond = b["c"][0], _u(b["c"][1])
        okb = False
        if bcond is not None and bcond.get("k") == "BinaryOperator" and bcond.get("op") == "<" and _u(bcond["c"][0]).get("d") == x \
                and const_of(bcond["c"][1]) == 1:
            calls = [c for c in walk(body) if c.get("k") == "CallExpr" and c.get("callee") == lenf]
            adds = [s for s in walk(body) if s.get("k") == "CompoundAssignOperator" and s.get("op") == "+=" and _u(s["c"][0]).get("d") == x]
            if len(calls) == 1 and len(adds) == 1:
                # what is added is the result of the length call (directly or through one variable)
                a = _u(adds[0]["c"][1])
                direct = a is not None and a.get("k") == "CallExpr" and a.get("callee") == lenf
                viavar = False
                if a is not None and a.get("k") == "DeclRefExpr":
                    for s in walk(body):
                        if s.get("k") == "BinaryOperator" and s.get("op") == "=" and _u(s["c"][0]).get("d") == a["d"] and _u(s["c"][1]) is calls[0]:
                            viavar = True
                # the position moves before the length is looked up: every write to a position parameter precedes the call
                posd = {p_["d"] for i, p_ in enumerate(fn.params) if i != xi}
                cb = _blk(fn, calls[0])
                order = True
                for s in walk(body):
                    tgt = None
                    if s.get("k") in ("BinaryOperator", "CompoundAssignOperator") and s.get("op", "").endswith("=") and \
                            s.get("op") not in ("==", "!=", "<=", ">="):
                        tgt = _u(s["c"][0])
                    elif s.get("k") == "UnaryOperator" and s.get("op") in ("++", "--"):
                        tgt = _u(s["c"][0])
                    if tgt is not None and tgt.get("k") == "DeclRefExpr" and tgt.get("d") in posd and tgt.get("d") in \
                            {y.get("d") for a_ in call_args(calls[0]) for y in walk(a_) if y.get("k") == "DeclRefExpr"}:
                        # the body is structured code (no jumps): source order is execution order
                        if any(y.get("k") in ("GotoStmt", "ContinueStmt", "BreakStmt") for y in walk(body)):
                            raise AnalysisBroken("%s: jumps in the backward carry loop of %s" % (rule, name))
                        if not (s.get("i") is not None and calls[0].get("i") is not None and s["i"] < calls[0]["i"]):
                            order = False
                okb = (direct or viavar) and order
        if okb:
            R.ob(rule, "%s backward: move the position, then %s += %s(new position), while (%s < 1)" % (name, xn, lenf, xn), True)
        else:
            R.finding(rule, fn, "backward loop", "the backward carry of %s must move the position first, then add %s(new position) once, and "
                      "repeat while (%s < 1)" % (name, lenf, xn), b)


def check_wrap(P, R, tu):
    rule = "RF-wrap"
    for name in ("__ymd_fixup_d", "__ymcw_fixup_c"):
        fn = tu.func(name)
        y, m = fn.params[0]["d"], fn.params[1]["d"]
        # structural: the two wraps
        wraps = []
        for s in fn.walk():
            if s.get("k") == "IfStmt":
                c = _u(s["c"][0])
                if c is not None and c.get("k") == "BinaryOperator" and c.get("op") in ("<", ">"):
                    l = _u(c["c"][0])
                    if l is not None and l.get("k") == "UnaryOperator" and l.get("op") in ("++", "--") and _u(l["c"][0]).get("d") == m:
                        ystep = [u for u in walk(s["c"][1]) if u.get("k") == "UnaryOperator" and u.get("op") in ("++", "--") and _u(u["c"][0]).get("d") == y]
                        mset = [const_of(a["c"][1]) for a in walk(s["c"][1]) if a.get("k") == "BinaryOperator" and a.get("op") == "=" and
                                _u(a["c"][0]).get("d") == m]
                        wraps.append((l["op"], c["op"], const_of(c["c"][1]), ystep[0]["op"] if ystep else None, mset[0] if mset else None, s))
        want = {("++", ">", 12, "++", 1), ("--", "<", 1, "--", 12)}
        got = {w[:5] for w in wraps}
        if got == want:
            R.ob(rule, "%s: month 12 -> 1 with the next year, month 1 -> 12 with the previous year" % name, True)
        else:
            R.finding(rule, fn, "month wrap", "the month wraps of %s are %s; they must be (++m > 12: ++y, m = 1) and (--m < 1: --y, m = 12)"
                      % (name, sorted(str(g) for g in got)), wraps[0][5] if wraps else None)
        iv = Intervals(fn, entry={m: (1, 12)}).run()
        rets = [r for r in fn.walk() if r.get("k") == "ReturnStmt"]
        okr = bool(rets)
        worst = None
        for r in rets:
            for st in iv.states_at(r) or []:
                v = st.get(m)
                if v is None or v[0] is None or v[0] < 1 or v[1] is None or v[1] > 12:
                    okr, worst = False, v
        if okr:
            R.ob(rule, "%s: month in 1..12 at the return" % name, True)
        else:
            R.finding(rule, fn, "month range", "the month ranges over %s at the return of %s" % (worst, name), rets[0] if rets else None)


def check_week(P, R, tu):
    rule = "RF9-week7"
    for name, callee in WEEK_BY_DAYS.items():
        fn = tu.func(name)
        if fn is None:
            raise AnalysisBroken("%s vanished" % name)
        R.saw(fn)
        n = fn.params[1]["d"]
        ok = False
        for c in fn.calls(callee):
            a = _u(call_args(c)[1])
            if a is not None and a.get("k") == "BinaryOperator" and a.get("op") == "*":
                for u, v in ((a["c"][0], a["c"][1]), (a["c"][1], a["c"][0])):
                    if const_of(u) == 7 and _u(v) is not None and _u(v).get("d") == n:
                        ok = True
        if ok:
            R.ob(rule, "%s(d, n) = %s(d, 7 * n)" % (name, callee), True)
        else:
            R.finding(rule, fn, "week factor", "%s must add 7 * n days through %s" % (name, callee))
    for name, callee in WEEK_BY_COUNT.items():
        fn = tu.func(name)
        if fn is None:
            raise AnalysisBroken("%s vanished" % name)
        R.saw(fn)
        n = fn.params[1]["d"]
        ok = False
        for v in fn.walk():
            if v.get("k") == "Var" and kids(v):
                e = _u(kids(v)[0])
                if e is not None and e.get("k") == "BinaryOperator" and e.get("op") == "+":
                    l, r = _u(e["c"][0]), _u(e["c"][1])
                    if l is not None and l.get("k") == "MemberExpr" and l.get("n") == "c" and r is not None and r.get("d") == n:
                        # and it is what the carry routine receives
                        for c in fn.calls(callee):
                            if any(_u(a) is not None and _u(a).get("d") == v["d"] for a in call_args(c)):
                                ok = True
        if ok:
            R.ob(rule, "%s(d, n): week count + n handed to %s" % (name, callee), True)
        else:
            R.finding(rule, fn, "week count", "%s must hand (week count + n) to %s" % (name, callee))


def check_dispatch(P, R, tu):
    rule = "RF1-disp"
    cal = {"DT_YMD": "ymd", "DT_YMCW": "ymcw", "DT_YWD": "ywd", "DT_YD": "yd", "DT_BIZDA": "bizda", "DT_DAISY": "daisy"}
    n = 0
    for fname, suf in (("dt_dadd_d", "_add_d"), ("dt_dadd_w", "_add_w")):
        fn = tu.func(fname)
        if fn is None:
            raise AnalysisBroken("%s vanished" % fname)
        R.saw(fn)
        sws = list(fn.switches())
        if not sws:
            raise AnalysisBroken("%s: %s has no dispatch switch" % (rule, fname))
        groups = switch_cases(sws[0])
        for en, c in cal.items():
            v = tu.enum_value(en)
            n += 1
            want = "__%s%s" % (c, suf)
            hit = False
            for g in groups:
                if any(l["lo"] is not None and l["lo"] <= v <= l["hi"] for l in g["labels"]):
                    hit = any(y.get("k") == "CallExpr" and y.get("callee") == want for s in g["stmts"] for y in walk(s))
            if hit:
                R.ob(rule, "%s: %s -> %s" % (fname, en, want), True)
            else:
                R.finding(rule, fn, "%s %s" % (fname, en), "%s does not hand %s dates to %s" % (fname, en, want))
    R.floor(rule, "calendar x unit pairs", n, 12)


def check(P, R, tier):
    tu = P.tu("libdut_a-date-core.o")
    check_carry(P, R, tu)
    check_wrap(P, R, tu)
    check_week(P, R, tu)
    check_dispatch(P, R, tu)
    # the period lengths the carry loops look up, as far as they are closed forms over a tiny domain: decoded and compared
    import lentab
    import adddecode
    todo = [("ymd", "d", "__ymd_add_d"), ("yd", "d", "__yd_add_d"), ("ywd", "d", "__ywd_add_d"), ("ymcw", "d", "__ymcw_add_d"),
            ("ymd", "w", "__ymd_add_w"), ("yd", "w", "__yd_add_w"), ("ywd", "w", "__ywd_add_w"), ("ymcw", "w", "__ymcw_add_w")]
    na = adddecode.run_parallel(R, tu, "RF2-add", todo, every=(tier == "thorough"), jobs=14)
    R.floor("RF2-add", "decoded (start, count) points of the day and week adders", na, 200000)
    nd = adddecode.run_daynumbers(R, tu, "RF2-add")
    R.floor("RF2-add", "decoded probes of the day-number adders", nd, 100)
    # business-day dates: calendar days and weeks added to them (the carry through months and years is the adder's own)
    import bizdecode
    nb = bizdecode.run_parallel(R, tu, "RF2-add", jobs=14, only=("__bizda_add_d", "__bizda_add_w"))
    R.floor("RF2-add", "decoded points of the business-day date routines", nb, 20000)
    import fresh
    nf = fresh.check_unit(R, tu, "RF-fresh")
    R.floor("RF-fresh", "uses of looked-up period lengths in the date core", nf, 50)
    n = lentab.check(P, R, tu, {"mdays", "mcnt", "bdays", "ydays"}, rule="RF2-closed")
    R.floor("RF2-closed", "entries of period tables spelled as closed forms", n, 250)
    # a sign read apart from the number is applied by negating the parsed duration
    import durdecode
    nn = durdecode.check(R, P, "RF2-neg")
    R.floor("RF2-neg", "decoded parses / negations / sign tests of durations", nn, 150)


LEVEL = ("Decides exact day and week addition for the four calendars with carry loops by decoding the adders with the count kept symbolic "
         "(RF2-add): from start days of one representative year of each of the 21 year classes, for every count within +-400 days / "
         "+-60 weeks, and for far counts of 2 to 40 years from three starts a year, the result is the representation of the day that many "
         "days away, the helper slot of week dates included.  Counts beyond that rest on the common "
         "structure of the four carry routines, decided separately: in-range shortcut not above the shortest period; forward loop "
         "strict, with the length of the period being left, looked up afresh (RF-fresh) before the move; backward loop moves first, "
         "then adds the length of the period entered, while the value is below 1; month / year wrap constants and month range; a "
         "week is 7 days or one week count; the dispatch; the period lengths decoded as tables (RF2-closed).  NOT decided: the "
         "business-day-of-month and Hijri calendars' adders, 32-bit overflow of huge counts.")
RULE = "obligation = one shortcut / forward loop / backward loop per carry routine, one wrap pair, one week adder, one dispatch case"
ASSUME = ["the cumulative month table behind __get_mdays and the 53-week years behind __get_isowk are right (C01 decides those tables); "
          "the closed forms on top of them (__get_mdays, __get_mcnt, __get_bdays, __get_ydays) are decoded here (RF2-closed)"]
