"""RF2-expr: dgrep's expression machinery decoded on every small expression tree.

Trees with up to four atoms, every way of bracketing them, every choice of && / || at the inner nodes and every placement of
negations are built as heap cells exactly as the parser builds them (node type, negation flag, children, the atom's specifier /
operator / value), handed to dexpr_simplify (__denega + __dnf) and then evaluated by dexpr_matches_p against a set of dates that
realises every combination of truth values of the atoms; all of src/dexpr.c is folded as it stands (rules/fold.py: heap cells,
pointers, deep copy through memcpy).  The result must be what ordinary Boolean semantics gives for the tree as written.  The
atoms are specifier comparisons (%d, %m, %Y, %u with =, >=, <) so that the operator complement under negation is exercised."""
import copy
import datetime
import itertools
from core import AnalysisBroken, NotConst
import fold
from fold import Ptr, Heap

_G = {}


def _shapes(leaves):
    """all binary bracketings over a list of leaves -> nested tuples"""
    if len(leaves) == 1:
        yield leaves[0]
        return
    for i in range(1, len(leaves)):
        for l in _shapes(leaves[:i]):
            for r in _shapes(leaves[i:]):
                yield (l, r)


def _count_inner(t):
    return 0 if not isinstance(t, tuple) else 1 + _count_inner(t[0]) + _count_inner(t[1])


def _trees(n):
    """(structure with ops and negations filled in) for n atoms: nodes are ('val', atom index, nega) / (op, left, right, nega)"""
    for shp in _shapes(list(range(n))):
        inner = _count_inner(shp)
        for ops in itertools.product(("&&", "||"), repeat=inner):
            for negs in itertools.product((0, 1), repeat=inner + n):
                it_ops, it_negs = iter(ops), iter(negs)

                def fill(t):
                    if not isinstance(t, tuple):
                        return ("val", t, next(it_negs))
                    op = next(it_ops)
                    ng = next(it_negs)
                    return (op, fill(t[0]), fill(t[1]), ng)
                yield fill(shp)


def _truth(t, vals):
    if t[0] == "val":
        v = vals[t[1]]
        return (not v) if t[2] else v
    a, b = _truth(t[1], vals), _truth(t[2], vals)
    v = (a and b) if t[0] == "&&" else (a or b)
    return (not v) if t[3] else v


def _text(t, names):
    if t[0] == "val":
        return ("!" if t[2] else "") + names[t[1]]
    return ("!" if t[3] else "") + "(" + _text(t[1], names) + " " + t[0] + " " + _text(t[2], names) + ")"


def _worker(job):
    tu, res, E, atoms, dates = _G["tu"], _G["resolve"], _G["E"], _G["atoms"], _G["dates"]
    fold.RESOLVE["fn"] = res
    fsim, fmat = tu.func("dexpr_simplify"), tu.func("dexpr_matches_p")
    tabs = {}
    bad = []
    n = 0

    def build(heap, t):
        p = heap.new()
        cell = heap[p.d]
        if t[0] == "val":
            spfl, op, val, _ = atoms[t[1]]
            cell.update({"type": E["DEX_VAL"], "nega": t[2], "left": 0, "kv.sp.spfl": spfl, "kv.op": op, "kv.s": val})
        else:
            cell.update({"type": E["DEX_CONJ"] if t[0] == "&&" else E["DEX_DISJ"], "nega": t[3]})
            cell["left"] = build(heap, t[1])
            cell["right"] = build(heap, t[2])
        return p

    def memcpy(dst, src, nbytes):
        if isinstance(dst, Ptr) and isinstance(src, Ptr):
            dst.env[dst.d] = dict(src.env[src.d])
            return dst
        raise NotConst("memcpy of non-records")
    for tree in job:
        heap = Heap()
        root = build(heap, tree)
        calls = {"calloc": lambda a, b: heap.new(), "malloc": lambda a: heap.new(), "free": lambda p: 0, "memcpy": memcpy}
        try:
            fo = fold.Folder(fsim, calls=calls, inline=True, max_steps=2000000)
            fo._tabs = tabs
            fo.run([root])
            for d, vals in dates:
                rec = {"typ": E["DT_YMD"], "sandwich": 0, "d.typ": E["DT_YMD"], "d.ymd.y": d.year, "d.ymd.m": d.month, "d.ymd.d": d.day}
                fo = fold.Folder(fmat, calls=calls, inline=True, max_steps=2000000)
                fo._tabs = tabs
                got = fo.run([root, rec])
                n += 1
                exp = _truth(tree, vals)
                if bool(got) != bool(exp) and len(bad) < 100:
                    bad.append((_text(tree, [a[3] for a in atoms]), d.isoformat(), bool(got), bool(exp)))
        except fold.Abort as e:
            bad.append((_text(tree, [a[3] for a in atoms]), "", "abort: %s" % e, ""))
    return n, bad


def run_parallel(R, P, rule, maxatoms=4, jobs=12):
    import multiprocessing as mp
    tu = P.tu("dgrep-dgrep.o")
    libs = [P.tu("libdut_a-dt-core.o"), P.tu("libdut_a-date-core.o"), P.tu("libdut_a-time-core.o")]
    for f in ("dexpr_simplify", "dexpr_matches_p"):
        if tu.func(f) is None:
            raise AnalysisBroken("%s vanished" % f)
        R.saw(tu.func(f))

    def resolve(name):
        for l in libs:
            f = l.func(name)
            if f is not None and getattr(f, "body", None) is not None:
                return f
        return None
    E = {k: tu.enum_value(k) for k in ("DEX_VAL", "DEX_CONJ", "DEX_DISJ", "DT_YMD", "DT_SPFL_N_DCNT_MON", "DT_SPFL_N_MON", "DT_SPFL_N_YEAR",
                                        "DT_SPFL_N_DCNT_WEEK", "OP_EQ", "OP_GE", "OP_LT", "OP_NE")}
    if None in E.values():
        raise AnalysisBroken("%s: enumerators not found: %s" % (rule, [k for k, v in E.items() if v is None]))
    atoms = [(E["DT_SPFL_N_DCNT_MON"], E["OP_GE"], 15, "%d>=15"), (E["DT_SPFL_N_MON"], E["OP_EQ"], 6, "%m=6"),
             (E["DT_SPFL_N_YEAR"], E["OP_LT"], 2013, "%Y<2013"), (E["DT_SPFL_N_DCNT_WEEK"], E["OP_NE"], 3, "%u!=3")]
    # dates realising all 16 combinations
    dates = []
    seen = set()
    d = datetime.date(2012, 5, 1)
    while len(seen) < 16 and d < datetime.date(2014, 1, 1):
        vals = (d.day >= 15, d.month == 6, d.year < 2013, d.isoweekday() != 3)
        if vals not in seen:
            seen.add(vals)
            dates.append((d, vals))
        d += datetime.timedelta(days=1)
    if len(seen) < 16:
        raise AnalysisBroken("%s: not all truth combinations realised" % rule)
    trees = []
    for k in range(1, maxatoms + 1):
        trees += list(_trees(k))
    _G.update(tu=tu, resolve=resolve, E=E, atoms=atoms, dates=dates)
    chunks = [trees[i::jobs] for i in range(jobs)]
    try:
        ctx = mp.get_context("fork")
        with ctx.Pool(jobs) as pool:
            parts = pool.map(_worker, chunks)
    except NotConst as e:
        raise AnalysisBroken("%s: the expression machinery left the foldable fragment (%s)" % (rule, e))
    n = sum(k for k, _ in parts)
    bad = [x for _, b in parts for x in b]
    fn = tu.func("dexpr_simplify")
    if bad:
        txt, day, got, exp = sorted(bad)[0]
        R.finding(rule, fn, "expression trees, decoded", "%s%d (expression, date) points evaluate differently from ordinary Boolean semantics; "
                  "first: `%s` on %s gives %s, it is %s" % (">= " if len(bad) >= 100 * jobs else "", len(bad), txt, day, got, exp))
    else:
        R.ob(rule, "all %d expression trees with up to %d atoms x 16 truth combinations: normalisation + evaluation is ordinary Boolean "
             "semantics" % (len(trees), maxatoms), True)
    return n
