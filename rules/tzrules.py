"""Rules shared by C12 / C13 / C14 / C19 over lib/tzraw.c, lib/leaps.c and their users."""
import re
from core import (AnalysisBroken, strip, kids, const_of, call_args, expr_text, walk, origins, local_defs,
                  guards_of, norm_cond, CASTS)

REL = ("<", "<=", ">", ">=")
FLIP = {"<": ">", ">": "<", "<=": ">=", ">=": "<="}


# ----------------------------------------------------------------------------- RF3: index narrowing
def index_narrowing(P, R, rule, tu_names, sources_calls, sources_members, field_floor):
    """values that are transition indices (results of the listed calls, loads of the listed members) must not be
    converted to an integer type narrower than 32 bits nor stored in a narrower bit-field."""
    n_checked = 0
    for tn in tu_names:
        tu = P.tu(tn)
        # declared widths of index-carrying fields
        for recname, field, minbits in field_floor:
            rec = tu.record(recname)
            if rec is None:
                raise AnalysisBroken("%s: record %s vanished" % (rule, recname))
            got = None
            for p, off, w, sg in tu.flatten_record(rec):
                if p == field:
                    got = w
            if got is None:
                raise AnalysisBroken("%s: field %s.%s vanished" % (rule, recname, field))
            n_checked += 1
            if got < minbits:
                R.finding(rule, None, "field %s.%s width" % (recname, field),
                          "%s.%s holds a transition index but is only %d bits wide (zone files have up to 2^31 transitions; "
                          "e.g. Asia/Gaza has more than 255)" % (recname, field, got),
                          file=tu.filename(rec["file"]).replace("/repo/", ""), line=rec["line"])
            else:
                R.ob(rule, "field %s.%s is %d bits" % (recname, field, got), True)
        for fn in tu.funclist:
            if not fn.file.startswith(tu.dir) or "/usr/" in fn.file:
                continue
            R.saw(fn)
            for n in fn.walk():
                k = n.get("k")
                tgt = None
                src = None
                if k in CASTS and n.get("ck") == "IntegralCast":
                    t = fn.tu.types[n["t"]]
                    if t.get("int") and t.get("w", 64) < 32:
                        tgt, src = "%s (%d bits)" % (t["s"], t["w"]), n["c"][0]
                elif k == "BinaryOperator" and n.get("op") == "=":
                    l = strip(n["c"][0])
                    if l is not None and l.get("k") == "MemberExpr" and l.get("bw") is not None and l["bw"] < 31:
                        tgt, src = "bit-field %s:%d" % (l["n"], l["bw"]), n["c"][1]
                if tgt is None:
                    continue
                og = origins(fn, src, through_calls=False)
                hit = [o for o in og if (o[0] == "call" and o[1] in sources_calls) or (o[0] == "m" and o[1] in sources_members)]
                if not hit:
                    continue
                n_checked += 1
                R.finding(rule, fn, "narrowing of %s to %s" % (expr_text(strip(src)), tgt.split(" ")[0] if "bit-field" not in tgt else tgt),
                          "a transition index (%s) is narrowed to %s" % (", ".join("%s:%s" % o for o in hit), tgt), n)
    return n_checked


# ----------------------------------------------------------------------------- RF13: bisections
def _mid_assignments(fn, loop):
    """assignments `m = (a + b) / 2` inside loop -> list of (node, m decl, a decl, b decl)"""
    out = []
    for n in walk(loop):
        rhs = None
        tgt = None
        if n.get("k") == "BinaryOperator" and n.get("op") == "=":
            tgt, rhs = strip(n["c"][0]), strip(n["c"][1])
        elif n.get("k") == "Var" and kids(n):
            tgt, rhs = n, strip(kids(n)[0])
        if rhs is None or tgt is None:
            continue
        if rhs.get("k") == "BinaryOperator" and rhs.get("op") in ("/", ">>"):
            num, den = strip(rhs["c"][0]), const_of(rhs["c"][1])
            if not ((rhs["op"] == "/" and den == 2) or (rhs["op"] == ">>" and den == 1)):
                continue
            if num is not None and num.get("k") == "BinaryOperator" and num.get("op") == "+":
                a, b = strip(num["c"][0]), strip(num["c"][1])
                if a is not None and b is not None and a.get("k") == b.get("k") == "DeclRefExpr":
                    td = tgt["d"] if tgt.get("k") in ("DeclRefExpr", "Var") else None
                    if td is not None:
                        out.append((n, td, a["d"], b["d"], a["n"], b["n"], tgt.get("n")))
    return out


def _loops(fn):
    return [n for n in fn.walk() if n.get("k") in ("DoStmt", "WhileStmt", "ForStmt")]


def bisection_progress(fn, R, rule):
    """loops that recompute mid = (lo + hi) / 2 from the bounds: every assignment to lo in the loop must be
    mid + c (c >= 1) and every assignment to hi must be mid - c (c >= 0).  `lo = mid` can repeat forever once
    hi == lo + 1."""
    found = 0
    for loop in _loops(fn):
        for (node, m, a, b, an, bn, mn) in _mid_assignments(fn, loop):
            if m in (a, b):
                continue   # cursor-style bisection (i = (i + max) / 2): handled by found-guard rule
            found += 1
            for n in walk(loop):
                if n.get("k") != "BinaryOperator" or n.get("op") != "=":
                    continue
                l = strip(n["c"][0])
                if l is None or l.get("k") != "DeclRefExpr" or l["d"] not in (a, b):
                    continue
                r = strip(n["c"][1])
                ok = False
                # which bound is lower?  decide by the comparison that guards the assignment: we use the form only
                if r is not None and r.get("k") == "BinaryOperator" and r.get("op") in ("+", "-"):
                    x, c = strip(r["c"][0]), const_of(r["c"][1])
                    if x is not None and x.get("k") == "DeclRefExpr" and x["d"] == m and c is not None and c >= 1:
                        ok = True
                elif r is not None and r.get("k") == "DeclRefExpr" and r["d"] == m:
                    # plain `bound = mid` is progress only for the upper bound, i.e. on the branch where the key is
                    # below the probed element: orient the innermost guard as  key OP element
                    if _gap_loop(loop, an, bn):
                        # `while (hi - lo > 1)`: the midpoint lies strictly between the bounds
                        R.ob(rule, "%s loop bound update %s = %s (gap >= 2 loop)" % (fn.name, l["n"], expr_text(r)), True)
                        continue
                    op = _key_op(fn, n)
                    if op is None:
                        raise AnalysisBroken("%s: cannot orient the guard of `%s = %s` in %s" % (rule, l["n"], expr_text(r), fn.name))
                    ok = op in ("<", "<=")
                site = "%s = %s" % (l["n"], expr_text(r))
                if ok:
                    R.ob(rule, "%s loop bound update %s" % (fn.name, site), True)
                else:
                    R.finding(rule, fn, "bound update %s" % site,
                              "bisection bound `%s` is set to the midpoint itself on the upward branch: with %s == %s + 1 the "
                              "loop repeats the same probe forever" % (l["n"], bn, an), n)
    return found


def _gap_loop(loop, an, bn):
    """loop continues only while the two bounds are at least 2 apart"""
    if loop.get("k") == "WhileStmt":
        cond = loop["c"][0]
    elif loop.get("k") == "ForStmt":
        cond = loop["c"][1]
    else:
        return False   # do-while tests after the first iteration
    if cond is None:
        return False
    op, a, b = norm_cond(cond, True)
    names = ({an, bn})
    forms = set()
    for lo, hi in ((an, bn), (bn, an)):
        forms |= {(">", "(%s - %s)" % (hi, lo), "1"), (">=", "(%s - %s)" % (hi, lo), "2"),
                  ("<", "(%s + 1)" % lo, hi), (">", hi, "(%s + 1)" % lo)}
    return (op, a, b) in forms


def _key_op(fn, n):
    """innermost enclosing if-condition `key OP elem` (key = a function parameter), oriented with the key on the left"""
    fn.nodes
    pnames = {p["d"] for p in fn.params}
    cur = n
    while cur is not None:
        par = fn.parent(cur)
        if par is not None and par.get("k") == "IfStmt" and (_contains(par["c"][1], cur) or
                                                             (len(par["c"]) > 2 and par["c"][2] is not None and _contains(par["c"][2], cur)
                                                              and par["c"][2].get("k") != "IfStmt")):
            neg = not _contains(par["c"][1], cur)
            cond = strip(par["c"][0])
            if neg and cond is not None and cond.get("k") == "BinaryOperator" and cond.get("op") in REL:
                from core import NEG
                cond = dict(cond)
                cond["op"] = NEG[cond["op"]]
            if cond is not None and cond.get("k") == "BinaryOperator" and cond.get("op") in REL:
                a, b = strip(cond["c"][0]), strip(cond["c"][1])
                if a is not None and a.get("k") == "DeclRefExpr" and a["d"] in pnames:
                    return cond["op"]
                if b is not None and b.get("k") == "DeclRefExpr" and b["d"] in pnames:
                    return FLIP[cond["op"]]
            return None
        cur = par
    return None


def _contains(a, b):
    if a is None:
        return False
    for x in walk(a):
        if x is b:
            return True
    return False


def found_guard(fn, R, rule):
    """cursor-style searches: a `return i` (i = probe index) must not be reachable from a re-assignment of i
    without passing the true edge of the found-test (`key > v[i] && key <= v[i+1]`-shaped)."""
    cfg = fn.cfg
    if cfg is None:
        raise AnalysisBroken("no CFG for %s" % fn.name)
    nodes = fn.nodes
    n_sites = 0
    for loop in _loops(fn):
        mids = [x for x in _mid_assignments(fn, loop) if x[1] in (x[2], x[3])]
        if not mids:
            continue
        cursor = mids[0][1]
        cname = mids[0][6]
        # blocks that assign the cursor inside the loop
        asg_blocks = set()
        for (node, m, a, b, an, bn, mn) in mids:
            sb = cfg.stmt_block(node["i"]) if "i" in node else None
            if sb:
                asg_blocks.add(sb[0])
        # found test: if-condition that is `&&` of two relational comparisons sharing an operand
        found_true_targets = set()
        for n in walk(loop):
            if n.get("k") != "IfStmt":
                continue
            cond = strip(n["c"][0])
            if cond is None or cond.get("k") != "BinaryOperator" or cond.get("op") != "&&":
                continue
            l, r = strip(cond["c"][0]), strip(cond["c"][1])
            if l.get("k") == r.get("k") == "BinaryOperator" and l.get("op") in REL and r.get("op") in REL:
                ops = {expr_text(l["c"][0]), expr_text(l["c"][1])} & {expr_text(r["c"][0]), expr_text(r["c"][1])}
                if ops:
                    # the block evaluating r with its true edge
                    sb = cfg.stmt_block(r["i"])
                    if sb:
                        blk = cfg.blocks[sb[0]]
                        if len(blk["s"]) == 2 and blk["s"][0] is not None:
                            found_true_targets.add((sb[0], blk["s"][0]))
        if not found_true_targets:
            raise AnalysisBroken("%s: found-test of the search loop in %s not recognised" % (rule, fn.name))
        # returns of the cursor
        for n in fn.walk():
            if n.get("k") != "ReturnStmt" or not kids(n):
                continue
            rv = strip(kids(n)[0])
            if rv is None or rv.get("k") != "DeclRefExpr" or rv["d"] != cursor:
                continue
            sb = cfg.stmt_block(n["i"])
            if not sb:
                continue
            rb = sb[0]
            n_sites += 1
            # reachability from an assignment block to rb avoiding found-true edges and further cursor assignments
            bad = False
            for ab in asg_blocks:
                seen, st = set(), [s for s in cfg.succs[ab]]
                while st:
                    x = st.pop()
                    if x in seen:
                        continue
                    seen.add(x)
                    if x == rb:
                        bad = True
                        break
                    if x in asg_blocks:
                        continue
                    for s in cfg.succs[x]:
                        if (x, s) in found_true_targets:
                            continue
                        st.append(s)
                if bad:
                    break
            if bad:
                R.finding(rule, fn, "return %s without found-test" % cname,
                          "the search returns its probe index `%s` on a path where the index was just moved and the "
                          "interval test was not evaluated for it (loop left through its continuation condition): "
                          "the caller gets an index whose interval does not contain the key" % cname, n)
            else:
                R.ob(rule, "%s returns %s only after the interval test" % (fn.name, cname), True)
    return n_sites


# ----------------------------------------------------------------------------- half-open range discipline
def halfopen_ranges(P, R, rule):
    """struct zrng_s describes [prev, next): every comparison of a non-constant against .prev must be >= or <,
    against .next must be < or >=."""
    nsites = 0
    for fn in P.all_functions():
        for n in fn.walk():
            if n.get("k") != "BinaryOperator" or n.get("op") not in REL + ("==", "!="):
                continue
            for side in (0, 1):
                x = strip(n["c"][side])
                y = strip(n["c"][1 - side])
                if x is None or x.get("k") != "MemberExpr" or x.get("n") not in ("prev", "next"):
                    continue
                rec = fn.tu.recs_by_id.get(x.get("rec"))
                if rec is None or rec.get("name") != "zrng_s":
                    continue
                if const_of(y) is not None:
                    continue  # sentinel test (STAMP_MIN / STAMP_MAX)
                if y is not None and y.get("k") == "MemberExpr" and y.get("n") in ("prev", "next") and \
                        (fn.tu.recs_by_id.get(y.get("rec")) or {}).get("name") == "zrng_s":
                    continue  # the two bounds of a range compared with each other: an emptiness test, no instant involved
                op = n["op"] if side == 1 else FLIP.get(n["op"], n["op"])   # normalised: y OP field
                nsites += 1
                R.saw(fn)
                allowed = (">=", "<")
                site = "%s %s .%s" % (expr_text(y), op, x["n"])
                if op in allowed:
                    R.ob(rule, "%s: %s" % (fn.name, site), True,
                         sample={"rule": rule, "site": fn.where(n), "cmp": expr_text(n)})
                else:
                    R.finding(rule, fn, "compare %s" % site,
                              "a transition range is half-open [prev, next): `%s` treats the bound as %s; at the exact "
                              "transition instant the neighbouring range's offset would be used"
                              % (expr_text(n), "inclusive on the right" if x["n"] == "next" else "exclusive on the left"), n)
    return nsites


# ----------------------------------------------------------------------------- byte readers
def byte_readers(P, R, rule):
    tu = P.tu("tzraw.c")
    want = {"RDU32": 4, "RDI32": 4, "RDI64": 8}
    for name, nbytes in want.items():
        fn = tu.func(name)
        if fn is None:
            raise AnalysisBroken("%s: reader %s vanished" % (rule, name))
        R.saw(fn)
        pairs = []
        for n in fn.walk():
            if n.get("k") == "BinaryOperator" and n.get("op") == "<<":
                a, sh = strip(n["c"][0]), const_of(n["c"][1])
                while a is not None and a.get("k") in CASTS:
                    a = strip(a["c"][0])
                if a is not None and a.get("k") == "ArraySubscriptExpr":
                    idx = const_of(a["c"][1])
                    pairs.append((idx, sh))
        exp = [(i, 8 * (nbytes - 1 - i)) for i in range(nbytes)]
        if sorted(pairs) == exp:
            R.ob(rule, "%s reads %d big-endian bytes" % (name, nbytes), True,
                 sample={"rule": rule, "reader": name, "byte->shift": pairs})
        else:
            R.finding(rule, fn, "byte/shift table", "%s combines bytes with (index, shift) = %s; big-endian needs %s"
                      % (name, sorted(pairs), exp))
    return len(want)


# ----------------------------------------------------------------------------- validity of the cached range
def cache_validity(P, R, rule):
    """The lookup cache of a zone starts out zeroed (zif_open's allocation), which is the empty range [0, 0) of transition 0: it
    answers nothing (the hit test fails) but it is not a range of the table either.  Two consequences are checked:
     (a) __offs may narrow the search with the cached transition number only when the cache holds a range -- every read of
         cache.trno is guarded by a comparison of the cache's two bounds with each other (an emptiness test);
     (b) __find_zrng may hand out (and so cache) the whole time line [MIN, MAX) only for a zone without transitions: in the branch
         that sets prev to the smallest stamp, an assignment of the largest stamp to next is guarded by a test of the number of
         transitions -- `not found in the narrowed part` must not become `the same offset for ever'."""
    from core import walk
    tu = P.tu("tzraw.c")
    fo, fz = tu.func("__offs"), tu.func("__find_zrng")
    if fo is None or fz is None:
        raise AnalysisBroken("%s: __offs / __find_zrng vanished" % rule)
    R.saw(fo)
    R.saw(fz)
    n = 0

    def is_bound(e, which=("prev", "next")):
        e = strip(e)
        return e is not None and e.get("k") == "MemberExpr" and e.get("n") in which and \
            (fo.tu.recs_by_id.get(e.get("rec")) or {}).get("name") == "zrng_s"
    for x in fo.walk():
        if x.get("k") != "MemberExpr" or x.get("n") != "trno":
            continue
        b = strip(x["c"][0]) if x.get("c") else None
        if b is None or b.get("k") != "MemberExpr" or b.get("n") != "cache":
            continue
        n += 1
        guarded = False
        for g in guards_of(fo, x):
            c = strip(g.get("cond"))
            if c is not None and c.get("k") == "BinaryOperator" and c.get("op") in ("<", "<=", ">", ">=", "==", "!=") and \
                    is_bound(c["c"][0]) and is_bound(c["c"][1]) and strip(c["c"][0]).get("n") != strip(c["c"][1]).get("n"):
                guarded = True
        site = "__offs: search narrowed with cache.trno at %s" % fo.where(x)
        if guarded:
            R.ob(rule, site + " only when the cache holds a range", True)
        else:
            R.finding(rule, fo, "narrowing with cache.trno in `%s`" % expr_text(fo.parent(x))[:40], "the search is narrowed with the cached "
                      "transition number without a test that the cache holds a range: the zeroed cache of a freshly opened zone is the empty "
                      "range [0, 0) of transition 0, so the first look-up of an instant >= 0 skips transition 0 and one < 0 searches nothing; "
                      "the miss is then cached (see (b)) and answers every later look-up", x)
    # (b)
    smin = [x for x in fz.walk() if x.get("k") == "BinaryOperator" and x.get("op") == "=" and strip(x["c"][0]).get("k") == "MemberExpr"
            and strip(x["c"][0]).get("n") == "prev" and const_of(x["c"][1]) is not None and const_of(x["c"][1]) < 0]
    if not smin:
        raise AnalysisBroken("%s: the `before the first transition' branch of __find_zrng was not recognised" % rule)
    for pm in smin:
        # the branch (then/else of the nearest if) the assignment sits in
        br, par = pm, fz.parent(pm)
        while par is not None and par.get("k") != "IfStmt":
            br, par = par, fz.parent(par)
        if par is None:
            raise AnalysisBroken("%s: unguarded `prev = smallest stamp' in __find_zrng" % rule)
        for x in walk(br):
            if x.get("k") == "BinaryOperator" and x.get("op") == "=" and strip(x["c"][0]).get("k") == "MemberExpr" and \
                    strip(x["c"][0]).get("n") == "next" and const_of(x["c"][1]) is not None and const_of(x["c"][1]) > 0:
                n += 1
                ok = any("ntr" in expr_text(strip(g.get("cond"))) for g in guards_of(fz, x) if g.get("cond") is not None)
                if ok:
                    R.ob(rule, "__find_zrng: the whole time line is handed out only for a zone without transitions", True)
                else:
                    R.finding(rule, fz, "range [MIN, MAX) at %s" % fz.where(x), "a search that finds nothing hands out the whole time line "
                              "[smallest stamp, largest stamp) whether or not the zone has transitions; __offs caches it, and every later "
                              "look-up on that zone gets this one offset: `dconv --zone Europe/Berlin 1960-06-01T00:00:00 "
                              "2012-06-01T00:00:00` prints +01:00 for the second instant", x)
    return n
