"""RF-fresh: a looked-up period length is used for the period it was looked up for.

For every local L that receives LEN(args) with LEN one of the period-length functions, every later read of L (before L is assigned
again, in source order) must not be preceded -- after the look-up -- by a write to anything the arguments read: otherwise, on the
path through that write, L is the length of a period the value is no longer in (a month length taken before the year moves on, a
year length taken before the week count wraps).  Source order stands in for control flow: the routines concerned are loop free
between look-up and use, or look the length up again in the loop condition on every turn."""
from core import strip, kids, walk, call_args, expr_text, CASTS

LEN_FUNCS = ("__get_mdays", "__get_bdays", "__get_isowk", "__get_ydays", "__get_mcnt", "__get_jan01_wday", "__get_m01_wday")


def _u(e):
    e = strip(e)
    while e is not None and e.get("k") in CASTS and e.get("c"):
        e = strip(e["c"][0])
    return e


def _writes(fn):
    out = []
    for x in fn.walk():
        if (x.get("k") == "BinaryOperator" and x.get("op") == "=") or x.get("k") == "CompoundAssignOperator" or \
                (x.get("k") == "UnaryOperator" and x.get("op") in ("++", "--")):
            t = _u(x["c"][0])
            if t is not None:
                out.append((x, t))
    return out


def _blk(fn, node):
    cfg = fn.cfg
    n = node
    while n is not None:
        if "i" in n:
            b = cfg.stmt_block(n["i"])
            if b is not None:
                return b
        n = fn.parent(n)
    return None


def _flows(fn, a, b):
    """control can go from node a to node b (a executed first)"""
    ba, bb = _blk(fn, a), _blk(fn, b)
    if ba is None or bb is None:
        return a["i"] < b["i"]
    if ba[0] == bb[0]:
        if ba[1] < bb[1]:
            return True
        # same block, b before a: only around a loop
        return any(ba[0] in fn.cfg.reachable_from(s_) for s_ in fn.cfg.succs[ba[0]])
    return any(bb[0] in fn.cfg.reachable_from(s_) for s_ in fn.cfg.succs[ba[0]])


def check_unit(R, tu, rule, only_file=None):
    """run the rule over every function of a unit (optionally only those defined in one source file); returns the uses examined"""
    total = 0
    fl = tu.functions.values() if isinstance(tu.functions, dict) else tu.functions
    for fn in fl:
        if getattr(fn, "body", None) is None or (only_file and not fn.file.endswith(only_file)):
            continue
        found, uses = stale_lengths(fn)
        total += uses
        seen = set()
        for d_, u_, w_, hit in found:
            if (d_["i"], w_["i"]) in seen:
                continue
            seen.add((d_["i"], w_["i"]))
            R.saw(fn)
            src = d_["c"][1] if d_.get("k") == "BinaryOperator" else (kids(d_)[0] if kids(d_) else d_)
            R.finding(rule, fn, "`%s` used after `%s`" % (expr_text(_u(src))[:40], expr_text(w_)),
                      "the period length looked up at %s is used at %s after `%s` (%s) has changed `%s`, which the look-up read: on that path "
                      "it is the length of a period the value is no longer in (a length taken once before a loop that moves on, say)"
                      % (fn.where(d_), fn.where(u_), expr_text(w_), fn.where(w_), hit), u_)
        if uses and not found:
            R.ob(rule, "%s: %d uses of looked-up period lengths, each for the period it was looked up for" % (fn.name, uses), True)
    return total


def _path(fn, src, dst, kill=None):
    if kill is not None and not isinstance(kill, (set, frozenset)):
        kill = {tuple(kill)}
    return _path_k(fn, src, dst, kill)


def _path_k(fn, src, dst, kill):
    """is there a control-flow path from just after element `src` to element `dst` that does not execute element `kill`?
    positions are (block, index) pairs of CFG elements"""
    cfg = fn.cfg
    if src is None or dst is None:
        return False
    seen = set()
    work = [(src[0], src[1] + 1)]
    while work:
        b, i = work.pop()
        if (b, i) in seen:
            continue
        seen.add((b, i))
        n = len(cfg.blocks[b]["e"])
        while i < n:
            if kill is not None and (b, i) in kill:
                break
            if (b, i) == tuple(dst):
                return True
            i += 1
        else:
            for s_ in cfg.succs[b]:
                work.append((s_, 0))
    return False


def stale_lengths(fn, funcs=LEN_FUNCS):
    """yields (definition node, use node, write node, argument text) for every stale use; also returns the number of uses examined"""
    writes = _writes(fn)
    defs = []
    for x in fn.walk():
        call = target = None
        if x.get("k") == "BinaryOperator" and x.get("op") == "=":
            r, l = _u(x["c"][1]), _u(x["c"][0])
            if r is not None and r.get("k") == "CallExpr" and r.get("callee") in funcs and l is not None and l.get("k") == "DeclRefExpr":
                call, target = r, l["d"]
        elif x.get("k") == "Var" and kids(x):
            r = _u(kids(x)[0])
            if r is not None and r.get("k") == "CallExpr" and r.get("callee") in funcs:
                call, target = r, x["d"]
        if call is not None:
            defs.append((x, call, target))
    alldefs = {}
    for x, t in writes:
        if t.get("k") == "DeclRefExpr":
            alldefs.setdefault(t["d"], []).append(x["i"])
    found, nuses = [], 0
    for dnode, call, target in defs:
        # what the arguments read
        reads_txt, reads_d = set(), set()
        for a in call_args(call):
            for y in walk(a):
                if y.get("k") == "MemberExpr":
                    reads_txt.add(expr_text(y))
                elif y.get("k") == "DeclRefExpr" and y.get("dk") in ("var", "parm"):
                    reads_d.add(y["d"])
        nxt = min([i for i in alldefs.get(target, []) if i > dnode["i"]] or [10 ** 12])
        kills = set()
        for x_, t_ in writes:
            if t_.get("k") == "DeclRefExpr" and t_.get("d") == target:
                pk = _blk(fn, x_)
                if pk is not None:
                    kills.add(tuple(pk))
        pdn = _blk(fn, dnode)
        if pdn is not None:
            kills.add(tuple(pdn))
        for u in fn.walk():
            if u.get("k") == "DeclRefExpr" and u.get("d") == target and u.get("i", 0) != dnode.get("i") and not any(y is u for y in walk(dnode)):
                par = fn.parent(u)
                if par is not None and par.get("k") in ("BinaryOperator",) and par.get("op") == "=" and _u(par["c"][0]) is u:
                    continue
                if par is not None and (par.get("k") == "CompoundAssignOperator" or (par.get("k") == "UnaryOperator" and par.get("op") in ("++", "--"))) \
                        and _u(par["c"][0]) is u:
                    continue    # the length itself is being adjusted (kept in step by hand): a re-definition, not a use
                nuses += 1
                for w, t in writes:
                    if w is dnode or any(y is w for y in walk(call)):
                        continue
                    pd, pw, pu = _blk(fn, dnode), _blk(fn, w), _blk(fn, u)
                    if pd is None or pw is None or pu is None:
                        if not (call["i"] < w["i"] < u["i"]):
                            continue
                    elif not (_path(fn, pd, pw) and _path(fn, pw, pu, kill=kills)):
                        # the write is not between the look-up and the use on any path that does not look the length up again
                        continue
                    hit = None
                    if t.get("k") == "MemberExpr":
                        tt = expr_text(t)
                        # a write to the field itself or to a record holding it
                        for r in reads_txt:
                            if r == tt or r.startswith(tt + "."):
                                hit = r
                    elif t.get("k") == "DeclRefExpr":
                        if t["d"] in reads_d:
                            hit = t.get("n")
                        else:
                            for r in reads_txt:
                                if r == t.get("n") or r.startswith(str(t.get("n")) + "."):
                                    hit = r
                    if hit:
                        found.append((dnode, u, w, hit))
                        break
    return found, nuses
