"""C12 — time-zone conversion follows the zone file for every zone and instant.

 RF3-index     transition indices are never stored/converted narrower than 32 bits (struct zrng_s.trno, casts)
 RF13-progress the bisection over the transition table moves a bound strictly on every non-returning path
 RF13-found    searches return their probe index only after the interval test held for it
 RF-halfopen   [prev, next) discipline of struct zrng_s (cache hit test, range construction)
 RF2-rd        big-endian readers RDU32/RDI32/RDI64
 RF2-tzif      TZif record sizes used by zif_open (v1 block skip, v2/v1 data walk, header count fields)
 RF-fixpoint   zif_utc_time returns t - x only for x = offs(t - x') with the iteration ending on x == x'; zif_local_time is t + offs(t)
 RF9-glue      dtz_forgetz / dtz_enrichz: direction of the zone call, sign of the difference, which sign sets .neg
"""
from core import (AnalysisBroken, strip, kids, const_of, call_args, expr_text, walk, origins, switch_cases, guards_of,
                  norm_cond, CASTS)
import tzrules


def _hdr_field_by_offset(tu):
    rec = tu.record("zih_s")
    if rec is None:
        raise AnalysisBroken("RF2-tzif: struct zih_s vanished")
    return {f["off"] // 8: f["n"] for f in rec["fields"]}, rec["size"]


def _linear(fn, e, hdrf):
    """-> (symbol, coefficient) for c, S, S*c, c*S where S is a count member or RDU32(hdr + offsetof(field))"""
    e = strip(e)
    if e is None:
        return None
    c = const_of(e)
    if c is not None:
        return ("const", c)
    if e.get("k") == "BinaryOperator" and e.get("op") == "*":
        a, b = strip(e["c"][0]), strip(e["c"][1])
        ca, cb = const_of(a), const_of(b)
        if ca is not None and cb is None:
            s = _linear(fn, b, hdrf)
            return (s[0], s[1] * ca) if s else None
        if cb is not None and ca is None:
            s = _linear(fn, a, hdrf)
            return (s[0], s[1] * cb) if s else None
        return None
    if e.get("k") == "MemberExpr":
        return (e.get("n"), 1)
    if e.get("k") == "DeclRefExpr":
        return (e.get("n"), 1)
    if e.get("k") == "CallExpr" and e.get("callee") in ("RDU32", "RDI32"):
        a = strip(call_args(e)[0])
        if a is not None and a.get("k") == "BinaryOperator" and a.get("op") == "+":
            off = const_of(a["c"][1])
            if off is None:
                off = const_of(a["c"][0])
            if off in hdrf:
                return (hdrf[off], 1)
    return None


def check_tzif(P, R):
    rule = "RF2-tzif"
    tu = P.tu("tzraw.c")
    fn = tu.func("zif_open")
    if fn is None:
        raise AnalysisBroken("zif_open vanished")
    R.saw(fn)
    hdrf, hdrsz = _hdr_field_by_offset(tu)
    if hdrsz != 44:
        R.finding(rule, fn, "sizeof(struct zih_s)", "TZif header is 44 bytes, struct zih_s is %d" % hdrsz)
    else:
        R.ob(rule, "struct zih_s is the 44-byte TZif header", True)
    exp_off = {0: "tzh_magic", 4: "tzh_version", 5: "tzh_reserved", 20: "tzh_ttisgmtcnt", 24: "tzh_ttisstdcnt",
               28: "tzh_leapcnt", 32: "tzh_timecnt", 36: "tzh_typecnt", 40: "tzh_charcnt"}
    if hdrf != exp_off:
        R.finding(rule, fn, "layout of struct zih_s", "header field offsets %s differ from the TZif layout %s" % (hdrf, exp_off))
    else:
        R.ob(rule, "zih_s field offsets", True)
    sws = [s for s in fn.switches()]
    vsw = []
    def is_version_byte(c):
        return c is not None and c.get("k") == "ArraySubscriptExpr" and const_of(c["c"][1]) == 4
    vvars = set()
    for s in sws:
        c = strip(s["c"][0])
        if c is not None and c.get("k") == "BinaryOperator" and c.get("op") == "=" and is_version_byte(strip(c["c"][1])):
            # switch ((ver = hdr[4])): the version is kept in a variable
            vvars.add(strip(c["c"][0]).get("d"))
            vsw.append(s)
        elif is_version_byte(c):
            vsw.append(s)
        elif c is not None and c.get("k") == "DeclRefExpr" and c.get("d") in vvars:
            vsw.append(s)
    if len(vsw) != 2:
        # the version dispatch is not written as two switches (an if chain, say): which block of which version is decoded with which
        # width is then a matter of the values, which RF2-zifopen decides by folding zif_open on version 1 and version 2 images
        # (the latter with a deliberately different version 1 block in front); the structural comparison is not applied
        R.notes.append("%s: the version dispatch of zif_open is not two switches on the version byte (%d found): structural "
                       "comparison not applied, decided by RF2-zifopen" % (rule, len(vsw)))
        return
    want_counts = {"nlp": "tzh_leapcnt", "ntr": "tzh_timecnt", "nty": "tzh_typecnt"}

    def group_facts(stmts):
        incr, readers, counts, memcpys = {}, [], {}, []
        for st in stmts:
            for n in walk(st):
                k = n.get("k")
                if k == "CompoundAssignOperator" and n.get("op") == "+=":
                    lv = strip(n["c"][0])
                    if lv is not None and lv.get("k") == "DeclRefExpr" and (fn.tu.types[lv["t"]].get("ptr") or fn.tu.types[lv["t"]].get("int")):
                        # a cursor into the file image, or the offset variable that is added to it
                        lf = _linear(fn, n["c"][1], hdrf)
                        if lf is None:
                            raise AnalysisBroken("%s: pointer advance `%s` not in linear form" % (rule, expr_text(n)))
                        incr[lf[0]] = incr.get(lf[0], 0) + lf[1]
                elif k == "BinaryOperator" and n.get("op") == "=":
                    lv = strip(n["c"][0])
                    lf = _linear(fn, n["c"][1], hdrf)
                    r = strip(n["c"][1])
                    if lv is not None and lv.get("k") == "MemberExpr" and lv.get("n") in want_counts and r is not None \
                            and r.get("k") == "CallExpr" and r.get("callee") == "RDU32" and lf:
                        counts[lv["n"]] = lf[0]
                elif k == "CallExpr" and n.get("callee") in ("RDI64", "RDI32", "RDU32"):
                    a = strip(call_args(n)[0])
                    if a is not None and a.get("k") == "BinaryOperator" and a.get("op") == "+":
                        y = strip(a["c"][1])
                        if y is not None and y.get("k") == "BinaryOperator" and y.get("op") == "*":
                            c = const_of(y["c"][0])
                            if c is None:
                                c = const_of(y["c"][1])
                            other = strip(y["c"][1]) if const_of(y["c"][0]) is not None else strip(y["c"][0])
                            if c is not None and other is not None and other.get("k") == "DeclRefExpr" and const_of(other) is None:
                                readers.append((n["callee"], c))
                elif k == "CallExpr" and n.get("callee") == "memcpy":
                    lf = _linear(fn, call_args(n)[2], hdrf)
                    memcpys.append(lf)
        return incr, readers, counts, memcpys

    def labels_of(g):
        return sorted(l["lo"] for l in g["labels"] if l["lo"] is not None)

    # ---- first switch: v2+ skips the v1 block, then both read the counts
    groups = switch_cases(vsw[0])
    g2 = [g for g in groups if ord("2") in labels_of(g) or ord("3") in labels_of(g)]
    g1 = [g for g in groups if 0 in labels_of(g)]
    if not g2 or not g1:
        raise AnalysisBroken("%s: version cases '2'/'3'/'\\0' not found" % rule)
    stm2 = [s for g in g2 for s in g["stmts"]]
    incr, _, counts, _ = group_facts(stm2)
    exp_skip = {"const": 44, "ntr": 5, "nty": 6, "tzh_charcnt": 1, "nlp": 8, "tzh_ttisstdcnt": 1, "tzh_ttisgmtcnt": 1}
    if incr == exp_skip:
        R.ob(rule, "v1 block skipped with v1 record sizes", True, sample={"rule": rule, "skip": incr})
    else:
        R.finding(rule, fn, "v1 block skip",
                  "the 32-bit block of a version-2+ file is header(44) + 4*timecnt + timecnt + 6*typecnt + charcnt + "
                  "8*leapcnt + isstdcnt + isgmtcnt bytes; zif_open advances by %s" % incr, g2[0]["stmts"][0])
    for where, cc in (("v2 pre-read", counts), ("header read", group_facts([s for g in g1 for s in g["stmts"]])[2])):
        if cc == want_counts:
            R.ob(rule, "%s: counts come from leapcnt/timecnt/typecnt" % where, True)
        else:
            R.finding(rule, fn, "%s of counts" % where, "count fields read from %s, expected %s" % (cc, want_counts))
    if not all(g.get("falls") for g in g2[-1:]) and g2[-1] is not g1[0]:
        pass
    # the '2'/'3' group must fall through into the '\0' group (second header is read with the same code)
    if g2[-1] is not g1[0] and not g2[-1].get("falls"):
        R.finding(rule, fn, "v2 fallthrough", "after skipping the v1 block the v2 header must be read by the common code")
    else:
        R.ob(rule, "v2 header read by the common code", True)
    # ---- second switch: data walk
    groups = switch_cases(vsw[1])
    for ver, lab, exp_r, exp_i in (("v2", ord("2"), [("RDI64", 8), ("RDI32", 6)], {"ntr": 9}),
                                   ("v1", 0, [("RDI32", 4), ("RDI32", 6)], {"ntr": 5})):
        gs = [g for g in groups if lab in labels_of(g)]
        if not gs:
            raise AnalysisBroken("%s: data walk case for %s not found" % (rule, ver))
        incr, readers, _, memcpys = group_facts(gs[0]["stmts"])
        ok = readers == exp_r and incr == exp_i and memcpys == [("ntr", 1)]
        if ok:
            R.ob(rule, "%s data walk uses %s" % (ver, exp_r), True, sample={"rule": rule, "version": ver, "readers": readers, "advance": incr})
        else:
            R.finding(rule, fn, "%s data walk" % ver,
                      "%s data block: transitions/types/ttinfo must be read as %s with cursor advance %s and a type copy of "
                      "timecnt bytes; found readers %s advance %s copy %s" % (ver, exp_r, exp_i, readers, incr, memcpys),
                      gs[0]["stmts"][0])


def check_glue(P, R):
    rule = "RF9-glue"
    tu = P.tu("dt-core-tz-glue.c")
    spec = {"dtz_forgetz": ("zif_utc_time", "zif_local_time", ">"),
            "dtz_enrichz": ("zif_local_time", "zif_utc_time", "<")}
    for name, (want, other, negop) in spec.items():
        fn = tu.func(name)
        if fn is None:
            raise AnalysisBroken("%s vanished" % name)
        R.saw(fn)
        calls = [c.get("callee") for c in fn.calls()]
        if want in calls and other not in calls:
            R.ob(rule, "%s converts with %s" % (name, want), True)
        else:
            R.finding(rule, fn, "zone call", "%s must convert with %s (and not %s)" % (name, want, other))
        # zdiff = converted - original
        zd = None
        for n in fn.walk():
            if n.get("k") == "BinaryOperator" and n.get("op") == "=":
                l = strip(n["c"][0])
                r = strip(n["c"][1])
                if l is not None and l.get("k") == "DeclRefExpr" and r is not None and r.get("k") == "BinaryOperator" and r.get("op") == "-":
                    oa, ob = origins(fn, r["c"][0], through_calls=False), origins(fn, r["c"][1], through_calls=False)
                    if ("call", want) in oa | ob:
                        zd = (l, r, oa, ob, n)
        if zd is None:
            raise AnalysisBroken("%s: zdiff computation in %s not recognised" % (rule, name))
        l, r, oa, ob, node = zd
        if ("call", want) in oa and ("call", want) not in ob and ("call", "dt_to_unix_epoch") in ob:
            R.ob(rule, "%s: difference is converted - original" % name, True, sample={"rule": rule, "fn": name, "zdiff": expr_text(r)})
        else:
            R.finding(rule, fn, "zdiff orientation", "zdiff must be (zone-converted stamp) - (original stamp); found %s" % expr_text(r), node)
        # .neg = 1 under the right sign test; zdiff stored as magnitude / ZDIFF_RES
        okneg = False
        for n in fn.walk():
            if n.get("k") == "BinaryOperator" and n.get("op") == "=":
                lv = strip(n["c"][0])
                if lv is not None and lv.get("k") == "MemberExpr" and lv.get("n") == "neg" and const_of(n["c"][1]) == 1:
                    gs = [norm_cond(g["cond"], g["pol"]) for g in guards_of(fn, n) if "pol" in g]
                    if (negop, l["n"], "0") in gs:
                        okneg = True
                    else:
                        R.finding(rule, fn, ".neg guard", "%s sets .neg under %s; expected `%s %s 0`" % (name, gs, l["n"], negop), n)
                        okneg = None
        if okneg:
            R.ob(rule, "%s: .neg set iff %s %s 0" % (name, l["n"], negop), True)
        elif okneg is False:
            R.finding(rule, fn, ".neg store", "%s never records the sign of the offset" % name)
        # duration handed to dt_dtadd is seconds = zdiff
        okadd = False
        for c in fn.calls("dt_dtadd"):
            for x in walk(c):
                if x.get("k") == "InitListExpr" or x.get("k") == "CompoundLiteralExpr":
                    txt = [const_of(y) for y in walk(x) if const_of(y) is not None]
                    og = origins(fn, x)
                    durs = fn.tu.enum_value("DT_DURS")
                    if durs in txt and ("call", want) in og:
                        okadd = True
        if okadd:
            R.ob(rule, "%s shifts by zdiff seconds (DT_DURS)" % name, True)
        else:
            R.finding(rule, fn, "dt_dtadd duration", "%s must add a DT_DURS duration carrying zdiff" % name)


def check(P, R, tier):
    import zifdecode
    nz = zifdecode.run(R, P, "RF2-zifopen")
    R.floor("RF2-zifopen", "decoded loads and offset lookups on synthetic zone files", nz, 100)
    n = tzrules.index_narrowing(P, R, "RF3-index", ["tzraw.c"],
                                sources_calls={"__find_trno", "zif_find_trans"}, sources_members={"ntr", "trno"},
                                field_floor=[("zrng_s", "trno", 31)])
    R.floor("RF3-index", "index fields / narrowing candidates", n, 1)
    tu = P.tu("tzraw.c")
    ft = tu.func("__find_trno")
    if ft is None:
        raise AnalysisBroken("__find_trno vanished")
    R.saw(ft)
    nb = tzrules.bisection_progress(ft, R, "RF13-progress")
    R.floor("RF13-progress", "bisection loops in __find_trno", nb, 1)
    # the probe index is returned only under the interval test
    check_find_trno_returns(ft, R)
    nh = tzrules.halfopen_ranges(P, R, "RF-halfopen")
    R.floor("RF-halfopen", "comparisons against zrng_s bounds", nh, 4)
    tzrules.byte_readers(P, R, "RF2-rd")
    check_tzif(P, R)
    check_glue(P, R)
    check_find_zrng(P, R)
    check_fixpoint(P, R)
    import zonedecode
    nz = zonedecode.run(R, P, "RF2-zone")
    R.floor("RF2-zone", "decoded (zone, cache state, instant) points of the offset lookup", nz, 40000)
    nv = tzrules.cache_validity(P, R, "RF7c-valid")
    R.floor("RF7c-valid", "narrowing reads of the cache / whole-time-line ranges", nv, 2)


def check_fixpoint(P, R):
    """RF-fixpoint: a zone's offset is a function of the UTC instant.  zif_local_time may look it up at its argument (a UTC stamp);
    zif_utc_time gets a local stamp and has to look the offset up at `t - offset`, i.e. solve x = offs(t - x): every value it returns
    for a non-null zone is t - x with x the result of a look-up at t minus an earlier estimate, and it leaves the iteration only
    when two successive estimates agree (or start to oscillate).  A look-up at the local stamp itself is off by the offset -- wrong
    wherever a transition (a leap second for TAI / GPS) lies within that distance."""
    rule = "RF-fixpoint"
    tu = P.tu("tzraw.c")
    fn = tu.func("zif_utc_time")
    loc = tu.func("zif_local_time")
    if fn is None or loc is None:
        raise AnalysisBroken("zif_utc_time / zif_local_time vanished")
    R.saw(fn)
    R.saw(loc)
    zp, tp = fn.params[0]["d"], fn.params[1]["d"]

    def is_t(e):
        e = strip(e)
        return e is not None and e.get("k") == "DeclRefExpr" and e.get("d") == tp

    def lookup_arg(call):
        """the stamp an __offs call looks up: ('t', None) for t itself, ('t-', decl) for t - <variable>"""
        a = strip(call_args(call)[1])
        if is_t(a):
            return ("t", None)
        if a is not None and a.get("k") == "BinaryOperator" and a.get("op") == "-" and is_t(a["c"][0]):
            v = strip(a["c"][1])
            if v is not None and v.get("k") == "DeclRefExpr":
                return ("t-", v["d"])
        return ("?", None)
    n = 0
    for r in fn.walk():
        if r.get("k") != "ReturnStmt" or not kids(r):
            continue
        rv = strip(kids(r)[0])
        if is_t(rv):
            # the null-zone exit: identity
            gs = guards_of(fn, r)
            continue
        n += 1
        site = "return `%s`" % expr_text(rv)[:50]
        good = False
        why = "it is not of the form t - offset"
        if rv is not None and rv.get("k") == "BinaryOperator" and rv.get("op") == "-" and is_t(rv["c"][0]):
            x = strip(rv["c"][1])
            if x is not None and x.get("k") == "CallExpr" and x.get("callee") == "__offs":
                kind, _ = lookup_arg(x)
                why = "the offset is looked up at %s" % ("the local stamp itself" if kind == "t" else "an unrecognised stamp")
            elif x is not None and x.get("k") == "DeclRefExpr":
                # every definition of x is a look-up at t - <estimate>, inside a loop that ends when x equals that estimate
                defs = [d_ for d_ in fn.walk() if d_.get("k") == "BinaryOperator" and d_.get("op") == "=" and strip(d_["c"][0]).get("d") == x["d"]]
                inits = [v for v in fn.walk() if v.get("k") == "Var" and v.get("d") == x["d"] and kids(v)]
                if defs and not inits and all(strip(d_["c"][1]).get("callee") == "__offs" and lookup_arg(strip(d_["c"][1]))[0] == "t-" for d_ in defs):
                    est = {lookup_arg(strip(d_["c"][1]))[1] for d_ in defs}
                    loops = [w for w in fn.walk() if w.get("k") in ("WhileStmt", "DoStmt", "ForStmt") and any(y is defs[0] for y in walk(w))]
                    cmp_ok = False
                    for w in loops:
                        for c in walk(w["c"][0] if w["k"] == "WhileStmt" else w["c"][1]):
                            if c.get("k") == "BinaryOperator" and c.get("op") in ("!=", "=="):
                                ids = set()
                                for side in c["c"]:
                                    sd = strip(side)
                                    if sd is not None and sd.get("k") == "BinaryOperator" and sd.get("op") == "=":
                                        sd = strip(sd["c"][0])
                                    if sd is not None and sd.get("k") == "DeclRefExpr":
                                        ids.add(sd.get("d"))
                                if x["d"] in ids and ids & est:
                                    cmp_ok = True
                    good = cmp_ok
                    why = "the iteration does not end on two equal successive estimates" if not cmp_ok else ""
                else:
                    why = "the returned offset is not (only) the result of a look-up at t minus an estimate"
        if good:
            R.ob(rule, "zif_utc_time %s: the offset is the fixed point of x = offs(t - x)" % site, True)
        else:
            R.finding(rule, fn, site, "a local stamp is turned into UTC with an offset that was not looked up at the UTC instant: %s; within one "
                      "offset of a transition (of a leap second for the TAI / GPS zones) the neighbouring range's offset is applied" % why, r)
    R.floor(rule, "non-trivial returns of zif_utc_time", n, 1)
    # the other direction looks up at its argument
    zt = loc.params[1]["d"]
    okl = False
    for r in loc.walk():
        if r.get("k") == "ReturnStmt" and kids(r):
            rv = strip(kids(r)[0])
            if rv is not None and rv.get("k") == "BinaryOperator" and rv.get("op") == "+":
                a, b = strip(rv["c"][0]), strip(rv["c"][1])
                if a is not None and a.get("d") == zt and b is not None and b.get("callee") == "__offs" and strip(call_args(b)[1]).get("d") == zt:
                    okl = True
    if okl:
        R.ob(rule, "zif_local_time: t + offs(t)", True)
    else:
        R.finding(rule, loc, "return", "zif_local_time must return its UTC argument plus the offset looked up at that argument")


def check_find_trno_returns(fn, R):
    """`return this` must be guarded by lo <= key < up on elements this and this+1; the pre-checks must send keys at or
    beyond the last transition to the last index without entering the loop (the table is clamped beyond its end)."""
    rule = "RF13-found"
    ok = False
    for n in fn.walk():
        if n.get("k") == "ReturnStmt" and kids(n):
            rv = strip(kids(n)[0])
            if rv is not None and rv.get("k") == "DeclRefExpr" and rv.get("dk") == "var":
                gs = [norm_cond(g["cond"], g["pol"]) for g in guards_of(fn, n) if "pol" in g]
                ops = sorted(op for op, a, b in gs if a == "t")
                if ">=" in ops and "<" in ops:
                    ok = True
                    R.ob(rule, "__find_trno returns the probe only under tl <= t < tu", True)
                else:
                    R.finding(rule, fn, "return %s" % rv["n"], "probe index returned without the half-open interval test (guards: %s)" % gs, n)
    if not ok:
        raise AnalysisBroken("%s: `return <probe>` of __find_trno not recognised" % rule)
    # pre-check: t at/after the table's last entry must not enter the loop, because zif_trans() clamps indices
    # beyond the end to the last transition and the interval [trs[n-1], trs[n-1]) is empty
    pre = None
    for n in fn.walk():
        if n.get("k") == "ReturnStmt" and kids(n):
            rv = strip(kids(n)[0])
            if rv is not None and rv.get("k") == "BinaryOperator" and rv.get("op") == "-" and const_of(rv["c"][1]) == 1:
                for g in guards_of(fn, n):
                    if "pol" not in g or not g["pol"]:
                        continue
                    op, a, b = norm_cond(g["cond"], True)
                    if a == "t" and b.startswith("zif_trans(") and op in (">", ">="):
                        pre = (op, n)
    if pre is None:
        raise AnalysisBroken("%s: upper pre-check of __find_trno not recognised" % rule)
    if pre[0] == ">=":
        R.ob(rule, "keys at the last transition are answered before the loop", True)
    else:
        R.finding(rule, fn, "upper pre-check", "a key equal to the last transition enters the loop, where the clamped "
                  "interval [last, last) is empty and can never be found: the search does not terminate", pre[1])


def check_find_zrng(P, R):
    """the range handed out is built from one index: prev = trans(trno), next = trans(trno + 1), offs = offs(trno)"""
    rule = "RF11-zrng"
    tu = P.tu("tzraw.c")
    fn = tu.func("__find_zrng")
    if fn is None:
        raise AnalysisBroken("__find_zrng vanished")
    R.saw(fn)
    facts = {}
    for n in fn.walk():
        if n.get("k") == "BinaryOperator" and n.get("op") == "=":
            l = strip(n["c"][0])
            r = strip(n["c"][1])
            if l is not None and l.get("k") == "MemberExpr" and l.get("n") in ("prev", "next", "offs") and r is not None \
                    and r.get("k") == "CallExpr":
                item = (r.get("callee"), expr_text(call_args(r)[1]) if len(call_args(r)) > 1 else "")
                # the range before the first transition (index -1) ends where transition 0 begins: trans(-1 + 1) spelled trans(0)
                if l["n"] == "next" and item == ("zif_trans", "0") and any(
                        norm_cond(g["cond"], g["pol"]) == ("<", "trno", "0") for g in guards_of(fn, n) if "pol" in g):
                    item = ("zif_trans", "(trno + 1)")
                facts.setdefault(l["n"], []).append(item)
    want = {"prev": ("zif_trans", "trno"), "next": ("zif_trans", "(trno + 1)"), "offs": ("_zif_troffs", "res.trno")}
    for k, w in want.items():
        got = facts.get(k, [])
        if w in got and all(g == w for g in got):
            R.ob(rule, "%s = %s(z, %s)" % (k, w[0], w[1]), True)
        else:
            R.finding(rule, fn, "range field %s" % k, "zrng.%s must be %s(z, %s); found %s" % (k, w[0], w[1], got))


LEVEL = ("Structural decision of the mechanisms the property rests on: width of every transition-index carrier (type "
         "fact), progress and found-guard of the transition bisection (CFG reachability), half-open discipline of every "
         "comparison against a cached range, exact TZif record sizes in the loader (linear forms of the cursor advances "
         "compared with the file format), byte readers, and direction/sign agreement of the two zone glue functions. "
         "Not decided: that the offsets in a zone file are what a user expects.")
RULE = ("obligation = one rule instance at one site: an index field or narrowing cast, a bound update of the bisection, a "
        "return of a probe index, a comparison against zrng_s.prev/next, a reader, a TZif size relation, a glue relation")
ASSUME = ["TZif layout per RFC 8536 (44-byte header, 4/8-byte times, 1-byte type indices, 6-byte ttinfo, 4+4/8+4 leap records)",
          "clang-14 record layouts equal gcc's for these packed structs (both follow the SysV ABI)"]
