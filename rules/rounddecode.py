"""RF2-round: dround's date rounding decoded against its definition.

dround_ddur (src/dround.c) is folded -- the library helpers it calls folded with it -- for year-month-day dates of the 21 class
years, every target of each kind (day of the month 1..31, month 1..12, weekday 1..7), both directions and with / without --next,
and compared with the definition: the nearest date on the requested side whose field has the target value (a day that the month
lacks being that month's last day) and whose finer fields are the input's; a date already on the target stays, unless --next.
Idempotence is then checked on the decoded function itself: rounding the result again without --next returns it."""
import datetime
from core import AnalysisBroken, NotConst
import fold
import convdecode
from cmpdecode import _conv

OTHER = (("DT_YD", "yd", "__ymd_to_yd"), ("DT_YWD", "ywd", "__ymd_to_ywd"), ("DT_YMCW", "ymcw", "__ymd_to_ymcw"), ("DT_DAISY", "daisy", "__ymd_to_daisy"),
         ("DT_LDN", "ldn", ("__ymd_to_daisy", "__daisy_to_ldn")), ("DT_MDN", "mdn", ("__ymd_to_daisy", "__daisy_to_mdn")))

MD = [0, 31, 28, 31, 30, 31, 30, 31, 31, 30, 31, 30, 31]


def _leap(y):
    return int(y % 4 == 0 and (y % 100 != 0 or y % 400 == 0))


def _mdays(y, m):
    return MD[m] + (1 if m == 2 and _leap(y) else 0)


def _cand_day(y, m, k):
    return datetime.date(y, m, min(k, _mdays(y, m)))


def _round_day(d, k, forw, nxt):
    y, m = d.year, d.month
    for _ in range(40):
        c = _cand_day(y, m, k)
        if forw and (c > d or (c == d and not nxt)):
            return c
        if not forw and (c < d or (c == d and not nxt)):
            return c
        m += 1 if forw else -1
        if m > 12:
            y, m = y + 1, 1
        if m < 1:
            y, m = y - 1, 12
    raise AssertionError


def _round_mon(d, mth, forw, nxt):
    y = d.year
    for _ in range(4):
        c = datetime.date(y, mth, min(d.day, _mdays(y, mth)))
        on = (y == d.year and mth == d.month)
        if on and not nxt:
            return d
        if forw and c > d and not on:
            return c
        if not forw and c < d and not on:
            return c
        y += 1 if forw else -1
    raise AssertionError


def _round_wday(d, w, forw, nxt):
    c = d
    for _ in range(15):
        if c.isoweekday() == w and (c != d or not nxt):
            return c
        c += datetime.timedelta(days=1 if forw else -1)
    raise AssertionError


_G = {}


def _days(y, every):
    d = datetime.date(y, 1, 1)
    while d.year == y:
        if every or d.day in (1, 2, 15) or d.day >= 27:
            yield d
        d += datetime.timedelta(days=1)


def _worker(ys):
    tu, lib, E, every = _G["tu"], _G["lib"], _G["E"], _G["every"]
    fold.RESOLVE["fn"] = lambda name: lib.func(name)
    fn = tu.func("dround_ddur")
    tabs = {}

    def rnd(dd, dur, nxt):
        fo = fold.Folder(fn, calls={"serror": lambda *a: 0}, inline=True, max_steps=600000)
        fo._tabs = tabs
        r = fo.run([dd, dur, nxt])
        return (r.get("ymd.y"), r.get("ymd.m"), r.get("ymd.d")) if isinstance(r, dict) else None
    bad = {}
    n = 0
    for y in ys:
        for d in _days(y, every):
            dd = {"typ": E["DT_YMD"], "ymd.y": d.year, "ymd.m": d.month, "ymd.d": d.day}
            for nxt in (0, 1):
                for forw in (True, False):
                    for k in range(1, 32):
                        dur = {"durtyp": E["DT_DURD"], "dv": k if forw else -k, "neg": 0}
                        n += 1
                        got = rnd(dd, dur, nxt)
                        e = _round_day(d, k, forw, nxt)
                        if got != (e.year, e.month, e.day):
                            bad.setdefault("day of the month", []).append((d.isoformat(), "%s%d%s" % ("" if forw else "-", k, " --next" if nxt else ""), str(got), e.isoformat()))
                        elif not nxt:
                            # idempotence of the decoded function
                            again = rnd({"typ": E["DT_YMD"], "ymd.y": got[0], "ymd.m": got[1], "ymd.d": got[2]}, dur, 0)
                            n += 1
                            if again != got:
                                bad.setdefault("day of the month", []).append((d.isoformat(), "%s%d twice" % ("" if forw else "-", k), str(again), str(got)))
                    for mth in range(1, 13):
                        dur = {"durtyp": E["DT_DURYMD"], "ymd.m": mth, "neg": 0 if forw else 1}
                        n += 1
                        got = rnd(dd, dur, nxt)
                        e = _round_mon(d, mth, forw, nxt)
                        if got != (e.year, e.month, e.day):
                            bad.setdefault("month", []).append((d.isoformat(), "%smonth %d%s" % ("" if forw else "-", mth, " --next" if nxt else ""), str(got), e.isoformat()))
                    for w in range(1, 8):
                        dur = {"durtyp": E["DT_DURYMCW"], "ymcw.w": w, "neg": 0 if forw else 1}
                        n += 1
                        got = rnd(dd, dur, nxt)
                        e = _round_wday(d, w, forw, nxt)
                        if got != (e.year, e.month, e.day):
                            bad.setdefault("weekday", []).append((d.isoformat(), "%sweekday %d%s" % ("" if forw else "-", w, " --next" if nxt else ""), str(got), e.isoformat()))
        # ---- weekday targets for dates held in the other representations: dround_ddur converts to a day number and back, so the
        # result must be the representation (as the library's converter, decided by C01, produces it) of the expected date
        def callc(name, *args):
            fo = fold.Folder(lib.func(name), calls={}, inline=True, max_steps=400000)
            fo._tabs = tabs
            return fo.run(list(args))

        def held(dt_, tag, mem, conv):
            r = _conv(lambda t, nm, *a: callc(nm, *a), lib, conv, {"y": dt_.year, "m": dt_.month, "d": dt_.day})
            return {"typ": E[tag], mem: r} if not isinstance(r, dict) else {"typ": E[tag], **{mem + "." + k: v for k, v in r.items()}}
        for d in _days(y, False):
            if not (d.day in (1, 28) or d.day >= 30 or (d.month in (1, 12) and d.day in (2, 27, 29))):
                continue
            for tag, mem, conv in OTHER:
                dd = held(d, tag, mem, conv)
                for nxt in (0, 1):
                    for forw in (True, False):
                        for w in range(1, 8):
                            dur = {"durtyp": E["DT_DURYMCW"], "ymcw.w": w, "neg": 0 if forw else 1}
                            n += 1
                            fo = fold.Folder(fn, calls={"serror": lambda *a: 0}, inline=True, max_steps=600000)
                            fo._tabs = tabs
                            try:
                                r = fo.run([dict(dd), dur, nxt])
                            except fold.Abort as ex:
                                r = "abort: %s" % ex
                            e = _round_wday(d, w, forw, nxt)
                            exp = held(e, tag, mem, conv)
                            got = {k: v for k, v in r.items() if k == "typ" or k.startswith(mem)} if isinstance(r, dict) else r
                            if isinstance(got, dict) and tag == "DT_YMCW" and w == 7:
                                # Sunday may be spelt 0 or 7 in a month-count-weekday value
                                got = {k: (7 if k == "ymcw.w" and v == 0 else v) for k, v in got.items()}
                                exp = {k: (7 if k == "ymcw.w" and v == 0 else v) for k, v in exp.items()}
                            if got != exp:
                                bad.setdefault("weekday", []).append(("%s held as %s" % (d.isoformat(), tag), "%sweekday %d%s" % ("" if forw else "-", w, " --next" if nxt else ""),
                                                                      str(got), "%s = %s" % (e.isoformat(), exp)))
        # ---- dates held as week dates: ISO week targets; dates held as business-day dates: business-day targets
        def rnd2(dd, dur, nxt, keys):
            fo = fold.Folder(fn, calls={"serror": lambda *a: 0}, inline=True, max_steps=600000)
            fo._tabs = tabs
            r = fo.run([dd, dur, nxt])
            return tuple(r.get(k) for k in keys) if isinstance(r, dict) else None
        nwk = _isowk(y)
        for c in sorted({1, 2, 26, 52, nwk}):
            for w in (1, 4, 7):
                hang = HANG[datetime.date(y, 1, 1).isoweekday()]
                dd = {"typ": E["DT_YWD"], "ywd.y": y, "ywd.c": c, "ywd.w": w, "ywd.hang": hang}
                for nxt in (0, 1):
                    for forw in (True, False):
                        for k in range(1, 54):
                            dur = {"durtyp": E["DT_DURWK"], "dv": k if forw else -k, "neg": 0}
                            n += 1
                            got = rnd2(dd, dur, nxt, ("ywd.y", "ywd.c", "ywd.w", "ywd.hang"))
                            yy = y
                            for _ in range(4):
                                cc = min(k, _isowk(yy))
                                if (forw and ((yy, cc) > (y, c) or ((yy, cc) == (y, c) and not nxt))) or \
                                        (not forw and ((yy, cc) < (y, c) or ((yy, cc) == (y, c) and not nxt))):
                                    break
                                yy += 1 if forw else -1
                            exp = (yy, cc, w, HANG[datetime.date(yy, 1, 1).isoweekday()])
                            if got != exp:
                                bad.setdefault("ISO week", []).append(("%d-W%02d-%d" % (y, c, w), "%s%dw%s" % ("" if forw else "-", k, " --next" if nxt else ""),
                                                                       str(got), "%d-W%02d-%d with 1 January %+d days off a Monday" % exp))
        for m in (1, 2, 6, 12):
            nb = _nbdays(y, m)
            for b in sorted({1, 2, 10, 20, nb}):
                dd = {"typ": E["DT_BIZDA"], "bizda.y": y, "bizda.m": m, "bizda.bd": b}
                for nxt in (0, 1):
                    for forw in (True, False):
                        for k in range(1, 24):
                            dur = {"durtyp": E["DT_DURBD"], "dv": k if forw else -k, "neg": 0}
                            n += 1
                            got = rnd2(dd, dur, nxt, ("bizda.y", "bizda.m", "bizda.bd"))
                            yy, mm = y, m
                            for _ in range(40):
                                bb = min(k, _nbdays(yy, mm))
                                if (forw and ((yy, mm, bb) > (y, m, b) or ((yy, mm, bb) == (y, m, b) and not nxt))) or \
                                        (not forw and ((yy, mm, bb) < (y, m, b) or ((yy, mm, bb) == (y, m, b) and not nxt))):
                                    break
                                mm += 1 if forw else -1
                                if mm > 12:
                                    yy, mm = yy + 1, 1
                                if mm < 1:
                                    yy, mm = yy - 1, 12
                            if got != (yy, mm, bb):
                                bad.setdefault("business day of the month", []).append(("%d-%02d-%02db" % (y, m, b), "%s%db%s" % ("" if forw else "-", k, " --next" if nxt else ""),
                                                                                        str(got), "%d-%02d-%02db" % (yy, mm, bb)))
    return n, bad


HANG = {1: 0, 2: -1, 3: -2, 4: -3, 5: 3, 6: 2, 7: 1}


def _isowk(y):
    return datetime.date(y, 12, 28).isocalendar()[1]


def _nbdays(y, m):
    return sum(1 for k in range(1, _mdays(y, m) + 1) if datetime.date(y, m, k).isoweekday() <= 5)


def run_parallel(R, P, rule, every=False, jobs=12):
    import multiprocessing as mp
    tu, lib = P.tu("dround-dround.o"), P.tu("libdut_a-date-core.o")
    fn = tu.func("dround_ddur")
    if fn is None:
        raise AnalysisBroken("dround_ddur vanished")
    R.saw(fn)
    E = {k: lib.enum_value(k) for k in ("DT_YMD", "DT_DURD", "DT_DURYMD", "DT_DURYMCW", "DT_YWD", "DT_BIZDA", "DT_DURWK", "DT_DURBD", "DT_YD", "DT_YMCW",
                                       "DT_DAISY", "DT_LDN", "DT_MDN")}
    if None in E.values():
        raise AnalysisBroken("%s: tags not found" % rule)
    years = convdecode.class_years()
    _G.update(tu=tu, lib=lib, E=E, every=every)
    chunks = [c for c in (years[i::jobs] for i in range(jobs)) if c]
    try:
        ctx = mp.get_context("fork")
        with ctx.Pool(len(chunks)) as pool:
            parts = pool.map(_worker, chunks)
    except NotConst as e:
        raise AnalysisBroken("%s: dround_ddur left the foldable fragment (%s)" % (rule, e))
    n = 0
    bad = {}
    for k, b in parts:
        n += k
        for key, lst in b.items():
            bad.setdefault(key, []).extend(lst)
    for kind in ("day of the month", "month", "weekday", "ISO week", "business day of the month"):
        if kind in bad:
            lst = sorted(bad[kind])
            day, what, got, exp = lst[0]
            R.finding(rule, fn, "rounding to a %s, decoded" % kind, "%d (date, target) points differ from the definition; first: dround %s %s gives "
                      "%s, the nearest date on the requested side with that %s is %s" % (len(lst), day, what, got, kind, exp))
        else:
            R.ob(rule, "rounding to a %s: the nearest date on the requested side for every date of the class years, every target, both "
                 "directions, with and without --next; idempotent" % kind, True)
    return n


# ------------------------------------------------------------------ time rounding
def _divisors(n):
    return [k for k in range(1, n + 1) if n % k == 0]


def _times(every):
    hs = range(24) if every else (0, 1, 11, 12, 22, 23)
    for h in hs:
        for m in (0, 1, 29, 30, 58, 59):
            for s in (0, 1, 30, 59):
                yield h, m, s


def _tworker(hs):
    tu, res, E, every = _G["tu"], _G["resolve"], _G["ET"], _G["every"]
    fold.RESOLVE["fn"] = res
    fv, fc = tu.func("tround_tdur"), tu.func("tround_tdur_cocl")
    bad = {}
    n = 0

    def run(fn, t, dur, nxt):
        r = fold.Folder(fn, calls={}, inline=True, max_steps=200000).run([t, dur, nxt])
        c = r.get("carry", 0)
        return (c, r.get("hms.h"), r.get("hms.m"), r.get("hms.s"))

    def split(T):
        c, r = divmod(T, 86400)
        return (c, r // 3600, r // 60 % 60, r % 60)
    for (h, m, s) in _times(every):
        if h not in hs:
            continue
        T = h * 3600 + m * 60 + s
        t = {"hms.h": h, "hms.m": m, "hms.s": s, "hms.ns": 0, "carry": 0}
        for nxt in (0, 1):
            for forw in (True, False):
                # value rounding: the named field takes the target, finer fields stay
                for unit, rng in (("DT_DURH", range(24)), ("DT_DURM", range(60)), ("DT_DURS", range(60))):
                    for v in rng:
                        if v == 0 and not forw:
                            continue        # -0 is 0: no way to say `backwards to 0' with a value
                        step = {"DT_DURH": 86400, "DT_DURM": 3600, "DT_DURS": 60}[unit]
                        base = {"DT_DURH": v * 3600 + m * 60 + s, "DT_DURM": v * 60 + s, "DT_DURS": v}[unit]
                        if unit == "DT_DURM":
                            base += h * 3600
                        if unit == "DT_DURS":
                            base += h * 3600 + m * 60
                        # candidates base + k * step
                        c = base
                        if forw:
                            while c < T or (c == T and nxt):
                                c += step
                            while c - step > T or (c - step == T and not nxt):
                                c -= step
                        else:
                            while c > T or (c == T and nxt):
                                c -= step
                            while c + step < T or (c + step == T and not nxt):
                                c += step
                        n += 1
                        dur = {"durtyp": E[unit], "dv": v if forw else -v, "neg": 0}
                        got = run(fv, t, dur, nxt)
                        if got != split(c):
                            bad.setdefault("value", []).append(("%02d:%02d:%02d" % (h, m, s), "%s%d%s%s" % ("" if forw else "-", v, unit[-1].lower(), " --next" if nxt else ""), str(got), str(split(c))))
                # co-class rounding: multiples of N units, finer fields zero
                for unit, mult, divs in (("DT_DURH", 3600, _divisors(24)), ("DT_DURM", 60, _divisors(1440)), ("DT_DURS", 1, _divisors(86400) if every else [1, 2, 7 * 0 + 5, 15, 30, 45, 60, 90, 3600, 86400])):
                    for N in divs:
                        step = N * mult
                        if 86400 % step:
                            continue
                        if forw:
                            c = (T + step - 1) // step * step
                            if c == T and nxt:
                                c += step
                        else:
                            c = T // step * step
                            if c == T and nxt:
                                c -= step
                        n += 1
                        dur = {"durtyp": E[unit], "dv": N if forw else -N, "neg": 0, "cocl": 1}
                        got = run(fc, t, dur, nxt)
                        exp = split(c)
                        if c == T and not nxt:
                            exp = (0, h, m, s)
                        if got != exp:
                            bad.setdefault("co-class", []).append(("%02d:%02d:%02d" % (h, m, s), "/%s%d%s%s" % ("" if forw else "-", N, unit[-1].lower(), " --next" if nxt else ""), str(got), str(exp)))
    return n, bad


def run_time_parallel(R, P, rule, every=False, jobs=12):
    import multiprocessing as mp
    tu = P.tu("dround-dround.o")
    libs = [P.tu("libdut_a-dt-core.o"), P.tu("libdut_a-date-core.o"), P.tu("libdut_a-time-core.o")]
    for f in ("tround_tdur", "tround_tdur_cocl"):
        if tu.func(f) is None:
            raise AnalysisBroken("%s vanished" % f)
        R.saw(tu.func(f))

    def resolve(name):
        for l in libs:
            f = l.func(name)
            if f is not None and getattr(f, "body", None) is not None:
                return f
        return None
    ET = {k: tu.enum_value(k) for k in ("DT_DURH", "DT_DURM", "DT_DURS")}
    if None in ET.values():
        raise AnalysisBroken("%s: duration tags not found" % rule)
    _G.update(tu=tu, resolve=resolve, ET=ET, every=every)
    hours = list(range(24))
    chunks = [c for c in (hours[i::jobs] for i in range(jobs)) if c]
    try:
        ctx = mp.get_context("fork")
        with ctx.Pool(len(chunks)) as pool:
            parts = pool.map(_tworker, chunks)
    except NotConst as e:
        raise AnalysisBroken("%s: a time rounding routine left the foldable fragment (%s)" % (rule, e))
    n = 0
    bad = {}
    for k, b in parts:
        n += k
        for key, lst in b.items():
            bad.setdefault(key, []).extend(lst)
    for kind, fname in (("value", "tround_tdur"), ("co-class", "tround_tdur_cocl")):
        if kind in bad:
            lst = sorted(bad[kind])
            tm, what, got, exp = lst[0]
            R.finding(rule, tu.func(fname), "%s rounding of times, decoded" % kind, "%d (time, target) points differ from the definition; first: "
                      "dround %s %s gives (day carry, h, m, s) = %s, the nearest time on the requested side is %s" % (len(lst), tm, what, got, exp))
        else:
            R.ob(rule, "%s rounding of times: the nearest time on the requested side for every sampled time of day, every target, both "
                 "directions, with and without --next, with the right day carry" % kind, True)
    return n


# ------------------------------------------------------------------ dt_round: co-class date rounding of date-times, and the carry
def _dtworker(ys):
    tu, res, E = _G["tu"], _G["resolve"], _G["ED"]
    fold.RESOLVE["fn"] = res
    fn = tu.func("dt_round")
    bad = {}
    n = 0

    def run(dt, dur, nxt):
        r = fold.Folder(fn, calls={"error": lambda *a: 0, "serror": lambda *a: 0}, inline=True, max_steps=1500000).run([dt, dur, nxt])
        hu = r.get("t.hms.u")
        h, m, s = (0, 0, 0) if hu == 0 and "t.hms.h" not in r else (r.get("t.hms.h"), r.get("t.hms.m"), r.get("t.hms.s"))
        return (r.get("d.ymd.y"), r.get("d.ymd.m"), r.get("d.ymd.d"), h, m, s)
    for y in ys:
        for (mo, dy) in ((1, 1), (1, 31), (2, 28), (3, 1), (6, 30), (12, 1), (12, 31)):
            # each field of the time alone away from midnight, among them
            for (h, m, s) in ((0, 0, 0), (0, 0, 1), (0, 5, 0), (1, 0, 0), (12, 0, 0), (23, 59, 59)):
                d = datetime.datetime(y, mo, dy, h, m, s)
                dt = {"typ": E["DT_YMD"], "sandwich": 1, "d.typ": E["DT_YMD"], "d.ymd.y": y, "d.ymd.m": mo, "d.ymd.d": dy,
                      "t.typ": E["DT_HMS"], "t.hms.h": h, "t.hms.m": m, "t.hms.s": s, "t.hms.ns": 0}
                for nxt in (0, 1):
                    for forw in (True, False):
                        # whole days
                        c = datetime.datetime(y, mo, dy)
                        if forw:
                            if c < d or nxt:
                                c += datetime.timedelta(days=1)
                        else:
                            if c == d and nxt:
                                c -= datetime.timedelta(days=1)
                        n += 1
                        dur = {"durtyp": E["DT_DURD"], "d.durtyp": E["DT_DURD"], "d.dv": 1 if forw else -1, "cocl": 1, "d.cocl": 1, "neg": 0, "d.neg": 0}
                        got = run(dt, dur, nxt)
                        if got != (c.year, c.month, c.day, 0, 0, 0):
                            bad.setdefault("/1d", []).append((d.isoformat(), "/%s1d%s" % ("" if forw else "-", " --next" if nxt else ""), str(got), c.isoformat()))
                        # months, quarters, years
                        for unit, per, Ns in (("DT_DURMO", 1, (1, 2, 3, 4, 6, 12)), ("DT_DURQU", 3, (1, 2, 4)), ("DT_DURYR", 12, (1,))):
                            for N in Ns:
                                step = N * per
                                ym = y * 12 + mo - 1
                                lo = ym // step * step
                                start = datetime.datetime(lo // 12, lo % 12 + 1, 1)
                                if forw:
                                    if start < d or nxt:
                                        lo += step
                                else:
                                    if start == d and nxt:
                                        lo -= step
                                c = datetime.datetime(lo // 12, lo % 12 + 1, 1)
                                n += 1
                                dur = {"durtyp": E[unit], "d.durtyp": E[unit], "d.dv": N if forw else -N, "cocl": 1, "d.cocl": 1, "neg": 0, "d.neg": 0}
                                got = run(dt, dur, nxt)
                                if got != (c.year, c.month, c.day, 0, 0, 0):
                                    bad.setdefault("/N months", []).append((d.isoformat(), "/%s%d%s%s" % ("" if forw else "-", N, {"DT_DURMO": "mo", "DT_DURQU": "q", "DT_DURYR": "y"}[unit], " --next" if nxt else ""), str(got), c.isoformat()))
    return n, bad


def run_dt_parallel(R, P, rule, jobs=12):
    import multiprocessing as mp
    tu = P.tu("dround-dround.o")
    libs = [P.tu("libdut_a-dt-core.o"), P.tu("libdut_a-date-core.o"), P.tu("libdut_a-time-core.o")]
    if tu.func("dt_round") is None:
        raise AnalysisBroken("dt_round vanished")
    R.saw(tu.func("dt_round"))

    def resolve(name):
        for l in libs:
            f = l.func(name)
            if f is not None and getattr(f, "body", None) is not None:
                return f
        return None
    ED = {k: tu.enum_value(k) for k in ("DT_YMD", "DT_HMS", "DT_DURD", "DT_DURMO", "DT_DURQU", "DT_DURYR")}
    if None in ED.values():
        raise AnalysisBroken("%s: tags not found (%s)" % (rule, ED))
    _G.update(tu=tu, resolve=resolve, ED=ED)
    years = convdecode.class_years()
    chunks = [c for c in (years[i::jobs] for i in range(jobs)) if c]
    try:
        ctx = mp.get_context("fork")
        with ctx.Pool(len(chunks)) as pool:
            parts = pool.map(_dtworker, chunks)
    except NotConst as e:
        raise AnalysisBroken("%s: dt_round left the foldable fragment (%s)" % (rule, e))
    n = 0
    bad = {}
    for k, b in parts:
        n += k
        for key, lst in b.items():
            bad.setdefault(key, []).extend(lst)
    for kind in ("/1d", "/N months"):
        if kind in bad:
            lst = sorted(bad[kind])
            day, what, got, exp = lst[0]
            R.finding(rule, tu.func("dt_round"), "co-class rounding %s of date-times, decoded" % kind, "%d points differ from the definition; first: "
                      "dround %s %s gives %s, the nearest multiple on the requested side is %s" % (len(lst), day, what, got, exp))
        else:
            R.ob(rule, "co-class rounding %s of date-times (dt_round, with the day carry): the nearest multiple on the requested side with all "
                 "finer fields zero" % kind, True)
    return n


def run_epoch(R, P, rule):
    """co-class rounding of instants held as epoch values (sxround_dur_cocl): the nearest multiple of the unit on the requested side,
    for instants on both sides of 1970"""
    tu = P.tu("dround-dround.o")
    fn = tu.func("sxround_dur_cocl")
    if fn is None or getattr(fn, "body", None) is None:
        raise AnalysisBroken("%s: sxround_dur_cocl vanished" % rule)
    R.saw(fn)
    E = {k: tu.enum_value(k) for k in ("DT_DURS", "DT_DURM", "DT_DURH")}
    if None in E.values():
        raise AnalysisBroken("%s: tags not found (%s)" % (rule, E))
    bad = []
    n = 0
    tabs = {}
    try:
        for t in (-86401, -86400, -3601, -3600, -100, -61, -60, -59, -1, 0, 1, 59, 60, 61, 100, 3599, 3600, 86399, 86400, 1341100799, -1341100799):
            for unit, cnt, secs in (("DT_DURM", 1, 60), ("DT_DURM", 15, 900), ("DT_DURH", 1, 3600), ("DT_DURS", 30, 30), ("DT_DURH", 6, 21600)):
                for down in (False, True):
                    for nxt in (0, 1):
                        dur = {"durtyp": E[unit], "dv": -cnt if down else cnt, "neg": 0, "cocl": 1}
                        fo = fold.Folder(fn, calls={}, inline=True, max_steps=200000)
                        fo._tabs = tabs
                        try:
                            got = fo.run([t, dict(dur), nxt])
                        except fold.Abort as e:
                            got = "abort: %s" % e
                        n += 1
                        if down:
                            exp = (t // secs) * secs
                            if exp == t and nxt:
                                exp -= secs
                        else:
                            exp = -((-t) // secs) * secs
                            if exp == t and nxt:
                                exp += secs
                        if got != exp:
                            bad.append((t, "%s/%d%s%s" % ("-" if down else "", cnt, {"DT_DURS": "s", "DT_DURM": "m", "DT_DURH": "h"}[unit], " --next" if nxt else ""), got, exp))
    except NotConst as e:
        raise AnalysisBroken("%s: sxround_dur_cocl left the foldable fragment (%s)" % (rule, e))
    if bad:
        t, what, got, exp = bad[0]
        R.finding(rule, fn, "co-class rounding of epoch values, decoded", "%d of %d points differ from the definition; first: the instant %d "
                  "rounded to %s gives %s, the nearest multiple on the requested side is %d" % (len(bad), n, t, what, got, exp))
    else:
        R.ob(rule, "co-class rounding of epoch values (%d points, both sides of 1970, both directions, with and without --next): the nearest "
             "multiple of the unit on the requested side" % n, True)
    return n
