"""RF2-add: the day / week / business-day adders of every calendar decoded with the count kept symbolic.

For a start date in each calendar (the representation is produced by folding the converter from year-month-day) the adder is
folded with its count n ranging over a window as one symbolic parameter (interval-affine folding with splitting, rules/fold.py):
the window falls into the pieces on which the carry loops take the same turns, each piece is an affine function of n, and at every
integer n the result must be the representation of the day n days (weeks, Monday-Friday days) away.  Start dates: nine days (both ends of the
year, both sides of the leap day, a mid-month, a month end) of one representative year of each of the 21 year classes
(rules/convdecode.py) in the quick tier; the 1st, 15th, 28th-31st of every month, the first and last week of the year and the
days around the leap day in the thorough tier.  The window reaches beyond a year in both directions, so every
month end, year end and leap day is crossed from every side; that longer counts repeat the same step is the carry-loop structure
decided by RF-carry / RF-fresh."""
import datetime
from core import AnalysisBroken, NotConst
import fold
from fold import Aff
import convdecode

CAL = {
    "ymd": (None, ("y", "m", "d")),
    "yd": ("__ymd_to_yd", ("y", "d")),
    "ywd": ("__ymd_to_ywd", ("y", "c", "w", "hang")),
    "ymcw": ("__ymd_to_ymcw", ("y", "m", "c", "w")),
}
WINDOW = {"d": 400, "w": 60, "b": 130}
# counts far beyond the window (several years, decades, a century), taken as they are from three starts per class year: state
# carried from one crossed year to the next (the weekday of 1 January, leap days) has to survive many turns of the carry loops
FAR = {"d": [731, 1461, 2557, 3653, 7305], "w": [209, 400, 522, 1044, 2087], "b": [261, 1000, 2610]}
FAR_STARTS = {(1, 1), (6, 15), (12, 31)}


def _fields(cal, d):
    iy, iw, iwd = d.isocalendar()
    if cal == "ymd":
        return (d.year, d.month, d.day)
    if cal == "yd":
        return (d.year, d.timetuple().tm_yday)
    if cal == "ywd":
        # the helper slot: how far 1 January of the week-year hangs off a Monday (every later use of the value relies on it)
        hang = {1: 0, 2: -1, 3: -2, 4: -3, 5: 3, 6: 2, 7: 1}[datetime.date(iy, 1, 1).isoweekday()]
        return (iy, iw, iwd, hang)
    if cal == "ymcw":
        return (d.year, d.month, (d.day - 1) // 7 + 1, iwd)


def _bstep(d, n):
    step = 1 if n > 0 else -1
    k = 0
    while k < abs(n):
        d += datetime.timedelta(days=step)
        if d.isoweekday() <= 5:
            k += 1
    return d


def _target(unit, d, n):
    if unit == "d":
        return d + datetime.timedelta(days=n)
    if unit == "w":
        return d + datetime.timedelta(days=7 * n)
    return _bstep(d, n)


QUICK = {(1, 1), (1, 4), (2, 28), (2, 29), (3, 1), (6, 15), (8, 31), (12, 28), (12, 31)}


def _starts(y, every):
    """quick tier: nine days per class year (both ends of the year, both sides of the leap day, a mid-month and a month end);
    thorough tier: the 1st, 15th and 28th-31st of every month, the first and last week of the year, the days around the leap day"""
    d = datetime.date(y, 1, 1)
    while d.year == y:
        if every:
            if d.day in (1, 15) or d.day >= 28 or (d.month == 1 and d.day <= 7) or (d.month == 12 and d.day >= 25) or \
                    (d.month in (2, 3) and (d.day >= 26 or d.day <= 2)):
                yield d
        elif (d.month, d.day) in QUICK:
            yield d
        d += datetime.timedelta(days=1)


_G = {}


def _val(v, t):
    return v.c + v.k * t if isinstance(v, Aff) else v


def _worker(ys):
    tu, every, todo = _G["tu"], _G["every"], _G["todo"]
    tabs = {}

    def mk(fn):
        fo = fold.Folder(fn, calls={}, inline=True, max_steps=600000)
        fo._tabs = tabs
        return fo
    bad = {}
    n = 0
    cache = {}

    def fields_of(cal, o):
        k = (cal, o)
        v = cache.get(k)
        if v is None:
            v = cache[k] = _fields(cal, datetime.date.fromordinal(o))
        return v
    bcache = {}
    for y in ys:
        for d in _starts(y, every):
            ymd = {"y": d.year, "m": d.month, "d": d.day}
            for cal, unit, fname in todo:
                conv, fields = CAL[cal]
                src = ymd if conv is None else mk(tu.func(conv)).run([ymd])
                fn = tu.func(fname)
                if cal == "ymcw" and isinstance(src, dict) and src.get("w") == 7 and (d.month, d.day) in FAR_STARTS | {(1, 4), (2, 28), (8, 31)}:
                    # Sunday may be spelt 0 in this calendar (the parser hands it on like that): the same day, the same results
                    alt = dict(src, w=0)
                    for t in (-7, -6, -5, -1, 1, 4, 5, 6, 10):
                        try:
                            r0 = mk(fn).run([dict(alt), t])
                        except fold.Abort as e:
                            r0 = None
                        n += 1
                        if unit == "b":
                            kb = (d.toordinal(), t)
                            if kb not in bcache:
                                bcache[kb] = _bstep(d, t).toordinal()
                            exp0 = fields_of(cal, bcache[kb])
                        else:
                            exp0 = fields_of(cal, d.toordinal() + (7 * t if unit == "w" else t))
                        got0 = tuple((r0.get(f) if f != "w" else (r0.get(f) or 7)) if isinstance(r0, dict) else None for f in fields)
                        if got0 != exp0:
                            lst = bad.setdefault((fname, cal), [])
                            if len(lst) < 400:
                                lst.append((d.isoformat() + " (Sunday spelt 0)", t, str(got0), str(exp0)))
                W = WINDOW[unit]
                if (cal, unit) == ("ymcw", "d") and not every:
                    # the weekday enters a table index, so this adder folds point by point (7 ms each): the quick tier takes a third
                    # of the window (four months either way), the thorough tier all of it
                    W = 130
                work = [(-W, W)]
                if (d.month, d.day) in FAR_STARTS:
                    work += [(sg * c, sg * c) for c in FAR[unit] for sg in (1, -1)]
                while work:
                    a, b = work.pop()
                    if a > b:
                        continue
                    try:
                        tv = Aff(0, 1, (a, b)) if a < b else a
                        res = mk(fn).run([dict(src), tv])
                    except fold.Split as sp:
                        t = sp.args[0]
                        work.append((a, t - 1))
                        work.append((t, b))
                        continue
                    except fold.Abort as e:
                        bad.setdefault((fname, cal), []).append((d.isoformat(), a, "abort: %s" % e, ""))
                        continue
                    o0 = d.toordinal()
                    for t in range(a, b + 1):
                        if unit == "b" and t == 0:
                            continue
                        n += 1
                        if unit == "d":
                            exp = fields_of(cal, o0 + t)
                        elif unit == "w":
                            exp = fields_of(cal, o0 + 7 * t)
                        else:
                            kb = (o0, t)
                            if kb not in bcache:
                                bcache[kb] = _bstep(d, t).toordinal()
                            exp = fields_of(cal, bcache[kb])
                        got = tuple(_val(res.get(f), t) if isinstance(res, dict) else None for f in fields)
                        if got != exp:
                            lst = bad.setdefault((fname, cal), [])
                            if len(lst) < 400:
                                lst.append((d.isoformat(), t, str(got), str(exp)))
    return n, bad


def run_parallel(R, tu, rule, todo, every=False, jobs=12):
    """todo: list of (calendar, unit, adder function name)"""
    import multiprocessing as mp
    for cal, unit, fname in todo:
        if tu.func(fname) is None or getattr(tu.func(fname), "body", None) is None:
            raise AnalysisBroken("%s: adder %s vanished" % (rule, fname))
        R.saw(tu.func(fname))
    years = convdecode.class_years()
    _G.update(tu=tu, every=every, todo=todo)
    chunks = [c for c in (years[i::jobs] for i in range(jobs)) if c]
    try:
        ctx = mp.get_context("fork")
        with ctx.Pool(len(chunks)) as pool:
            parts = pool.map(_worker, chunks)
    except NotConst as e:
        raise AnalysisBroken("%s: an adder left the foldable fragment (%s)" % (rule, e))
    n = 0
    bad = {}
    for k, b in parts:
        n += k
        for key, lst in b.items():
            bad.setdefault(key, []).extend(lst)
    UN = {"d": "days", "w": "weeks", "b": "Monday-Friday days"}
    for cal, unit, fname in todo:
        key = (fname, cal)
        if key not in bad:
            R.ob(rule, "%s: for every start of the class years and every count within +-%d (quick tier, __ymcw_add_d: +-130), and for the far counts +-%s from three "
                 "starts a year, the result is the %s date that many %s away" % (fname, WINDOW[unit], FAR[unit], cal, UN[unit]), True)
        else:
            lst = sorted(bad[key])
            day, t, got, exp = lst[0]
            R.finding(rule, tu.func(fname), "%s decoded with a symbolic count" % fname, "%s%d (start, count) points differ; first: %s %+d %s gives "
                      "%s, the calendar says %s" % (">= " if len(lst) >= 400 else "", len(lst), day, t, UN[unit], got, exp))
    return n


def run_daynumbers(R, tu, rule):
    """day numbers (daisy, Lilian, Matlab): dt_dadd_d / dt_dadd_w through the dispatch, the count symbolic; the result is the number
    that many days on, and it still converts to the date that many days on"""
    E = {k: tu.enum_value(k) for k in ("DT_YMD", "DT_DAISY", "DT_LDN", "DT_MDN")}
    for f in ("dt_dadd_d", "dt_dadd_w", "dt_dconv"):
        if tu.func(f) is None or getattr(tu.func(f), "body", None) is None:
            raise AnalysisBroken("%s: %s vanished" % (rule, f))
        R.saw(tu.func(f))
    tabs = {}

    def mk(name):
        fo = fold.Folder(tu.func(name), calls={}, inline=True, max_steps=600000)
        fo._tabs = tabs
        return fo
    n = 0
    try:
        for tag, mem in (("DT_DAISY", "daisy"), ("DT_LDN", "ldn"), ("DT_MDN", "mdn")):
            bad = []
            for d in (datetime.date(1917, 1, 1), datetime.date(1944, 2, 29), datetime.date(1969, 12, 31), datetime.date(2012, 12, 31),
                      datetime.date(2400, 2, 29), datetime.date(3899, 6, 15)):
                src = mk("dt_dconv").run([E[tag], {"typ": E["DT_YMD"], "ymd.y": d.year, "ymd.m": d.month, "ymd.d": d.day}])
                v0 = src.get(mem) if isinstance(src, dict) else None
                if not isinstance(v0, int) or v0 <= 0:
                    raise AnalysisBroken("%s: %s of %s not decoded" % (rule, tag, d))
                for fname, mult, W in (("dt_dadd_d", 1, 400), ("dt_dadd_w", 7, 60)):
                    work = [(-W, W)] + [(c, c) for c in (-36525 // mult, 36525 // mult, 5000)]
                    while work:
                        a, b = work.pop()
                        if a > b:
                            continue
                        try:
                            r = mk(fname).run([dict(src), Aff(0, 1, (a, b)) if a < b else a])
                        except fold.Split as sp:
                            work.append((a, sp.args[0] - 1))
                            work.append((sp.args[0], b))
                            continue
                        for t in sorted({a, b, (a + b) // 2, 0 if a <= 0 <= b else a, -1 if a <= -1 <= b else a, 1 if a <= 1 <= b else b}):
                            n += 1
                            got = _val(r.get(mem), t) if isinstance(r, dict) else None
                            if got != v0 + mult * t:
                                bad.append((d.isoformat(), fname, t, got, v0 + mult * t))
                        # and back to a date (at the ends of the piece)
                        for t in {a, b}:
                            rr = {k: _val(v, t) for k, v in r.items()}
                            back = mk("dt_dconv").run([E["DT_YMD"], rr])
                            e = d + datetime.timedelta(days=mult * t)
                            n += 1
                            if (back.get("ymd.y"), back.get("ymd.m"), back.get("ymd.d")) != (e.year, e.month, e.day):
                                bad.append((d.isoformat(), fname + " then to a date", t, (back.get("ymd.y"), back.get("ymd.m"), back.get("ymd.d")), e.isoformat()))
            if bad:
                day, fname, t, got, exp = bad[0]
                R.finding(rule, tu.func("dt_dadd_d"), "day numbers held as %s" % tag, "%d probes differ; first: %s as %s, %s with %+d gives %s, "
                          "%s is that many days on" % (len(bad), day, tag, fname, t, got, exp))
            else:
                R.ob(rule, "dt_dadd_d / dt_dadd_w on %s day numbers: every piece of +-400 days / +-60 weeks (and a century either way) is the "
                     "number that many days on, and converts to the date that many days on" % tag, True)
    except NotConst as e:
        raise AnalysisBroken("%s: the day-number adders left the foldable fragment (%s)" % (rule, e))
    return n


def run_daynumbers_b(R, tu, rule):
    """business-day additions on day numbers (daisy, Lilian, Matlab -- the representation dseq steps in): dt_dadd_b through the
    dispatch from every day of a week (both week-end days among them), around a year end and a leap day, counts -12..12 and a few far
    ones; the result is the number of the n-th Monday-to-Friday day strictly after / before the start and converts to that date"""
    E = {k: tu.enum_value(k) for k in ("DT_YMD", "DT_DAISY", "DT_LDN", "DT_MDN")}
    for f in ("dt_dadd_b", "dt_dconv"):
        if tu.func(f) is None or getattr(tu.func(f), "body", None) is None:
            raise AnalysisBroken("%s: %s vanished" % (rule, f))
        R.saw(tu.func(f))
    tabs = {}

    def mk(name):
        fo = fold.Folder(tu.func(name), calls={}, inline=True, max_steps=600000)
        fo._tabs = tabs
        return fo
    n = 0
    starts = [datetime.date(2012, 5, 7) + datetime.timedelta(days=i) for i in range(7)] + \
             [datetime.date(1999, 12, 27) + datetime.timedelta(days=i) for i in range(9)] + \
             [datetime.date(2024, 2, 24) + datetime.timedelta(days=i) for i in range(8)] + [datetime.date(3899, 6, 14)]
    counts = list(range(-12, 13)) + [-261, -100, -26, 25, 100, 261, 1305]
    try:
        for tag, mem in (("DT_DAISY", "daisy"), ("DT_LDN", "ldn"), ("DT_MDN", "mdn")):
            bad = []
            for d in starts:
                src = mk("dt_dconv").run([E[tag], {"typ": E["DT_YMD"], "ymd.y": d.year, "ymd.m": d.month, "ymd.d": d.day}])
                v0 = src.get(mem) if isinstance(src, dict) else None
                if not isinstance(v0, int) or v0 <= 0:
                    raise AnalysisBroken("%s: %s of %s not decoded" % (rule, tag, d))
                for c in counts:
                    n += 1
                    e = _bstep(d, c)
                    try:
                        r = mk("dt_dadd_b").run([dict(src), c])
                        got = r.get(mem) if isinstance(r, dict) else None
                        back = mk("dt_dconv").run([E["DT_YMD"], dict(r)]) if isinstance(r, dict) else {}
                        gd = (back.get("ymd.y"), back.get("ymd.m"), back.get("ymd.d"))
                    except fold.Abort as ex:
                        got, gd = "abort: %s" % ex, None
                    if got != v0 + (e - d).days or gd != (e.year, e.month, e.day):
                        bad.append((d, c, gd, e))
            if bad:
                d, c, gd, e = bad[0]
                R.finding(rule, tu.func("dt_dadd_b"), "business days on day numbers held as %s" % tag,
                          "%d (start, count) points differ; first: %s (%s) as %s with %+db gives %s, the %s Monday-to-Friday day %s is %s" %
                          (len(bad), d.isoformat(), d.strftime("%a"), tag, c, "%04d-%02d-%02d" % gd if gd and None not in gd else gd,
                           "%d%s" % (abs(c), "th"), "after" if c > 0 else "before", e.isoformat()))
            else:
                R.ob(rule, "dt_dadd_b on %s day numbers: %d starts (every day of the week, a year end, a leap day) x %d counts give the n-th "
                     "Monday-to-Friday day after / before the start" % (tag, len(starts), len(counts)), True)
    except NotConst as e:
        raise AnalysisBroken("%s: the business-day adder on day numbers left the foldable fragment (%s)" % (rule, e))
    return n
