"""RF2-zone: the offset lookup of a zone decoded with the instant kept symbolic, from every cache state.

__offs / zif_local_time / zif_utc_time (lib/tzraw.c) are folded on small synthetic zones -- no transition at all, one before and
one after the epoch, transitions on both sides of and exactly at 0, up to seven of them -- with the instant t as one symbolic
parameter over a range that reaches beyond the first and the last transition.  The lookup goes through the zone's one-entry cache,
so it is decoded from every cache state a previous lookup can leave: the zeroed cache of a freshly opened zone, and the cache after
a lookup in every range of the table (and exactly on every transition).  Whatever came before, the offset at t is the offset of
the last transition at or before t (the first offset before the first transition); local time is t plus that; and the UTC value of
a local stamp is a u with u + offset(u) = local whenever one exists."""
from core import AnalysisBroken, NotConst
import fold
from fold import Aff, Ptr

ZONES = [
    [],
    [-50],
    [50],
    [0],
    [0, 100],
    [-150, -50, 50, 150],
    [-300, -200, -100, 0, 100, 200, 300],
    [-250, -120, 130],
]
OFS = [10, 20]


def _oracle(trs, t):
    idx = -1
    for i, x in enumerate(trs):
        if x <= t:
            idx = i
    if idx < 0:
        return OFS[0]
    return OFS[idx % 2]


def _zone(trs):
    return {"ntr": len(trs), "nty": 2, "nlp": 0, "trs": list(trs), "tys": [i % 2 for i in range(len(trs))], "ofs": list(OFS), "cz": 0,
            "cache.prev": 0, "cache.next": 0, "cache.offs": 0, "cache.trno": 0}


def _val(v, t):
    return v.c + v.k * t if isinstance(v, Aff) else v


def run(R, P, rule):
    tu = P.tu("libdut_a-tzraw.o")
    fo_, fl, fu = tu.func("__offs"), tu.func("zif_local_time"), tu.func("zif_utc_time")
    if fo_ is None or fl is None or fu is None:
        raise AnalysisBroken("%s: __offs / zif_local_time / zif_utc_time vanished" % rule)
    for f in (fo_, fl, fu):
        R.saw(f)
    zt = [i for i in range(len(tu.types)) if tu.types[i].get("s") == "struct zif_s"]
    if not zt:
        raise AnalysisBroken("%s: struct zif_s not found" % rule)
    zt = zt[0]
    n = 0
    bad = {"offset": [], "local": [], "utc": []}

    def call(fn, frame, tv):
        return fold.Folder(fn, calls={}, inline=True, max_steps=200000).run([Ptr(frame, "Z", zt), tv])

    def split(fn, mkframe, lo, hi):
        out = []
        work = [(lo, hi)]
        while work:
            a, b = work.pop()
            if a > b:
                continue
            try:
                fr = mkframe()
                tv = Aff(0, 1, (a, b)) if a < b else a
                out.append(((a, b), call(fn, fr, tv)))
            except fold.Split as sp:
                work.append((a, sp.args[0] - 1))
                work.append((sp.args[0], b))
        return out
    try:
        for trs in ZONES:
            lo = (min(trs) if trs else 0) - 60
            hi = (max(trs) if trs else 0) + 60
            lo, hi = min(lo, -60), max(hi, 60)
            # cache states: fresh, and after a lookup at each of these instants
            prevs = [None] + sorted(set([lo, hi, 0, -1] + [x + d for x in trs for d in (-1, 0, 1, 40)]))
            for p0 in prevs:
                def mk():
                    fr = {"Z": _zone(trs)}
                    if p0 is not None:
                        call(fo_, fr, p0)
                    return fr
                for (a, b), v in split(fo_, mk, lo, hi):
                    for t in range(a, b + 1):
                        n += 1
                        if _val(v, t) != _oracle(trs, t) and len(bad["offset"]) < 200:
                            bad["offset"].append((str(trs), "fresh zone" if p0 is None else "after a lookup at %d" % p0, t, _val(v, t), _oracle(trs, t)))
                if p0 is None or p0 in (lo, hi):
                    for (a, b), v in split(fl, mk, lo, hi):
                        for t in range(a, b + 1):
                            n += 1
                            if _val(v, t) != t + _oracle(trs, t) and len(bad["local"]) < 200:
                                bad["local"].append((str(trs), "fresh zone" if p0 is None else "after a lookup at %d" % p0, t, _val(v, t), t + _oracle(trs, t)))
                    for (a, b), v in split(fu, mk, lo + 30, hi):
                        for L in range(a, b + 1):
                            n += 1
                            sols = [u for u in range(L - 25, L) if u + _oracle(trs, u) == L]
                            got = _val(v, L)
                            if sols and got not in sols and len(bad["utc"]) < 200:
                                bad["utc"].append((str(trs), "fresh zone" if p0 is None else "after a lookup at %d" % p0, L, got, sols))
    except NotConst as e:
        raise AnalysisBroken("%s: the lookup left the foldable fragment (%s)" % (rule, e))
    for key, fn, what in (("offset", fo_, "__offs"), ("local", fl, "zif_local_time"), ("utc", fu, "zif_utc_time")):
        if bad[key]:
            z, st, t, got, exp = bad[key][0]
            R.finding(rule, fn, "%s decoded on synthetic zones" % what, "%s%d (zone, cache state, instant) points differ; first: transitions %s, %s, "
                      "instant %d: %s, the table says %s -- the answer depends on what was looked up before, or is not the table's"
                      % (">= " if len(bad[key]) >= 200 else "", len(bad[key]), z, st, t, got, exp))
        else:
            R.ob(rule, "%s: the table's answer for every instant of %d synthetic zones from every cache state" % (what, len(ZONES)), True)
    return n
