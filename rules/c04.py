"""C04 — month and year arithmetic keeps the day and clamps to the end of month.

Decided (for all dates, all signed counts, by structure):

 RF-lin-add   __{ymd,ymcw,bizda}_add_m: 12*year + month grows by exactly n -- the carry variable starts as month + n, every
              loop body leaves 12*year + carry unchanged (linear effect of the body), the month is set from the carry; the
              year adders add exactly n to the year
 RF-range-m   the month stored by the month adders lies in 1..12 for every input month 1..12 and every n (interval analysis)
 RF-eff       month / year addition writes only year and month (ywd: year and the derived hang), never the day, count or
              weekday: the day is kept and steps compose; no fixup is reachable from the month / year adders
 RF-clamp     each fixup clamps exactly one field to the calendar's maximum: its only store is field = max under the guard
              field > max, and the early-out threshold does not exceed the calendar's smallest maximum (28, 4, 52, 365)
 RF-dom-fix   every conversion and every print of a date is dominated by the fixup (dt_dconv, dt_strfdt), and dt_dfixup
              dispatches every calendar with months or years to its fixup

Not decided: the value of the clamp target (__get_mdays etc. are computed; their tables are C01's).
"""
from core import (AnalysisBroken, strip, kids, const_of, call_args, expr_text, walk, CASTS, member_path, switch_handles, CallGraph)
import intervals
from intervals import Intervals

MONTH_ADDERS = ("__ymd_add_m", "__ymcw_add_m", "__bizda_add_m")
YEAR_ADDERS = {"__ymd_add_y": {"y"}, "__ymcw_add_y": {"y"}, "__bizda_add_y": {"y"}, "__yd_add_y": {"y"}, "__ywd_add_y": {"y", "hang"}}
FIXUPS = {"__ymd_fixup": ("d", 28, "days of the month"), "__ymcw_fixup": ("c", 4, "occurrences of a weekday in the month"),
          "__ywd_fixup": ("c", 52, "ISO weeks of the year"), "__yd_fixup": ("d", 365, "days of the year")}


def _key(fn, e):
    e = strip(e)
    while e is not None and e.get("k") in CASTS and e.get("c"):
        e = strip(e["c"][0])
    if e is None:
        return None
    if e.get("k") == "DeclRefExpr" and e.get("dk") in ("var", "parm"):
        return e["d"]
    if e.get("k") == "MemberExpr":
        b, path = member_path(e)
        if b is not None and b.get("k") == "DeclRefExpr" and path:
            return (b["d"], ".".join(path))
    return None


def _lin(fn, e, env):
    e = strip(e)
    while e is not None and e.get("k") in CASTS and e.get("c"):
        e = strip(e["c"][0])
    if e is None:
        return None
    c = const_of(e)
    if c is not None and e.get("k") != "DeclRefExpr":
        return {1: c} if c else {}
    k = _key(fn, e)
    if k is not None:
        return dict(env.get(k, {k: 1}))
    if e.get("k") == "BinaryOperator" and e.get("op") in ("+", "-"):
        a, b = _lin(fn, e["c"][0], env), _lin(fn, e["c"][1], env)
        if a is None or b is None:
            return None
        out = dict(a)
        for s, v in b.items():
            out[s] = out.get(s, 0) + (v if e["op"] == "+" else -v)
        return {s: v for s, v in out.items() if v}
    return None


def _effect(fn, stmts, env=None):
    """linear effect of a statement list without control flow: {key: linear form over the values before}; None if some
    statement is not a linear update"""
    env = dict(env or {})
    for s in stmts:
        k = s.get("k")
        if k == "CompoundStmt":
            env = _effect(fn, kids(s), env)
            if env is None:
                return None
        elif k in ("BinaryOperator",) and s.get("op") == "=":
            key = _key(fn, s["c"][0])
            v = _lin(fn, s["c"][1], env)
            if key is None or v is None:
                return None
            env[key] = v
        elif k == "CompoundAssignOperator" and s.get("op") in ("+=", "-="):
            key = _key(fn, s["c"][0])
            v = _lin(fn, {"k": "BinaryOperator", "op": s["op"][0], "c": [s["c"][0], s["c"][1]]}, env)
            if key is None or v is None:
                return None
            env[key] = v
        elif k == "UnaryOperator" and s.get("op") in ("++", "--"):
            key = _key(fn, s["c"][0])
            if key is None:
                return None
            v = dict(env.get(key, {key: 1}))
            v[1] = v.get(1, 0) + (1 if s["op"] == "++" else -1)
            env[key] = {a: b for a, b in v.items() if b}
        elif k == "DeclStmt":
            for v in kids(s):
                if v.get("k") == "Var" and kids(v):
                    lv = _lin(fn, kids(v)[0], env)
                    if lv is None:
                        return None
                    env[v["d"]] = lv
        elif k in ("NullStmt",):
            pass
        else:
            return None
    return env


def check_month_adders(P, R, tu):
    rule = "RF-lin-add"
    for name in MONTH_ADDERS:
        fn = tu.func(name)
        if fn is None:
            raise AnalysisBroken("%s vanished" % name)
        R.saw(fn)
        d, n = fn.params[0]["d"], fn.params[1]["d"]
        Y, M = (d, "y"), (d, "m")
        body = kids(fn.body)
        # carry variable: the one the month is finally set from
        final = [s for s in body if s.get("k") == "BinaryOperator" and s.get("op") == "=" and _key(fn, s["c"][0]) == M]
        loops = [s for s in body if s.get("k") in ("WhileStmt", "ForStmt", "DoStmt")]
        others = [s for s in body if s not in final and s not in loops and s.get("k") not in ("DeclStmt", "ReturnStmt", "NullStmt")]
        if len(final) != 1 or others:
            # not the loop form this rule can summarise (e.g. a division based carry): undecided here, the range rule still runs;
            # the run ends as analysis-broken unless another rule reports a violation
            R.floor(rule, "%s decodable as carry = month + n; year-moving loops; month = carry" % name, 0, 1)
            _range_rule(R, fn, (fn.params[0]["d"], "m"), name)
            continue
        env0 = _effect(fn, [s for s in body if s.get("k") == "DeclStmt"])
        if env0 is None:
            raise AnalysisBroken("%s: declarations of %s are not linear" % (rule, name))
        # which local is the carry?
        fv = strip(final[0]["c"][1])
        carry = None
        for x in walk(fv):
            if x.get("k") == "DeclRefExpr" and x.get("dk") == "var" and x["d"] in env0:
                carry = x["d"]
        if carry is None:
            raise AnalysisBroken("%s: carry variable of %s not recognised" % (rule, name))
        if env0[carry] == {M: 1, n: 1}:
            R.ob(rule, "%s: carry = month + n" % name, True)
        else:
            R.finding(rule, fn, "carry start", "the carry starts as %s, not month + n" % env0[carry], final[0])
        for lp in loops:
            bd = lp["c"][-1]
            turn = [bd]
            if lp.get("k") == "ForStmt" and len(lp["c"]) >= 4 and lp["c"][2] is not None:
                turn.append(lp["c"][2])         # the advance in the head of a `for` belongs to the turn
            eff = _effect(fn, turn)
            if eff is None:
                R.finding(rule, fn, "loop body", "a loop body of the month adder is not a linear update of year and carry", lp)
                continue
            dy = dict(eff.get(Y, {Y: 1}))
            dc = dict(eff.get(carry, {carry: 1}))
            dy[Y] = dy.get(Y, 0) - 1
            dc[carry] = dc.get(carry, 0) - 1
            tot = {}
            for s_, v in dy.items():
                tot[s_] = tot.get(s_, 0) + 12 * v
            for s_, v in dc.items():
                tot[s_] = tot.get(s_, 0) + v
            tot = {a: b for a, b in tot.items() if b}
            extra = set(eff) - {Y, carry}
            if not tot and not extra:
                R.ob(rule, "%s: loop keeps 12*year + carry (year %+d, carry %+d per turn)" % (name, dy.get(1, 0), dc.get(1, 0)), True)
            else:
                R.finding(rule, fn, "loop invariant", "one turn of the loop changes 12*year + carry by %s%s: the date moves by a number of "
                          "months other than n" % (tot or 0, " and writes %s" % sorted(map(str, extra)) if extra else ""), lp)
        # final: month = carry + e with e == 0 for valid months (interval analysis)
        iv = Intervals(fn, entry={M: (1, 12)}).run()
        fl = _lin(fn, fv, {})
        rest = strip(fv)
        ok_final = False
        if fl == {carry: 1}:
            ok_final = True
        elif rest.get("k") == "BinaryOperator" and rest.get("op") == "+":
            for a, b in ((rest["c"][0], rest["c"][1]), (rest["c"][1], rest["c"][0])):
                if _lin(fn, a, {}) == {carry: 1}:
                    r = iv.range_at(final[0], b)
                    if r == (0, 0):
                        ok_final = True
        if ok_final:
            R.ob(rule, "%s: month = carry (for months 1..12)" % name, True)
        else:
            R.finding(rule, fn, "final month", "the month is set to %s, not to the carry" % expr_text(fv), final[0])
        _range_rule(R, fn, M, name, iv)


def _range_rule(R, fn, M, name, iv=None):
    rule2 = "RF-range-m"
    iv = iv or Intervals(fn, entry={M: (1, 12)}).run()
    rets = [r for r in fn.walk() if r.get("k") == "ReturnStmt"]
    okr = bool(rets)
    worst = None
    for r in rets:
        for st in iv.states_at(r) or []:
            v = st.get(M)
            if v is None or v[0] is None or v[0] < 1 or v[1] is None or v[1] > 12:
                okr = False
                worst = v
    if okr:
        R.ob(rule2, "%s: month in 1..12 at the return for every input month 1..12 and every n" % name, True)
    else:
        R.finding(rule2, fn, "month range", "the month stored ranges over %s for input months 1..12: month 0 or 13 can be produced" % (worst,),
                  rets[0] if rets else None)


def check_year_adders(P, R, tu):
    rule = "RF-lin-add"
    for name in YEAR_ADDERS:
        fn = tu.func(name)
        if fn is None:
            raise AnalysisBroken("%s vanished" % name)
        R.saw(fn)
        d, n = fn.params[0]["d"], fn.params[1]["d"]
        Y = (d, "y")
        ys = [s for s in fn.walk() if (s.get("k") in ("BinaryOperator", "CompoundAssignOperator") and s.get("op") in ("=", "+=", "-=")
                                       and _key(fn, s["c"][0]) == Y)]
        if len(ys) != 1:
            R.finding(rule, fn, "year update", "the year adder must update the year exactly once; found %d updates" % len(ys))
            continue
        eff = _effect(fn, [ys[0]])
        if eff is not None and eff.get(Y) == {Y: 1, n: 1}:
            R.ob(rule, "%s: year += n" % name, True)
        else:
            R.finding(rule, fn, "year update", "the year becomes %s, not year + n" % (eff and eff.get(Y)), ys[0])


def _writes(fn, d):
    out = set()
    for s in fn.walk():
        tgt = None
        if s.get("k") in ("BinaryOperator", "CompoundAssignOperator") and s.get("op", "").endswith("=") and s.get("op") not in ("==", "!=", "<=", ">="):
            tgt = s["c"][0]
        elif s.get("k") == "UnaryOperator" and s.get("op") in ("++", "--"):
            tgt = s["c"][0]
        if tgt is not None:
            k = _key(fn, tgt)
            if isinstance(k, tuple) and k[0] == d:
                out.add(k[1])
            elif k == d:
                out.add("*")
    return out


def check_effects(P, R, tu):
    rule = "RF-eff"
    allowed = {n: {"y", "m"} for n in MONTH_ADDERS}
    allowed.update(YEAR_ADDERS)
    cg = CallGraph(P)
    for name, ok in allowed.items():
        fn = tu.func(name)
        d = fn.params[0]["d"]
        w = _writes(fn, d)
        if w <= ok:
            R.ob(rule, "%s writes only %s" % (name, sorted(w)), True)
        else:
            R.finding(rule, fn, "write set", "%s also writes %s: the day / count is not kept, so steps no longer compose and the "
                      "clamp is applied to a changed day" % (name, sorted(w - ok)))
        # no clamping inside: fixups are not reachable
        reach = cg.reachable([fn])
        hit = sorted({f.name for f in reach if f.name in FIXUPS or f.name == "dt_dfixup"})
        if not hit:
            R.ob(rule, "%s reaches no fixup" % name, True)
        else:
            R.finding(rule, fn, "early clamp", "%s reaches %s: the day is clamped between steps, +a then +b differs from +(a+b)" % (name, hit))


def check_clamps(P, R, tu):
    rule = "RF-clamp"
    for name, (field, least, what) in FIXUPS.items():
        fn = tu.func(name)
        if fn is None:
            raise AnalysisBroken("%s vanished" % name)
        R.saw(fn)
        d = fn.params[0]["d"]
        F = (d, field)
        w = _writes(fn, d)
        if w != {field}:
            R.finding(rule, fn, "write set", "%s must clamp .%s only; it writes %s" % (name, field, sorted(w)))
            continue
        iv = Intervals(fn).run()
        stores = [s for s in fn.walk() if s.get("k") == "BinaryOperator" and s.get("op") == "=" and _key(fn, s["c"][0]) == F]
        okc = bool(stores)
        for s in stores:
            src = _key(fn, s["c"][1])
            # guard: field > src on every path to the store
            good = False
            for st in iv.states_at(s) or []:
                c = iv.rel(st, src, F) if src is not None else None      # src <= F + c, want c <= -1
                good = c is not None and c <= -1
                if not good:
                    break
            if not good:
                okc = False
        if okc:
            R.ob(rule, "%s: .%s = max only where .%s > max" % (name, field, field), True)
        else:
            R.finding(rule, fn, "clamp store", "%s stores into .%s where the field is not known to exceed the stored maximum: the "
                      "field can be raised or changed for valid dates" % (name, field), stores[0] if stores else None)
        # the early-out threshold: field <= T skips the clamp; T must not exceed the smallest maximum
        thr = None
        for x in fn.walk():
            if x.get("k") == "BinaryOperator" and x.get("op") in ("<=", "<") and _key(fn, x["c"][0]) == F and const_of(x["c"][1]) is not None:
                t = const_of(x["c"][1]) - (1 if x["op"] == "<" else 0)
                thr = t if thr is None else max(thr, t)
                node = x
        if thr is None:
            R.ob(rule, "%s has no early-out" % name, True)
        elif thr <= least:
            R.ob(rule, "%s: early-out for .%s <= %d, every period has at least %d %s" % (name, field, thr, least, what), True)
        else:
            R.finding(rule, fn, "early-out threshold", "values of .%s up to %d skip the clamp, but there are periods with only %d %s"
                      % (field, thr, least, what), node)


def check_dominance(P, R, tu, dtu):
    rule = "RF-dom-fix"
    # dt_dfixup dispatches each calendar to its fixup
    fx = tu.func("dt_dfixup")
    if fx is None:
        raise AnalysisBroken("dt_dfixup vanished")
    R.saw(fx)
    want = {"DT_YMD": "__ymd_fixup", "DT_YMCW": "__ymcw_fixup", "DT_YWD": "__ywd_fixup", "DT_YD": "__yd_fixup", "DT_BIZDA": "__bizda_fixup"}
    sws = list(fx.switches())
    if not sws:
        raise AnalysisBroken("%s: dt_dfixup has no switch" % rule)
    from core import switch_cases
    groups = switch_cases(sws[0])
    for en, callee in want.items():
        v = tu.enum_value(en)
        hit = False
        for g in groups:
            if any(l["lo"] is not None and l["lo"] <= v <= l["hi"] for l in g["labels"]):
                hit = any(y.get("k") == "CallExpr" and y.get("callee") == callee for s in g["stmts"] for y in walk(s))
        if hit:
            R.ob(rule, "dt_dfixup: %s -> %s" % (en, callee), True)
        else:
            R.finding(rule, fx, "dispatch %s" % en, "dt_dfixup does not hand %s dates to %s: they are printed unclamped" % (en, callee))
    # dt_fixup (the range test of dseq clamps through it): the date part is clamped for every kind of value that has one
    from core import SANDWICH_KINDS, sandwich_pred_value, guards_of
    fxu = dtu.func("dt_fixup")
    if fxu is None:
        raise AnalysisBroken("dt_fixup vanished")
    R.saw(fxu)
    fcs = [c for c in fxu.calls("dt_dfixup")]
    if not fcs:
        R.finding(rule, fxu, "dt_fixup", "dt_fixup no longer clamps the date part")
    else:
        gs = [g for g in guards_of(fxu, fcs[0]) if "pol" in g]
        for kind in ("date only", "date and time"):
            vs = [sandwich_pred_value(dtu, g["cond"], SANDWICH_KINDS[kind]) for g in gs]
            if any(v is None for v in vs):
                raise AnalysisBroken("%s: guard of the clamp in dt_fixup not decodable" % rule)
            if all((v if g["pol"] else not v) for v, g in zip(vs, gs)):
                R.ob(rule, "dt_fixup clamps %s values" % kind, True)
            else:
                R.finding(rule, fxu, "dt_fixup %s" % kind, "dt_fixup does not clamp the date part of %s values: an iterate like "
                          "2000-04-31T10:00:00 is compared unclamped with the bounds and a sequence by months stops one element early" % kind,
                          fcs[0])
    # dt_dconv: the fixup dominates every converter call
    cv = tu.func("dt_dconv")
    R.saw(cv)
    fcalls = [c for c in cv.calls("dt_dfixup")]
    convs = [c for c in cv.calls() if (c.get("callee") or "").startswith("dt_conv_to_")]
    if not convs:
        raise AnalysisBroken("%s: converter calls of dt_dconv not found" % rule)
    cfg = cv.cfg

    def blk(fn, n):
        cur = n
        while cur is not None:
            if "i" in cur and fn.cfg.stmt_block(cur["i"]):
                return fn.cfg.stmt_block(cur["i"])
            cur = fn.parent(cur)
        return None
    ok = bool(fcalls)
    if ok:
        fb = blk(cv, fcalls[0])
        for c in convs:
            cb = blk(cv, c)
            if not (cfg.dominates(fb[0], cb[0]) and (fb[0] != cb[0] or fb[1] < cb[1])):
                ok = False
        # and its result is what gets converted
        par = cv.parent(fcalls[0])
        while par is not None and par.get("k") in CASTS:
            par = cv.parent(par)
        if not (par is not None and par.get("k") == "BinaryOperator" and par.get("op") == "=" and
                _key(cv, par["c"][0]) == cv.params[1]["d"]):
            ok = False
    if ok:
        R.ob(rule, "dt_dconv: d = dt_dfixup(d) dominates all %d converter calls" % len(convs), True)
    else:
        R.finding(rule, cv, "fixup before conversion", "dt_dconv converts a date that was not passed through dt_dfixup first: "
                  "2012-02-31 style intermediate dates reach the converters")
    # dt_strfdt: every read of the date part is dominated by the guard of the fixup
    pf = dtu.func("dt_strfdt")
    if pf is None:
        raise AnalysisBroken("dt_strfdt vanished")
    R.saw(pf)
    fcalls = [c for c in pf.calls("dt_dfixup")]
    that = pf.params[3]["d"]
    reads = []
    for x in pf.walk():
        if x.get("k") == "MemberExpr":
            b, path = member_path(x)
            if b is not None and b.get("k") == "DeclRefExpr" and b.get("d") == that and len(path) >= 2 and path[0] == "d" and \
                    path[1] in ("ymd", "ymcw", "ywd", "yd", "bizda", "daisy", "ummulqura"):
                reads.append(x)
    if not reads:
        raise AnalysisBroken("%s: reads of the date part in dt_strfdt not found" % rule)
    ok = bool(fcalls)
    late = None
    if ok:
        fb = blk(pf, fcalls[0])
        pcfg = pf.cfg
        # the guard block: immediate predecessor chain -- use the nearest dominating block with a condition
        doms = [b for b in pcfg.blocks if pcfg.dominates(b, fb[0]) and b != fb[0] and pcfg.blocks[b].get("cond") is not None]
        gb = None
        for b in doms:
            if all(pcfg.dominates(o, b) for o in doms):
                gb = b
        par = pf.parent(fcalls[0])
        while par is not None and par.get("k") in CASTS:
            par = pf.parent(par)
        if not (par is not None and par.get("k") == "BinaryOperator" and par.get("op") == "=" and _key(pf, par["c"][0]) == (that, "d")):
            ok = False
        for x in reads:
            xb = blk(pf, x)
            if xb is None or any(y is x for y in walk(fcalls[0])):
                continue
            if gb is None or not pcfg.dominates(gb, xb[0]) or xb[0] in (gb,) or not (fb[0] in pcfg.reachable_from(gb)):
                ok = False
                late = x
            # the read must not be able to run before the fixup on a path through the guard: reads in blocks that can reach the fixup
            if fb[0] in pcfg.reachable_from(xb[0]) and xb[0] != fb[0]:
                ok = False
                late = x
    if ok:
        R.ob(rule, "dt_strfdt: that.d = dt_dfixup(that.d) precedes all %d reads of the date part" % len(reads), True)
    else:
        R.finding(rule, pf, "fixup before printing", "dt_strfdt reads the date part on a path that has not passed the fixup: an "
                  "unclamped day (2012-02-31) is printed", late)


def check(P, R, tier):
    tu = P.tu("libdut_a-date-core.o")
    dtu = P.tu("libdut_a-dt-core.o")
    check_month_adders(P, R, tu)
    check_year_adders(P, R, tu)
    check_effects(P, R, tu)
    check_clamps(P, R, tu)
    check_dominance(P, R, tu, dtu)
    # the clamp targets take the year's leapness from the one place that is checked (C01 RF2-leap)
    import c01
    c01.check_leap_source(P, R, tu)
    # the adders and the clamps decoded (the count symbolic over a window, the clamps over their whole domain)
    import monthdecode
    nm = monthdecode.run(R, tu, "RF2-mon")
    R.floor("RF2-mon", "decoded points of the month / year adders and fixups", nm, 30000)
    nd = monthdecode.run_dt(R, P, "RF2-mon")
    R.floor("RF2-mon", "decoded compositions of month / year steps on date-times", nd, 400)
    # a sign read apart from the number is applied by negating the parsed duration
    import durdecode
    nn = durdecode.check(R, P, "RF2-neg")
    R.floor("RF2-neg", "decoded parses / negations / sign tests of durations", nn, 150)
    # what the clamps clamp to: days, weekday counts and business days of a month as tables over their whole domain
    import lentab
    nl = lentab.check(P, R, tu, {"mdays", "mcnt", "bdays"}, rule="RF2-closed")
    R.floor("RF2-closed", "entries of the clamp targets spelled as closed forms", nl, 250)


LEVEL = ("Decides month / year addition structurally for all dates and counts: 12*year + month moves by exactly n (linear loop "
         "invariant), the stored month stays in 1..12 (interval analysis), only year and month are written so the day is kept and "
         "steps compose, every fixup clamps exactly its field down to the maximum and skips only values every period has, and "
         "the fixup dominates every conversion and print.  On top of that the adders are decoded with the count symbolic over "
         "+-40 months / +-6 years and the four fixups over their whole domain (RF2-mon).  The clamp targets themselves (days, "
         "weekday counts and business days per month) are decoded as tables over their whole domain (RF2-closed).")
RULE = "obligation = one adder invariant / range / write set, one fixup clamp, one dominance fact"
ASSUME = ["results stay inside the 12-bit year field (the property's 'result in range')", "input months are 1..12"]
