"""C11 — time-of-day and epoch arithmetic is exact across midnight.

Decided (for all inputs, as polynomial identities over the routines' statements -- see conserve.py -- plus interval facts):

 RF-cons-div   divrem(n, d) returns (q, r) with q*d + r == n on both of its paths
 RF-cons-epoch __sexy_to_daisy: 86400*(day - unix base) + 3600*h + 60*m + s == the epoch value it was given (truncating
               division, the borrow chain for negative values and the re-normalisation cancel exactly), with
               0 <= s < 60, 0 <= m < 60, 0 <= h < 24 at the stores (interval analysis); the unix base is 1970-01-01
 RF-cons-tadd  dt_tadd_s: carry*(86400 + corr) + 3600*h' + 60*m' + s' == 3600*h + 60*m + s + durs on the regular path;
               the leap-second-day path is entered only for a remainder >= 86400, i.e. only if corr > 0
 RF-lin-epoch  __to_unix_epoch is 86400*(day - base) + 3600*h + 60*m + s: the inverse of the above, same base
 RF-split      dt_dtadd: large second counts are split as carry = dv / 86400 before dv = dv % 86400 (same constant, this
               order), dv goes to dt_tadd_s, its carry is added, the sum is what dt_dadd receives as days; the scaling of
               hour / minute counts to seconds is done in 64 bits
 RF9-scale     the three places that scale duration units to seconds (dt_dtadd, __sexy_add, ddiff's __strf_tot_secs) use
               hour = 3600, minute = 60, second = 1 through their fall-through chains

Not decided: that dt_dadd moves the date by the carried days (C03), time zones, leap second corrections (corr != 0).
"""
from core import (AnalysisBroken, strip, kids, const_of, call_args, expr_text, walk, CASTS, member_path, switch_cases)
import conserve
from conserve import Poly, Summariser, inp
import intervals
from intervals import Intervals
from oracle import gregorian as G


def divrem_summary(sm, call, path):
    a = call_args(call)
    n, d = sm.ev(a[0], path), sm.ev(a[1], path)
    fq = Poly.sym(("fq", n.freeze(), d.freeze()))
    return {"div": fq, "rem": n - fq * d}


def check_divrem(P, R, tu):
    rule = "RF-cons-div"
    fn = tu.func("divrem")
    if fn is None:
        raise AnalysisBroken("divrem vanished")
    R.saw(fn)
    sm = Summariser(fn)
    paths = sm.summarise()
    n, d = inp(fn.params[0]["d"]), inp(fn.params[1]["d"])
    if not paths:
        raise AnalysisBroken("%s: no return path of divrem summarised" % rule)
    for i, p in enumerate(paths):
        if not isinstance(p.ret, dict) or "div" not in p.ret or "rem" not in p.ret:
            raise AnalysisBroken("%s: divrem does not return (div, rem)" % rule)
        diff = p.ret["div"] * d + p.ret["rem"] - n
        if not diff:
            R.ob(rule, "divrem path %d: div * mod + rem == n" % (i + 1), True)
        else:
            R.finding(rule, fn, "path %d" % (i + 1), "on this path div * mod + rem - n = %s, not 0: quotient and remainder do not "
                      "recombine to the number divided" % diff.text(sm.names))
    R.floor(rule, "paths of divrem", len(paths), 2)


def check_sexy(P, R, tu):
    rule = "RF-cons-epoch"
    fn = tu.func("__sexy_to_daisy")
    if fn is None:
        raise AnalysisBroken("__sexy_to_daisy vanished")
    R.saw(fn)
    sm = Summariser(fn)
    paths = sm.summarise()
    sx = inp(fn.params[0]["d"])
    base = G.daisy(1970, 1, 1, tu.enum_value("DT_MIN_YEAR") or 1601)
    for i, p in enumerate(paths):
        r = p.ret
        need = ("t.hms.s", "t.hms.m", "t.hms.h", "d.daisy")
        if not isinstance(r, dict) or any(k not in r for k in need):
            raise AnalysisBroken("%s: result of __sexy_to_daisy lacks one of %s (has %s)" % (rule, need, sorted(r) if isinstance(r, dict) else r))
        total = (r["d.daisy"] - Poly.const(base)) * Poly.const(86400) + r["t.hms.h"] * Poly.const(3600) + \
            r["t.hms.m"] * Poly.const(60) + r["t.hms.s"]
        diff = total - sx
        if not diff:
            R.ob(rule, "__sexy_to_daisy: 86400*(day - %d) + 3600h + 60m + s == epoch seconds" % base, True)
        else:
            R.finding(rule, fn, "total seconds", "86400*(day - %d) + 3600h + 60m + s differs from the epoch value by %s: the borrow chain / "
                      "normalisation does not cancel (a negative epoch comes out shifted)" % (base, diff.text(sm.names)[:300]))
    # ranges at the stores
    iv = Intervals(fn).run()
    lim = {"s": 59, "m": 59, "h": 23}
    n = 0
    for x in fn.walk():
        if x.get("k") == "BinaryOperator" and x.get("op") == "=":
            b, path = member_path(strip(x["c"][0])) if strip(x["c"][0]).get("k") == "MemberExpr" else (None, None)
            if path and path[-1] in lim and "hms" in path:
                n += 1
                rg = iv.range_at(x, x["c"][1])
                if rg is not None and rg[0] is not None and rg[0] >= 0 and rg[1] is not None and rg[1] <= lim[path[-1]]:
                    R.ob(rule, "__sexy_to_daisy: .%s in 0..%d" % (path[-1], lim[path[-1]]), True)
                else:
                    R.finding(rule, fn, "range of %s" % path[-1], "the value stored into .%s ranges over %s, not 0..%d" % (path[-1], rg, lim[path[-1]]), x)
    R.floor(rule, "h/m/s stores", n, 3)


def check_tadd(P, R, tu):
    rule = "RF-cons-tadd"
    fn = tu.func("dt_tadd_s")
    if fn is None:
        raise AnalysisBroken("dt_tadd_s vanished")
    R.saw(fn)
    sm = Summariser(fn, {"divrem": divrem_summary})
    paths = sm.summarise()
    t, durs, corr = fn.params[0]["d"], fn.params[1]["d"], fn.params[2]["d"]
    h0, m0, s0 = inp((t, "hms.h")), inp((t, "hms.m")), inp((t, "hms.s"))
    before = h0 * Poly.const(3600) + m0 * Poly.const(60) + s0 + inp(durs)
    day = Poly.const(86400) + inp(corr)
    good = 0
    others = 0
    for p in paths:
        r = p.ret
        if not isinstance(r, dict):
            raise AnalysisBroken("%s: dt_tadd_s does not return the time with its carry" % rule)
        # a path that hands the argument back leaves what the caller had in the carry slot
        after = r.get("carry", inp((t, "carry"))) * day + r.get("hms.h", h0) * Poly.const(3600) + r.get("hms.m", m0) * Poly.const(60) + r.get("hms.s", s0)
        diff = after - before
        if not diff:
            good += 1
        else:
            others += 1
            last = diff
    if good >= 1:
        R.ob(rule, "dt_tadd_s: carry*(86400 + corr) + 3600h' + 60m' + s' == 3600h + 60m + s + durs on the regular path", True)
    else:
        R.finding(rule, fn, "total seconds", "no path of dt_tadd_s conserves the seconds: carry*(86400+corr) + h':m':s' - (h:m:s + durs) = %s"
                  % last.text(sm.names)[:300])
    # the irregular path: only for remainder >= 86400, which needs corr > 0
    conds = [x for x in fn.walk() if x.get("k") == "IfStmt"]
    okc = False
    for x in conds:
        for c in walk(x["c"][0]):
            if c.get("k") == "BinaryOperator" and c.get("op") in ("<", ">=", ">", "<="):
                # remainder against the length of a day, written either way round
                for a_, b_, ops in ((c["c"][0], c["c"][1], ("<", ">=")), (c["c"][1], c["c"][0], (">", "<="))):
                    l = strip(a_)
                    while l is not None and l.get("k") in CASTS and l.get("c"):
                        l = strip(l["c"][0])
                    if c.get("op") in ops and const_of(b_) == 86400 and l is not None and l.get("k") == "MemberExpr" and l.get("n") == "rem":
                        okc = True
    if others <= 1 and okc:
        R.ob(rule, "dt_tadd_s: the leap-second-day path is taken only for a remainder >= 86400 (corr > 0)", True)
    elif okc and good >= 1:
        # more exits than the one regular and the one leap-day path (a short-cut, say): whether each of them is right is a matter
        # of the values on it, which RF2-time decides by folding dt_dtadd (single additions and two in a row); no verdict here
        R.notes.append("%s: %d exits of dt_tadd_s besides the regular one were not matched against the identity (decided by RF2-time)" % (rule, others))
    else:
        R.finding(rule, fn, "irregular path", "%d paths of dt_tadd_s do not conserve the seconds and are not confined to remainders >= 86400"
                  % others)


def check_unix(P, R, dtu):
    rule = "RF-lin-epoch"
    fn = dtu.func("__to_unix_epoch")
    if fn is None:
        raise AnalysisBroken("__to_unix_epoch vanished")
    R.saw(fn)
    sm = Summariser(fn)
    # non-comparison conditions fork without information
    paths = _summ_lenient(sm)
    dt = fn.params[0]["d"]
    base = G.daisy(1970, 1, 1, 1601)
    hit = False
    for p in paths:
        r = p.ret
        if not isinstance(r, Poly):
            continue
        ops = [s for s in r.symbols() if isinstance(s, tuple) and s[0] == "opaque"]
        if len(ops) != 1:
            continue
        exp = (Poly.sym(ops[0]) - Poly.const(base)) * Poly.const(86400) + inp((dt, "t.hms.h")) * Poly.const(3600) + \
            inp((dt, "t.hms.m")) * Poly.const(60) + inp((dt, "t.hms.s"))
        hit = True
        if not (r - exp):
            R.ob(rule, "__to_unix_epoch = 86400*(day - %d) + 3600h + 60m + s" % base, True)
        else:
            R.finding(rule, fn, "epoch formula", "__to_unix_epoch differs from 86400*(day - %d) + 3600h + 60m + s by %s"
                      % (base, (r - exp).text(sm.names)[:200]))
    if not hit:
        raise AnalysisBroken("%s: the day-count path of __to_unix_epoch was not recognised" % rule)


def _summ_lenient(sm):
    orig = sm._boolean

    def stmt(s, paths, _stmt=sm.stmt):
        if s.get("k") == "IfStmt":
            out = []
            for p in paths:
                try:
                    c = sm.ev(s["c"][0], p)
                except AnalysisBroken:
                    c = None
                for val, branch in ((1, s["c"][1]), (0, s["c"][2] if len(s["c"]) > 2 else None)):
                    q = p.fork()
                    if c is not None and orig(c):
                        sm.assume(q, c, val)
                    if branch is not None:
                        out += sm.stmt(branch, [q])
                    else:
                        out.append(q)
            return out
        return _stmt(s, paths)
    sm.stmt = stmt
    return sm.summarise()


UNIT = {"DT_DURH": 3600, "DT_DURM": 60, "DT_DURS": 1}


def scale_chain(fn, var_name):
    """switch over the duration type: {enumerator: product of the constants `var *= c` along the fall-through chain}"""
    for sw in fn.switches():
        groups = switch_cases(sw)
        labs = {l["en"] for g in groups for l in g["labels"] if l["en"]}
        if not ({"DT_DURH", "DT_DURM", "DT_DURS"} <= labs):
            continue
        if len({i for i, g in enumerate(groups) for l in g["labels"] if l["en"] in UNIT}) < 3:
            # the three units share one body: a dispatch on the unit, not the scaling chain
            continue
        out = {}
        widths = []
        for i, g in enumerate(groups):
            names = [l["en"] for l in g["labels"] if l["en"] in UNIT]
            if not names:
                continue
            f = 1
            j = i
            while True:
                for s in groups[j]["stmts"]:
                    for x in walk(s):
                        if x.get("k") == "CompoundAssignOperator" and x.get("op") == "*=" and const_of(x["c"][1]) is not None:
                            l = strip(x["c"][0])
                            if l is not None and l.get("k") == "DeclRefExpr" and l.get("n") == var_name:
                                f *= const_of(x["c"][1])
                                widths.append((fn.tu.types[l["t"]].get("w"), x))
                        elif x.get("k") == "BinaryOperator" and x.get("op") == "=":
                            # v = v * c, written out
                            l, r = strip(x["c"][0]), strip(x["c"][1])
                            while r is not None and r.get("k") in CASTS and r.get("c"):
                                r = strip(r["c"][0])
                            if l is not None and l.get("k") == "DeclRefExpr" and l.get("n") == var_name and r is not None \
                                    and r.get("k") == "BinaryOperator" and r.get("op") == "*":
                                a_, b_ = strip(r["c"][0]), strip(r["c"][1])
                                while a_ is not None and a_.get("k") in CASTS and a_.get("c"):
                                    a_ = strip(a_["c"][0])
                                while b_ is not None and b_.get("k") in CASTS and b_.get("c"):
                                    b_ = strip(b_["c"][0])
                                for v_, c_ in ((a_, b_), (b_, a_)):
                                    if v_ is not None and v_.get("k") == "DeclRefExpr" and v_.get("n") == var_name and const_of(c_) is not None:
                                        f *= const_of(c_)
                                        widths.append((fn.tu.types[r["t"]].get("w") if r.get("t") is not None else fn.tu.types[l["t"]].get("w"), x))
                                        break
                if groups[j].get("falls") and j + 1 < len(groups):
                    j += 1
                else:
                    break
            for nm in names:
                out[nm] = f
        return out, widths
    return None, None


def check_scale(P, R, dtu):
    rule = "RF9-scale"
    sites = [(dtu, "dt_dtadd", "dv"), (dtu, "__sexy_add", "dv"), (P.tu("ddiff-ddiff.o"), "__strf_tot_secs", "s")]
    for tu, fname, var in sites:
        fn = tu.func(fname)
        if fn is None:
            raise AnalysisBroken("%s vanished" % fname)
        R.saw(fn)
        got, widths = scale_chain(fn, var)
        if got is None:
            raise AnalysisBroken("%s: the unit switch of %s was not recognised" % (rule, fname))
        if got == UNIT:
            R.ob(rule, "%s scales hours by 3600, minutes by 60, seconds by 1" % fname, True)
        else:
            R.finding(rule, fn, "unit factors", "%s scales %s; an hour has 3600 s, a minute 60 s" % (fname, got))
        bad = [x for w, x in widths if (w or 0) < 64]
        if not bad:
            R.ob("RF-split", "%s: unit scaling in 64 bits" % fname, True)
        else:
            R.finding("RF-split", fn, "scaling width", "%s scales the count in less than 64 bits: hour counts above 596523 wrap" % fname, bad[0])


def check_split(P, R, dtu):
    rule = "RF-split"
    fn = dtu.func("dt_dtadd")
    R.saw(fn)
    cfg = fn.cfg
    divs = []
    for x in fn.walk():
        if x.get("k") == "BinaryOperator" and x.get("op") == "=":
            r = strip(x["c"][1])
            l = strip(x["c"][0])
            if r is not None and r.get("k") == "BinaryOperator" and r.get("op") in ("/", "%") and const_of(r["c"][1]) == 86400 \
                    and l is not None and l.get("k") == "DeclRefExpr":
                o = strip(r["c"][0])
                if o is not None and o.get("k") == "DeclRefExpr":
                    divs.append((r["op"], l["d"], o["d"], x))
    q = [d for d in divs if d[0] == "/"]
    m = [d for d in divs if d[0] == "%"]
    if len(q) != 1 or len(m) != 1:
        raise AnalysisBroken("%s: carry = dv / 86400; dv = dv %% 86400 of dt_dtadd not recognised (%d, %d)" % (rule, len(q), len(m)))
    (_, carry, dvq, qn), (_, dvm_t, dvm, mn) = q[0], m[0]
    bq, bm = cfg.stmt_block(qn["i"]), cfg.stmt_block(mn["i"])
    if dvq == dvm == dvm_t and bq and bm and bq[0] == bm[0] and bq[1] < bm[1]:
        R.ob(rule, "dt_dtadd: carry = dv / 86400 is taken before dv is reduced modulo 86400", True)
    else:
        R.finding(rule, fn, "split order", "the day carry must be taken from the unreduced count: carry = dv / 86400, then dv = dv %% 86400 "
                  "on the same variable", qn)
    # dv goes to dt_tadd_s; its carry is added; the sum goes to the date adder
    calls = [c for c in fn.calls("dt_tadd_s") if strip(call_args(c)[1]).get("k") == "DeclRefExpr" and strip(call_args(c)[1]).get("d") == dvm]
    adds = [x for x in fn.walk() if x.get("k") == "CompoundAssignOperator" and x.get("op") == "+=" and
            strip(x["c"][0]).get("k") == "DeclRefExpr" and strip(x["c"][0]).get("d") == carry and
            strip(x["c"][1]).get("k") == "MemberExpr" and strip(x["c"][1]).get("n") == "carry"]
    feeds = [x for x in fn.walk() if x.get("k") == "BinaryOperator" and x.get("op") == "=" and
             strip(x["c"][0]).get("k") == "MemberExpr" and strip(x["c"][0]).get("n") == "dv" and
             strip(x["c"][1]).get("k") == "DeclRefExpr" and strip(x["c"][1]).get("d") == carry]
    if calls and adds and feeds:
        cb, ab, fb = cfg.stmt_block(calls[0]["i"]), _blk(fn, adds[0]), cfg.stmt_block(feeds[0]["i"])
        order = cb and ab and fb and (cfg.dominates(cb[0], ab[0])) and cfg.dominates(ab[0], fb[0])
        if order:
            R.ob(rule, "dt_dtadd: reduced seconds -> dt_tadd_s, its carry added to the day carry, the sum handed to the date adder", True)
        else:
            R.finding(rule, fn, "carry flow", "the carry of dt_tadd_s is not added to the day carry before the days are handed to the date adder")
    else:
        R.finding(rule, fn, "carry flow", "dt_dtadd no longer passes the reduced seconds to dt_tadd_s (%d), adds its carry (%d) and feeds the "
                  "days to the date adder (%d)" % (len(calls), len(adds), len(feeds)))


def _blk(fn, n):
    cur = n
    while cur is not None:
        if "i" in cur and fn.cfg.stmt_block(cur["i"]):
            return fn.cfg.stmt_block(cur["i"])
        cur = fn.parent(cur)
    return None


def check(P, R, tier):
    import timedecode
    ntd = timedecode.run_parallel(R, P, "RF2-time", every=(tier == "thorough"), jobs=14)
    R.floor("RF2-time", "decoded points of second / minute / hour addition, epoch conversion and second differences", ntd, 2000000)
    ttu = P.tu("libdut_a-time-core.o")
    dtu = P.tu("libdut_a-dt-core.o")
    check_divrem(P, R, ttu)
    check_tadd(P, R, ttu)
    check_sexy(P, R, dtu)
    check_unix(P, R, dtu)
    check_split(P, R, dtu)
    check_scale(P, R, dtu)


LEVEL = ("Decides conservation of the total number of seconds in the routines that split and recombine it, as polynomial "
         "identities over their statements (truncating division as quotient symbols, comparisons as 0/1 symbols, both paths of "
         "every branch): divrem, dt_tadd_s (regular path), __sexy_to_daisy including its borrow chain for negative epochs, and "
         "the linear form of __to_unix_epoch; interval analysis bounds h, m, s at the stores; the order and data flow of the "
         "day-carry split in dt_dtadd and the unit factors of the three duration scalers are checked structurally.  Machine "
         "overflow, the date part of the addition (C03) and leap second corrections are not decided.")
RULE = "obligation = one path identity, one range at a store, one order / data-flow fact, one unit table"
ASSUME = ["no signed overflow in int arithmetic of dt_tadd_s (its callers pass |durs| < 86400, checked at dt_dtadd's split)",
          "the C remainder is smaller in magnitude than the divisor, so divrem's remainder is in [0, mod)"]
