"""RF2-cmp: comparison decoded: dt_dcmp / dt_dtcmp order values as the timeline does, in every representation.

For the days of a grid (the ends and the middle of every month) of the 21 class years and of the year after, held in each
representation (the representation produced by folding the converter), every pair is compared by folding dt_dcmp; the sign must be
the sign of the difference of the days.  Date-times (a day with one of five times of day; one second with five sub-second parts) and epoch values (negative ones included)
go through dt_dtcmp."""
import datetime
from core import AnalysisBroken, NotConst
import fold
import convdecode

REPR = (("DT_YMD", "ymd", None), ("DT_YD", "yd", "__ymd_to_yd"), ("DT_YWD", "ywd", "__ymd_to_ywd"), ("DT_YMCW", "ymcw", "__ymd_to_ymcw"),
        ("DT_DAISY", "daisy", "__ymd_to_daisy"), ("DT_LDN", "ldn", ("__ymd_to_daisy", "__daisy_to_ldn")), ("DT_MDN", "mdn", ("__ymd_to_daisy", "__daisy_to_mdn")))
_G = {}


def _conv(call, tu, conv, ymd):
    if conv is None:
        return ymd
    if isinstance(conv, tuple):
        r = ymd
        for c in conv:
            r = call(tu, c, r)
        return r
    return call(tu, conv, ymd)


def _sgn(x):
    return (x > 0) - (x < 0)


def _worker(ys):
    tu, dtu, res, E = _G["tu"], _G["dtu"], _G["resolve"], _G["E"]
    fold.RESOLVE["fn"] = res
    tabs = {}

    def call(t, name, *args):
        fo = fold.Folder(t.func(name), calls={}, inline=True, max_steps=400000)
        fo._tabs = tabs
        return fo.run(list(args))
    bad = {}
    n = 0
    for y in ys:
        days = []
        for yy in (y, y + 1):
            for m in range(1, 13):
                for dd in (1, 2, 7, 8, 15, 28):
                    days.append(datetime.date(yy, m, dd))
            days.append(datetime.date(yy, 12, 31))
        for tag, mem, conv in REPR:
            vals = []
            for d in days:
                ymd = {"y": d.year, "m": d.month, "d": d.day}
                r = _conv(call, tu, conv, ymd)
                vals.append({"typ": E[tag], mem: r} if not isinstance(r, dict) else {"typ": E[tag], **{mem + "." + k: v for k, v in r.items()}})
            for i in range(0, len(days), 1):
                for j in range(i, min(len(days), i + 40)):
                    for a, b in ((i, j), (j, i)):
                        n += 1
                        got = call(tu, "dt_dcmp", dict(vals[a]), dict(vals[b]))
                        exp = _sgn((days[a] - days[b]).days)
                        if got != exp:
                            lst = bad.setdefault("dates held as %s" % tag, [])
                            if len(lst) < 200:
                                lst.append((days[a].isoformat(), days[b].isoformat(), got, exp))
            # far apart: the ends of the supported range, century leap / non-leap days, the epoch, against the year's own ends
            far = [datetime.date(1601, 1, 1), datetime.date(1700, 3, 1), datetime.date(1900, 2, 28), datetime.date(1969, 12, 31),
                   datetime.date(1970, 1, 1), datetime.date(2000, 2, 29), datetime.date(2400, 2, 29), datetime.date(3000, 7, 4),
                   datetime.date(4093, 12, 31)]
            fvals = []
            for d in far:
                ymd = {"y": d.year, "m": d.month, "d": d.day}
                r = _conv(call, tu, conv, ymd)
                fvals.append({"typ": E[tag], mem: r} if not isinstance(r, dict) else {"typ": E[tag], **{mem + "." + k: v for k, v in r.items()}})
            own = [(days[0], vals[0]), (days[len(days) // 2 - 1], vals[len(days) // 2 - 1])]
            pairs = [(da, va, db, vb) for (da, va) in own for (db, vb) in zip(far, fvals)]
            pairs += [(far[i_], fvals[i_], far[j_], fvals[j_]) for i_ in range(len(far)) for j_ in range(len(far))] if y == ys[0] else []
            for da, va, db, vb in pairs:
                for (d1, v1, d2, v2) in ((da, va, db, vb), (db, vb, da, va)):
                    n += 1
                    got = call(tu, "dt_dcmp", dict(v1), dict(v2))
                    exp = _sgn((d1 - d2).days)
                    if got != exp:
                        lst = bad.setdefault("dates held as %s" % tag, [])
                        if len(lst) < 200:
                            lst.append((d1.isoformat(), d2.isoformat(), got, exp))
        # date-times and epoch values
        times = [(0, 0, 0), (0, 0, 1), (12, 0, 0), (23, 59, 59)]
        pts = [datetime.datetime(y, m, dd, *t) for (m, dd) in ((1, 1), (6, 30), (12, 31)) for t in times]
        recs = [{"typ": E["DT_YMD"], "sandwich": 1, "d.typ": E["DT_YMD"], "d.ymd.y": p.year, "d.ymd.m": p.month, "d.ymd.d": p.day,
                 "t.typ": E["DT_HMS"], "t.hms.h": p.hour, "t.hms.m": p.minute, "t.hms.s": p.second, "t.hms.ns": 0} for p in pts]
        # both sides of the epoch, too: instants before 1970 are negative numbers
        pts += [datetime.datetime(1969, 12, 31, 23, 58, 20), datetime.datetime(1969, 12, 31, 23, 59, 59), datetime.datetime(1970, 1, 1, 0, 0, 0),
                datetime.datetime(1970, 1, 1, 0, 1, 40)]
        # far apart: beyond 32-bit second counts on both sides
        pts += [datetime.datetime(1601, 1, 1, 0, 0, 0), datetime.datetime(1901, 12, 13, 20, 45, 52), datetime.datetime(2038, 1, 19, 3, 14, 8),
                datetime.datetime(2106, 2, 7, 6, 28, 16), datetime.datetime(4093, 12, 31, 23, 59, 59)]
        recs = [{"typ": E["DT_YMD"], "sandwich": 1, "d.typ": E["DT_YMD"], "d.ymd.y": p.year, "d.ymd.m": p.month, "d.ymd.d": p.day,
                 "t.typ": E["DT_HMS"], "t.hms.h": p.hour, "t.hms.m": p.minute, "t.hms.s": p.second, "t.hms.ns": 0} for p in pts]
        ep = [int((p - datetime.datetime(1970, 1, 1)).total_seconds()) for p in pts]
        # date-times whose date part is held in another representation: the same order (the time decides on one and the same day)
        own = [datetime.datetime(y, m, dd, *t) for (m, dd) in ((1, 1), (6, 30)) for t in times]
        for tag, mem, conv in REPR[1:]:
            rr2 = []
            for p in own:
                ymd = {"y": p.year, "m": p.month, "d": p.day}
                r = _conv(call, tu, conv, ymd)
                dpart = {"d." + mem: r} if not isinstance(r, dict) else {"d." + mem + "." + k: v for k, v in r.items()}
                rr2.append({"typ": E[tag], "sandwich": 1, "d.typ": E[tag], "t.typ": E["DT_HMS"], "t.hms.h": p.hour, "t.hms.m": p.minute,
                            "t.hms.s": p.second, "t.hms.ns": 0, **dpart})
            for i in range(len(own)):
                for j in range(len(own)):
                    n += 1
                    got = call(dtu, "dt_dtcmp", dict(rr2[i]), dict(rr2[j]))
                    exp = _sgn((own[i] - own[j]).total_seconds())
                    if got != exp:
                        lst = bad.setdefault("date-times", [])
                        if len(lst) < 200:
                            lst.append((own[i].isoformat() + " held as " + tag, own[j].isoformat(), got, exp))
        sx = [{"typ": E["DT_SEXY"], "sandwich": 0, "sexy": e} for e in ep]
        for kind, rr in (("date-times", recs), ("epoch values", sx)):
            for i in range(len(pts)):
                for j in range(len(pts)):
                    n += 1
                    got = call(dtu, "dt_dtcmp", dict(rr[i]), dict(rr[j]))
                    exp = _sgn(ep[i] - ep[j])
                    if got != exp:
                        lst = bad.setdefault(kind, [])
                        if len(lst) < 200:
                            lst.append((pts[i].isoformat(), pts[j].isoformat(), got, exp))
        # below the second: the same day and second, different nanoseconds (parsed with %N) -- the order is the nanoseconds' order
        base = datetime.datetime(y, 6, 30, 12, 0, 1)
        nss = [0, 1, 250000000, 500000000, 999999999]
        sub = [{"typ": E["DT_YMD"], "sandwich": 1, "d.typ": E["DT_YMD"], "d.ymd.y": base.year, "d.ymd.m": base.month, "d.ymd.d": base.day,
                "t.typ": E["DT_HMS"], "t.hms.h": base.hour, "t.hms.m": base.minute, "t.hms.s": base.second, "t.hms.ns": ns} for ns in nss]
        for i in range(len(nss)):
            for j in range(len(nss)):
                n += 1
                got = call(dtu, "dt_dtcmp", dict(sub[i]), dict(sub[j]))
                exp = _sgn(nss[i] - nss[j])
                if got != exp:
                    lst = bad.setdefault("date-times", [])
                    if len(lst) < 200:
                        lst.append((base.isoformat() + ".%09d" % nss[i], base.isoformat() + ".%09d" % nss[j], got, exp))
    return n, bad


def run_parallel(R, P, rule, jobs=12):
    import multiprocessing as mp
    tu, dtu = P.tu("libdut_a-date-core.o"), P.tu("libdut_a-dt-core.o")
    libs = [dtu, tu, P.tu("libdut_a-time-core.o")]
    for t, f in ((tu, "dt_dcmp"), (dtu, "dt_dtcmp")):
        if t.func(f) is None:
            raise AnalysisBroken("%s vanished" % f)
        R.saw(t.func(f))

    def resolve(name):
        for l in libs:
            f = l.func(name)
            if f is not None and getattr(f, "body", None) is not None:
                return f
        return None
    E = {k: (tu.enum_value(k) if tu.enum_value(k) is not None else dtu.enum_value(k)) for k in ("DT_YMD", "DT_YD", "DT_YWD", "DT_YMCW", "DT_DAISY", "DT_LDN", "DT_MDN", "DT_HMS", "DT_SEXY")}
    if None in E.values():
        raise AnalysisBroken("%s: tags not found %s" % (rule, E))
    _G.update(tu=tu, dtu=dtu, resolve=resolve, E=E)
    years = convdecode.class_years()
    chunks = [c for c in (years[i::jobs] for i in range(jobs)) if c]
    try:
        ctx = mp.get_context("fork")
        with ctx.Pool(len(chunks)) as pool:
            parts = pool.map(_worker, chunks)
    except NotConst as e:
        raise AnalysisBroken("%s: a comparison left the foldable fragment (%s)" % (rule, e))
    n = 0
    bad = {}
    for k, b in parts:
        n += k
        for key, lst in b.items():
            bad.setdefault(key, []).extend(lst)
    kinds = ["dates held as %s" % t for t, _, _ in REPR] + ["date-times", "epoch values"]
    for kind in kinds:
        fn = dtu.func("dt_dtcmp") if kind in ("date-times", "epoch values") else tu.func("dt_dcmp")
        if kind in bad:
            lst = sorted(bad[kind])
            a, b, got, exp = lst[0]
            R.finding(rule, fn, "comparison of %s, decoded" % kind, "%s%d pairs are ordered against the timeline; first: %s compared with %s gives %s, "
                      "the timeline says %s" % (">= " if len(lst) >= 200 else "", len(lst), a, b, got, exp))
        else:
            R.ob(rule, "comparison of %s: the sign of the distance on the timeline for every pair of the grid" % kind, True)
    return n
