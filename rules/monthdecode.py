"""RF2-mon: the month and year adders and the clamps that follow them, decoded with the count kept symbolic.

Adders: for start dates in every month of every leap configuration (day 1, 28..31 / count 1, 4, 5 / week 1, 52, 53 / day-of-year 1,
59..61, 365, 366) the adder is folded with its count ranging over a window as one symbolic parameter; at every count the year and
month must have moved by exactly that much and every finer field must be untouched (that is what makes steps compose: clamping is
the business of the fixup that runs once, before conversion or printing).  Fixups: folded over their whole domain -- every month
of a leap and a common year with every day 1..31 (count 1..5 for every weekday, week 1..53 for every year class, day 1..366) -- the
field is the smaller of what it was and what the period has."""
import datetime
from core import AnalysisBroken, NotConst
import fold
from fold import Aff

WIN_M, WIN_Y = 40, 6
FAR_M = (-4800, -1201, -487, -121, 119, 480, 1200, 4799, 24000)
FAR_Y = (-400, -101, -33, 29, 100, 400, 1000, 2000)


def _leap(y):
    return int(y % 4 == 0 and (y % 100 != 0 or y % 400 == 0))


MD = [0, 31, 28, 31, 30, 31, 30, 31, 31, 30, 31, 30, 31]


def _mdays(y, m):
    return MD[m] + (1 if m == 2 and _leap(y) else 0)


def _isowk(y):
    return datetime.date(y, 12, 28).isocalendar()[1]


def _mcnt(y, m, w):
    return sum(1 for k in range(1, _mdays(y, m) + 1) if datetime.date(y, m, k).isoweekday() == w)


def _val(v, t):
    return v.c + v.k * t if isinstance(v, Aff) else v


def _split_run(tu, tabs, fname, src, lo, hi):
    fn = tu.func(fname)
    out = []
    work = [(lo, hi)]
    while work:
        a, b = work.pop()
        if a > b:
            continue
        try:
            tv = Aff(0, 1, (a, b)) if a < b else a
            fo = fold.Folder(fn, calls={}, inline=True, max_steps=600000)
            fo._tabs = tabs
            out.append(((a, b), fo.run([dict(src), tv])))
        except fold.Split as sp:
            work.append((a, sp.args[0] - 1))
            work.append((sp.args[0], b))
    return out


def run(R, tu, rule):
    tabs = {}
    n = 0
    bad = {}

    def note(key, item):
        lst = bad.setdefault(key, [])
        if len(lst) < 300:
            lst.append(item)
    need = ("__ymd_add_m", "__ymd_add_y", "__ymcw_add_m", "__ymcw_add_y", "__bizda_add_m", "__bizda_add_y", "__ywd_add_y", "__yd_add_y",
            "__ymd_fixup", "__ymcw_fixup", "__ywd_fixup", "__yd_fixup")
    for f in need:
        if tu.func(f) is None or getattr(tu.func(f), "body", None) is None:
            raise AnalysisBroken("%s: %s vanished" % (rule, f))
        R.saw(tu.func(f))
    try:
        # ---- month adders: (y, m) moves by n, the rest stays
        for fname, rest in (("__ymd_add_m", [{"d": k} for k in (1, 28, 29, 30, 31)]),
                            ("__ymcw_add_m", [{"c": c, "w": w} for c in (1, 4, 5) for w in (1, 4, 7)]),
                            ("__bizda_add_m", [{"bd": k} for k in (1, 20, 23)])):
            for y in (2011, 2012):
                for m in range(1, 13):
                    for extra in rest:
                        src = dict(extra, y=y, m=m)
                        runs = _split_run(tu, tabs, fname, src, -WIN_M, WIN_M)
                        if m in (1, 6, 12):
                            # far counts: decades and centuries either way
                            for far in FAR_M:
                                runs += _split_run(tu, tabs, fname, src, far, far)
                        for (a, b), res in runs:
                            for t in range(a, b + 1):
                                n += 1
                                tot = y * 12 + (m - 1) + t
                                exp = dict(extra, y=tot // 12, m=tot % 12 + 1)
                                got = {k: _val(res.get(k), t) for k in exp}
                                if got != exp:
                                    note(fname, ("%04d-%02d %s %+d months" % (y, m, extra, t), got, exp))
        # ---- year adders
        for fname, srcs in (("__ymd_add_y", [{"m": m, "d": d} for m in (1, 2, 12) for d in (1, 28, 29, 31)]),
                            ("__ymcw_add_y", [{"m": m, "c": c, "w": 3} for m in (1, 2, 12) for c in (1, 5)]),
                            ("__bizda_add_y", [{"m": 2, "bd": 20}]),
                            ("__yd_add_y", [{"d": d} for d in (1, 59, 60, 61, 365, 366)]),
                            ("__ywd_add_y", [{"c": c, "w": w} for c in (1, 52, 53) for w in (1, 7)])):
            for y in (2011, 2012, 2015):
                for extra in srcs:
                    src = dict(extra, y=y)
                    if fname == "__ywd_add_y":
                        src["hang"] = 0
                    runs = _split_run(tu, tabs, fname, src, -WIN_Y, WIN_Y)
                    for far in FAR_Y:
                        runs += _split_run(tu, tabs, fname, src, far, far)
                    for (a, b), res in runs:
                        for t in range(a, b + 1):
                            n += 1
                            exp = dict(extra, y=y + t)
                            if fname == "__ywd_add_y":
                                # the helper slot follows the year: how far its 1 January is off a Monday
                                exp["hang"] = {1: 0, 2: -1, 3: -2, 4: -3, 5: 3, 6: 2, 7: 1}[datetime.date(y + t, 1, 1).isoweekday()]
                            got = {k: _val(res.get(k), t) for k in exp}
                            if got != exp:
                                note(fname, ("%04d %s %+d years" % (y, extra, t), got, exp))
        # ---- fixups: whole domain
        def one(fname, src):
            fo = fold.Folder(tu.func(fname), calls={}, inline=True, max_steps=100000)
            fo._tabs = tabs
            return fo.run([dict(src)])
        for y in (2011, 2012, 2000, 2100):
            for m in range(1, 13):
                for d in range(1, 32):
                    n += 1
                    r = one("__ymd_fixup", {"y": y, "m": m, "d": d})
                    exp = {"y": y, "m": m, "d": min(d, _mdays(y, m))}
                    got = {k: r.get(k) for k in exp}
                    if got != exp:
                        note("__ymd_fixup", ("%04d-%02d-%02d" % (y, m, d), got, exp))
                for w in range(1, 8):
                    for c in range(1, 6):
                        n += 1
                        r = one("__ymcw_fixup", {"y": y, "m": m, "c": c, "w": w})
                        exp = {"y": y, "m": m, "c": min(c, _mcnt(y, m, w)), "w": w}
                        got = {k: r.get(k) for k in exp}
                        if got != exp:
                            note("__ymcw_fixup", ("%04d-%02d-%02d-%02d" % (y, m, c, w), got, exp))
            for d in range(1, 367):
                n += 1
                r = one("__yd_fixup", {"y": y, "d": d})
                exp = {"y": y, "d": min(d, 365 + _leap(y))}
                got = {k: r.get(k) for k in exp}
                if got != exp:
                    note("__yd_fixup", ("%04d-%03d" % (y, d), got, exp))
        for y in (2014, 2015, 2016, 2020, 2021):
            for c in range(1, 54):
                for w in (1, 7):
                    n += 1
                    r = one("__ywd_fixup", {"y": y, "c": c, "w": w, "hang": 0})
                    exp = {"y": y, "c": min(c, _isowk(y)), "w": w}
                    got = {k: r.get(k) for k in exp}
                    if got != exp:
                        note("__ywd_fixup", ("%04d-W%02d-%d" % (y, c, w), got, exp))
    except NotConst as e:
        raise AnalysisBroken("%s: a routine left the foldable fragment (%s)" % (rule, e))
    for f in need:
        if f in bad:
            what, got, exp = bad[f][0]
            R.finding(rule, tu.func(f), "%s decoded" % f, "%s%d points differ; first: %s gives %s where %s is due" %
                      (">= " if len(bad[f]) >= 300 else "", len(bad[f]), what, got, exp))
        else:
            R.ob(rule, "%s: decoded results are the definition's" % f, True)
    return n


def run_dt(R, P, rule):
    """date-times: month / quarter / year steps taken one after the other in one invocation compose -- dt_dtadd folded twice, then
    the print-time fix-up, against one step of the sum (the day is carried lazily between the steps and cropped at the end only)"""
    dtu = P.tu("libdut_a-dt-core.o")
    libs = [dtu, P.tu("libdut_a-date-core.o"), P.tu("libdut_a-time-core.o")]
    fadd, ffix = dtu.func("dt_dtadd"), dtu.func("dt_fixup")
    if fadd is None or ffix is None:
        raise AnalysisBroken("%s: dt_dtadd / dt_fixup vanished" % rule)
    R.saw(fadd)
    R.saw(ffix)

    def resolve(name):
        for l in libs:
            f = l.func(name)
            if f is not None and getattr(f, "body", None) is not None:
                return f
        return None
    fold.RESOLVE["fn"] = resolve
    E = {k: dtu.enum_value(k) for k in ("DT_YMD", "DT_HMS", "DT_DURMO", "DT_DURYR", "DT_DURQU")}
    tabs = {}

    def call(fn, *args):
        fo = fold.Folder(fn, calls={}, inline=True, max_steps=600000)
        fo._tabs = tabs
        return fo.run([dict(a) for a in args])
    n = 0
    bad = []
    try:
        for (y, m, d) in ((2012, 1, 31), (2012, 2, 29), (2011, 3, 31), (2012, 8, 31), (2012, 12, 31), (2012, 5, 30)):
            src = {"typ": E["DT_YMD"], "sandwich": 1, "d.typ": E["DT_YMD"], "d.ymd.y": y, "d.ymd.m": m, "d.ymd.d": d,
                   "t.typ": E["DT_HMS"], "t.hms.h": 10, "t.hms.m": 0, "t.hms.s": 0, "t.hms.ns": 0}
            for unit, mult in (("DT_DURMO", 1), ("DT_DURQU", 3), ("DT_DURYR", 12)):
                for a in (-3, -1, 1, 2, 4):
                    for b in (-2, 1, 3):
                        if a + b == 0:
                            continue
                        dur = lambda v: {"d.durtyp": E[unit], "d.dv": v, "neg": 0}
                        two = call(ffix, call(fadd, call(fadd, src, dur(a)), dur(b)))
                        one = call(ffix, call(fadd, src, dur(a + b)))
                        n += 2
                        g2 = tuple(two.get(k) for k in ("d.ymd.y", "d.ymd.m", "d.ymd.d", "t.hms.h"))
                        g1 = tuple(one.get(k) for k in ("d.ymd.y", "d.ymd.m", "d.ymd.d", "t.hms.h"))
                        tot = y * 12 + (m - 1) + (a + b) * mult
                        ey, em = tot // 12, tot % 12 + 1
                        exp = (ey, em, min(d, _mdays(ey, em)), 10)
                        if g1 != exp or g2 != exp:
                            bad.append(("%04d-%02d-%02dT10:00:00" % (y, m, d), "%+d then %+d %s" % (a, b, unit[6:].lower()), g2, g1, exp))
    except NotConst as e:
        raise AnalysisBroken("%s: dt_dtadd left the foldable fragment (%s)" % (rule, e))
    if bad:
        x, what, g2, g1, exp = bad[0]
        R.finding(rule, fadd, "month / year steps on date-times, decoded", "%d of %d (start, step, step) cases do not compose; first: %s %s gives %s, "
                  "in one step %s, the calendar says %s" % (len(bad), n // 2, x, what, g2, g1, exp))
    else:
        R.ob(rule, "dt_dtadd on date-times: %d pairs of month / quarter / year steps from month ends give what the sum gives in one step (the "
             "day cropped at the end only)" % (n // 2), True)
    return n
