"""RF2-acc: the accessors the date printers call give the calendar's value for every representation that reaches them.

For every (printer -> accessor) call site the tag-specialised interpretation of C02 yields the set of representations that reach it.
For each of them the accessor is folded (rules/fold.py) on that representation of every day of the 21 class years of
rules/convdecode.py -- the representation itself is produced by folding the converter from year-month-day -- and compared with
what the calendar says the accessor stands for: weekday, day of the year, quarter, month, day of the month, occurrence of the
weekday in the month, week of the year in each of the four counting conventions.  So `the same text for the same day whichever
representation the value is held in' is decided at the level of the values the printers print, for every day of the range (the
year-level tables being C01's)."""
import datetime
from core import AnalysisBroken, NotConst
import fold
import convdecode

REPR = {"DT_YMD": ("ymd", None), "DT_YD": ("yd", "__ymd_to_yd"), "DT_YWD": ("ywd", "__ymd_to_ywd"), "DT_YMCW": ("ymcw", "__ymd_to_ymcw"),
        "DT_DAISY": ("daisy", "__ymd_to_daisy")}


def _oracle(acc, d, extra):
    iy, iw, iwd = d.isocalendar()
    yday = d.timetuple().tm_yday
    if acc == "dt_get_wday":
        return iwd
    if acc == "dt_get_yday":
        return yday
    if acc == "dt_get_quarter":
        return (d.month - 1) // 3 + 1
    if acc == "dt_get_mon":
        return d.month
    if acc == "dt_get_mday":
        return d.day
    if acc == "dt_get_md":
        return {"m": d.month, "d": d.day}
    if acc == "dt_get_year":
        return d.year
    if acc == "dt_get_wcnt_mon":
        return (d.day - 1) // 7 + 1
    if acc == "dt_get_wcnt_year":
        cc = extra[0]
        if cc == 0:
            return int(d.strftime("%U"))
        if cc == 1:
            return int(d.strftime("%W"))
        if cc == 2:
            return iw
        return (yday - 1) // 7 + 1
    return None


EXTRA = {"dt_get_wcnt_year": [[0], [1], [2], [3]]}
_G = {}


def _worker(ys):
    tu, sites, E = _G["tu"], _G["sites"], _G["E"]
    tabs = {}

    def call(name, *args):
        fo = fold.Folder(tu.func(name), calls={}, inline=True, max_steps=400000)
        fo._tabs = tabs
        return fo.run(list(args))
    bad = {}
    n = 0
    for y in ys:
        d = datetime.date(y, 1, 1)
        while d.year == y:
            ymd = {"y": d.year, "m": d.month, "d": d.day}
            reprs = {}
            for tag, (mem, conv) in REPR.items():
                if conv is None:
                    reprs[tag] = {"typ": E[tag], **{"ymd." + k: v for k, v in ymd.items()}}
                else:
                    r = call(conv, ymd)
                    reprs[tag] = {"typ": E[tag], mem: r} if not isinstance(r, dict) else {"typ": E[tag], **{mem + "." + k: v for k, v in r.items()}}
            for acc, tags in sites:
                for extra in EXTRA.get(acc, [[]]):
                    exp = _oracle(acc, d, extra)
                    if exp is None:
                        continue
                    for tag in tags:
                        if tag not in reprs:
                            continue
                        try:
                            got = call(acc, reprs[tag], *extra)
                        except fold.Abort as e:
                            got = "abort: %s" % e
                        n += 1
                        if isinstance(exp, dict) and isinstance(got, dict):
                            got = {k: got.get(k) for k in exp}
                        if got != exp:
                            bad.setdefault((acc, tag, tuple(extra)), []).append((d.isoformat(), str(got), str(exp)))
            d += datetime.timedelta(days=1)
    return n, bad


def run_parallel(R, tu, rule, sites, jobs=12):
    """sites: list of (accessor name, iterable of tag names)"""
    import multiprocessing as mp
    E = {k: tu.enum_value(k) for k in REPR}
    if None in E.values():
        raise AnalysisBroken("%s: representation tags not found" % rule)
    merged = {}
    for acc, tags in sites:
        merged.setdefault(acc, set()).update(t for t in tags if t in REPR)
    sites = sorted((a, sorted(t)) for a, t in merged.items() if tu.func(a) is not None and _oracle(a, datetime.date(2012, 1, 1), EXTRA.get(a, [[]])[0]) is not None)
    if not sites:
        raise AnalysisBroken("%s: no accessor call sites to decode" % rule)
    years = convdecode.class_years()
    _G.update(tu=tu, sites=sites, E=E)
    chunks = [c for c in (years[i::jobs] for i in range(jobs)) if c]
    try:
        ctx = mp.get_context("fork")
        with ctx.Pool(len(chunks)) as pool:
            parts = pool.map(_worker, chunks)
    except NotConst as e:
        raise AnalysisBroken("%s: an accessor left the foldable fragment (%s)" % (rule, e))
    n = 0
    bad = {}
    for k, b in parts:
        n += k
        for key, lst in b.items():
            bad.setdefault(key, []).extend(lst)
    CC = {0: "weeks starting on Sunday", 1: "weeks starting on Monday", 2: "ISO weeks", 3: "seven-day blocks from 1 January"}
    for acc, tags in sites:
        f = tu.func(acc)
        R.saw(f)
        for tag in tags:
            keys = [k for k in bad if k[0] == acc and k[1] == tag]
            if not keys:
                R.ob(rule, "%s on a %s value is the calendar's value on every day of %d class years" % (acc, tag, len(years)), True)
            for key in sorted(keys):
                lst = sorted(bad[key])
                day, got, exp = lst[0]
                conv = (" (%s)" % CC[key[2][0]]) if key[2] else ""
                R.finding(rule, f, "%s on a %s value%s" % (acc, tag, conv), "%s%s gives a wrong value for %d days of the class years when the "
                          "value is held as %s; first: %s gives %s, the calendar says %s -- the same day prints differently depending on the "
                          "representation it is held in" % (acc, conv, len(lst), tag, day, got, exp))
    return n
