"""First-principles proleptic Gregorian / ISO 8601 oracle (no dateutils code involved)."""


def leapp(y):
    return (y % 4 == 0 and y % 100 != 0) or y % 400 == 0


MDAYS = [0, 31, 28, 31, 30, 31, 30, 31, 31, 30, 31, 30, 31]


def mdays(y, m):
    return 29 if (m == 2 and leapp(y)) else MDAYS[m]


def days_before_year(y):
    """days from 0001-01-01 to y-01-01 (proleptic Gregorian)"""
    y -= 1
    return y * 365 + y // 4 - y // 100 + y // 400


def yday(y, m, d):
    return sum(mdays(y, i) for i in range(1, m)) + d


def rata(y, m, d):
    """Rata Die: 0001-01-01 = 1"""
    return days_before_year(y) + yday(y, m, d)


def daisy(y, m, d, base_year=1601):
    """dateutils day count: base_year-01-01 = 1 (i.e. day 0 is Dec 31 of base_year - 1)"""
    return rata(y, m, d) - rata(base_year - 1, 12, 31)


def wday(y, m, d):
    """ISO weekday 1 = Monday .. 7 = Sunday; 0001-01-01 was a Monday"""
    return (rata(y, m, d) - 1) % 7 + 1


def from_rata(n):
    y = max(1, n // 366)
    while days_before_year(y + 1) < n:
        y += 1
    r = n - days_before_year(y)
    m = 1
    while r > mdays(y, m):
        r -= mdays(y, m)
        m += 1
    return y, m, r


def unix_days(y, m, d):
    return rata(y, m, d) - rata(1970, 1, 1)


def iso_weeks_in_year(y):
    # a year has 53 ISO weeks iff Jan 1 is a Thursday, or it is a leap year and Jan 1 is a Wednesday
    j = wday(y, 1, 1)
    return 53 if (j == 4 or (leapp(y) and j == 3)) else 52


def jdn(y, m, d):
    """Julian day number at noon of the date"""
    return rata(y, m, d) + 1721425


def iso_week(y, m, d):
    """ISO 8601 (week-year, week number, weekday) of a date, from the definition: week 1 is the week with the year's first
    Thursday; weeks start on Monday"""
    wd = wday(y, m, d)
    # the Thursday of this date's week decides the week-year
    thu = rata(y, m, d) - wd + 4
    ty = from_rata(thu)[0]
    wk = (thu - rata(ty, 1, 1)) // 7 + 1
    return ty, wk, wd
