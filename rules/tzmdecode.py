"""RF2-tzmvalid: the validator of compiled zone maps decoded against the invariants it stands for.

tzm_find follows zone offsets and scans for NUL bytes without looking at the file size; tzm_valid_p (lib/tzmap.c) is what makes that
safe.  It is folded as it stands on a small well-formed map and on every single-byte corruption of it (each byte of the mapped
names and of the last pool byte set to 0x00, 0x01, 0x41 and 0xff), plus pool offsets that are too small, too large or unaligned,
and must accept exactly the images for which the invariants hold: (I1) the pool offset is at least one word, leaves room for the
header and the byte in front of the mapped names is NUL; (I2) pool and mapped names are whole words, the names hold at least two
words (or none at all); (I3) the first word does not start with NUL and the last one does; (I4) every word starting with NUL ends
in NUL and its 16-bit value lies inside the pool."""
from core import AnalysisBroken, NotConst
import fold
from fold import CPtr, Ptr

HDR = 16


def _valid(off, data, fz):
    if fz != (fz & 0xffffffff) or off < 4 or off > fz - HDR:
        return 0
    if data[off - 1] != 0:
        return 0
    mz = fz - HDR - off
    if mz == 0:
        return 1
    if off % 4 or mz % 4 or mz < 8:
        return 0
    mn = data[off:]
    if mn[0] == 0 or mn[mz - 4] != 0:
        return 0
    for i in range(0, mz, 4):
        if mn[i] != 0:
            continue
        if mn[i + 3] != 0 or ((mn[i + 1] << 8) | mn[i + 2]) >= off:
            return 0
    return 1


def run(R, P, rule):
    tu = P.tu("libdut_a-tzmap.o")
    fn = tu.func("tzm_valid_p")
    if fn is None or getattr(fn, "body", None) is None:
        raise AnalysisBroken("%s: tzm_valid_p vanished" % rule)
    R.saw(fn)
    pool = b"Europe/Paris\0Europe/Berlin\0\0"        # 28 bytes, whole words, NUL in front of the names
    assert len(pool) % 4 == 0
    names = b"XPAR" + bytes([0, 0, 0, 0]) + b"XETR" + b"A\0\0\0" + bytes([0, 0, 13, 0]) + b"XLON" + bytes([0, 0, 13, 0])
    base = list(pool + names)
    off0 = len(pool)
    images = [(off0, list(base), "the well-formed map")]
    for i in range(off0 - 1, len(base)):
        for v in (0x00, 0x01, 0x41, 0xff):
            if base[i] != v:
                d = list(base)
                d[i] = v
                images.append((off0, d, "byte %d of the data set to 0x%02x" % (i, v)))
    for off in (0, 3, 4, 13, 26, 27, 29, 32, len(base), len(base) + 4, len(base) - 4):
        images.append((off, list(base), "pool offset %d" % off))
    images.append((off0, list(base[:off0]), "no names mapped"))
    images.append((off0, list(base[:off0 + 4]), "a single word mapped"))
    images.append((off0, list(base[:off0 + 6]), "names cut in the middle of a word"))
    bad = []
    n = 0
    try:
        for off, data, what in images:
            fz = HDR + len(data)
            rec = {"off": off, "data": CPtr(list(data) + [0x5a] * 8, 0)}      # bytes behind the image are not the file's: any read there shows
            fr = {"m": rec}
            exp = _valid(off, data, fz) if off <= len(data) + 64 else 0
            n += 1
            try:
                got = fold.Folder(fn, calls={}, inline=True, max_steps=200000).run([Ptr(fr, "m", None), fz])
            except fold.Abort as e:
                bad.append((what, "reads outside the image (%s)" % e, "refused" if not exp else "accepted"))
                continue
            if bool(got) != bool(exp):
                bad.append((what, "accepted" if got else "refused", "accepted" if exp else "refused"))
    except NotConst as e:
        raise AnalysisBroken("%s: tzm_valid_p left the foldable fragment (%s)" % (rule, e))
    if bad:
        what, got, exp = bad[0]
        R.finding(rule, fn, "validator decoded", "%d of %d map images are judged against the invariants; first: %s is %s, by the invariants it "
                  "must be %s" % (len(bad), n, what, got, exp))
    else:
        R.ob(rule, "tzm_valid_p accepts exactly the %d of %d images (a well-formed map, every single-byte corruption of its names, odd pool "
             "offsets, cut files) that satisfy the invariants tzm_find relies on" % (sum(1 for o, d, w in images if _valid(o, d, HDR + len(d)) and o <= len(d) + 64), n), True)
    return n
