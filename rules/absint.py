"""A small abstract interpreter over the extracted CFGs: constant/zero-ness propagation for
record fields addressed by *layout location* (base variable, bit offset, width).

Used for tagged-union typestate: run a function once per value of a tag (`that.typ = DT_X`) and
see which blocks/calls are reachable and which union members are read.  Locations come from
ASTRecordLayout, so `that.typ` and `that.d.typ` (overlaid through a union) are the same cell and
`that.d.ymd.y` / `that.d.ymcw.y` are recognised as the same bits.

Values: int (known constant) | 'NZ' (known non-zero) | None (unknown).
"""
from core import strip, kids, const_of, call_args, AnalysisBroken, CASTS, effective_cond

NZ = "NZ"


def join(a, b):
    if a == b:
        return a
    if a is None or b is None:
        return None
    az = (a == 0)
    bz = (b == 0)
    if not az and not bz:
        return NZ
    return None


class State:
    __slots__ = ("cells", "zero_bases")

    def __init__(self, cells=None, zero_bases=None):
        self.cells = dict(cells or {})            # (base, off, width) -> value
        self.zero_bases = set(zero_bases or ())   # bases whose unlisted cells are 0

    def copy(self):
        return State(self.cells, self.zero_bases)

    def get(self, loc):
        if loc in self.cells:
            return self.cells[loc]
        # overlapping cell with different extent -> unknown unless base is zero and nothing overlaps
        b, o, w = loc
        for (b2, o2, w2), v in self.cells.items():
            if b2 == b and o2 < o + w and o < o2 + w2:
                return None
        if b in self.zero_bases:
            return 0
        return None

    def kill(self, base, off=None, size=None):
        for k in list(self.cells):
            if k[0] == base and (off is None or (k[1] < off + size and off < k[1] + k[2])):
                if base in self.zero_bases:
                    self.cells[k] = None
                else:
                    del self.cells[k]
        if off is None:
            self.zero_bases.discard(base)

    def set(self, loc, v):
        b, o, w = loc
        for k in list(self.cells):
            if k != loc and k[0] == b and k[1] < o + w and o < k[1] + k[2]:
                self.cells[k] = None
        self.cells[loc] = v

    def key(self):
        return (frozenset(self.cells.items()), frozenset(self.zero_bases))

    def join(self, other):
        """in-place join; returns True if changed"""
        changed = False
        zb = self.zero_bases & other.zero_bases
        keys = set(self.cells) | set(other.cells)
        new = {}
        for k in keys:
            v = join(self.get(k), other.get(k))
            new[k] = v
        # drop cells that carry no information
        new = {k: v for k, v in new.items() if not (v is None and k[0] not in zb)}
        if new != self.cells or zb != self.zero_bases:
            changed = True
        self.cells, self.zero_bases = new, zb
        return changed


class Interp:
    def __init__(self, program, callbacks=None, mod_summaries=None, ret_tag_funcs=None, descend=None, max_depth=6):
        self.P = program
        self.cb = callbacks or {}
        self.ret_tag_funcs = ret_tag_funcs or {}   # callee -> (arg index giving the tag constant, tag bit offset/width)
        self.descend = descend or (lambda fn, callee: None)
        self.max_depth = max_depth
        self._modsum = {}
        self._modmeta = {}
        self.derived = None      # (state, loc) -> value implied by other cells (data-structure invariants), or None
        self.inline_predicates = True
        self._depth = 0
        self.track_types = None  # if set: only variables whose type mentions one of these names are tracked
        self.store_hook = None   # (fn, lhs MemberExpr node) -> value to use when an unknown value is stored
        self.memo = {}

    # ------------------------------------------------------------------ locations
    def loc_of(self, fn, n):
        """lvalue expression -> (base decl id, bit offset, width) or None; also returns size for aggregates"""
        n = strip_lv(n)
        off = 0
        width = None
        tu = fn.tu
        first = True
        while n is not None:
            k = n.get("k")
            if k == "MemberExpr":
                rec = tu.recs_by_id.get(n.get("rec"))
                if rec is None or "fields" not in rec:
                    return None
                f = rec["fields"][n["fi"]]
                off += f["off"]
                if first:
                    width = f.get("bw")
                    if width is None:
                        width = f.get("sz")
                    first = False
                n = strip_lv(n["c"][0])
            elif k == "UnaryOperator" and n.get("op") == "*":
                n = strip_lv(n["c"][0])
                if first:
                    return None
            elif k == "DeclRefExpr" and n.get("dk") in ("var", "parm", "gvar"):
                if self.track_types is not None:
                    tc = tu.types[n["t"]]["c"]
                    if not any(x in tc for x in self.track_types):
                        return None
                if first:
                    t = tu.types[n["t"]]
                    width = t.get("w")
                    if t.get("ptr"):
                        return None
                if width is None:
                    return None
                return (n["d"], off, width)
            else:
                return None
        return None

    # ------------------------------------------------------------------ evaluation
    def eval(self, fn, n, st):
        n = strip(n)
        if n is None:
            return None
        c = const_of(n)
        if c is not None and n.get("k") not in ("DeclRefExpr",) or (n.get("k") == "DeclRefExpr" and n.get("dk") == "enum"):
            return c if c is not None else None
        k = n.get("k")
        if k in ("MemberExpr", "DeclRefExpr"):
            loc = self.loc_of(fn, n)
            if loc is not None:
                v = st.get(loc)
                if v is None and self.derived is not None:
                    v = self.derived(st, loc)
                return v
            return None
        if k == "UnaryOperator":
            op = n.get("op")
            v = self.eval(fn, n["c"][0], st)
            if op == "!":
                t = truth(v)
                return None if t is None else (0 if t else 1)
            if isinstance(v, int) and op in ("~", "-", "+"):
                r = {"~": ~v, "-": -v, "+": v}[op]
                return self._wrap(fn, n, r)
            return None
        if k == "BinaryOperator":
            op = n.get("op")
            if op in ("+", "-", "*", "&", "|", "^", "<<", ">>"):
                a = self.eval(fn, n["c"][0], st)
                b = self.eval(fn, n["c"][1], st)
                if isinstance(a, int) and isinstance(b, int) and not (op in ("<<", ">>") and not 0 <= b < 64):
                    r = {"+": a + b, "-": a - b, "*": a * b, "&": a & b, "|": a | b, "^": a ^ b,
                         "<<": a << b if op == "<<" else 0, ">>": a >> b if op == ">>" else 0}[op]
                    return self._wrap(fn, n, r)
                return None
            if op in ("==", "!="):
                a = self.eval(fn, n["c"][0], st)
                b = self.eval(fn, n["c"][1], st)
                r = None
                if isinstance(a, int) and isinstance(b, int):
                    r = (a == b)
                elif (a == NZ and b == 0) or (b == NZ and a == 0):
                    r = False
                if r is None:
                    return None
                return int(r if op == "==" else not r)
            if op in ("<", ">", "<=", ">="):
                a = self.eval(fn, n["c"][0], st)
                b = self.eval(fn, n["c"][1], st)
                if isinstance(a, int) and isinstance(b, int):
                    return int({"<": a < b, ">": a > b, "<=": a <= b, ">=": a >= b}[op])
                return None
            if op == "&&":
                a = truth(self.eval(fn, n["c"][0], st))
                b = truth(self.eval(fn, n["c"][1], st))
                if a is False or b is False:
                    return 0
                if a and b:
                    return 1
                return None
            if op == "||":
                a = truth(self.eval(fn, n["c"][0], st))
                b = truth(self.eval(fn, n["c"][1], st))
                if a or b:
                    return 1
                if a is False and b is False:
                    return 0
                return None
            if op == ",":
                return self.eval(fn, n["c"][1], st)
        if k == "CallExpr":
            return self.call_value(fn, n, st)
        return None

    def _wrap(self, fn, n, r):
        t = fn.tu.types[n["t"]] if n.get("t") is not None else {}
        w = t.get("w")
        if t.get("int") and w:
            r &= (1 << w) - 1
            if t.get("sg") and r >= 1 << (w - 1):
                r -= 1 << w
        return r

    def call_value(self, fn, n, st):
        """value returned by a small side-effect-free helper with a body in this unit (dt_sandwich_p & co):
        the callee is interpreted on the bound argument state and its return values are joined"""
        if not self.inline_predicates:
            return None
        callee = fn.tu.functions.get(n.get("callee") or "")
        if callee is None or callee is fn or callee.endline - callee.line > 12:
            return None
        if any(callee.tu.types[p["t"]].get("ptr") for p in callee.params):
            return None
        if self._depth > 3:
            return None
        ns0 = bind_args(self, fn, n, st, callee)
        self._depth += 1
        try:
            saved = self.cb
            self.cb = {}
            exits = self.run(callee, ns0, 1, None)
        finally:
            self.cb = saved
            self._depth -= 1
        rc = ("ret", callee.d["d"])
        vals = [e.get((rc, 0, 64)) for e in exits]
        if not vals:
            return None
        out = vals[0]
        for v in vals[1:]:
            out = join(out, v)
        return out

    def refine(self, fn, cond, pol, st):
        """state on the edge where `cond` evaluated to pol; None if infeasible"""
        v = truth(self.eval(fn, cond, st))
        if v is not None and v != pol:
            return None
        st = st.copy()
        n = strip(cond)
        while n is not None and n.get("k") == "UnaryOperator" and n.get("op") == "!":
            pol = not pol
            n = strip(n["c"][0])
        if n is None:
            return st
        if n.get("k") in ("MemberExpr", "DeclRefExpr"):
            loc = self.loc_of(fn, n)
            if loc is not None and st.get(loc) is None:
                st.set(loc, NZ if pol else 0)
        elif n.get("k") == "BinaryOperator" and n.get("op") in ("==", "!="):
            eq = (n["op"] == "==") == pol
            l, r = strip(n["c"][0]), strip(n["c"][1])
            for a, b in ((l, r), (r, l)):
                cv = self.eval(fn, b, st)
                if isinstance(cv, int) and a.get("k") in ("MemberExpr", "DeclRefExpr"):
                    loc = self.loc_of(fn, a)
                    if loc is not None:
                        cur = st.get(loc)
                        if eq and cur is None:
                            st.set(loc, cv)
                        elif eq and cur == NZ and cv != 0:
                            st.set(loc, cv)
                        elif not eq and cv == 0 and cur is None:
                            st.set(loc, NZ)
                    break
        elif n.get("k") == "CallExpr":
            h = self.cb.get("refine_call")
            if h:
                st = h(self, fn, n, pol, st) or st
        return st

    # ------------------------------------------------------------------ callee mod summaries
    def modsum(self, fn):
        """cells (param index, off, width) possibly written through pointer params, flow-insensitively;
        value: constant if every write stores the same constant else None"""
        if fn in self._modsum:
            return self._modsum[fn]
        self._modsum[fn] = {}  # recursion guard
        res = {}
        pidx = {p["d"]: i for i, p in enumerate(fn.params)}
        cg_tu = fn.tu

        def note(loc, v, lhs=None, via=None):
            b, o, w = loc
            if b in pidx:
                k = (pidx[b], o, w)
                res[k] = v if (k not in res or res[k] == v) else None
                if lhs is not None:
                    self._modmeta[(fn, k)] = (fn, lhs)
                elif via is not None and via in self._modmeta:
                    self._modmeta[(fn, k)] = self._modmeta[via]

        for n in fn.walk():
            k = n.get("k")
            if k == "BinaryOperator" and n.get("op") == "=":
                loc = self._ptr_loc(fn, n["c"][0])
                if loc is not None:
                    note(loc, const_of(n["c"][1]), lhs=strip_lv(n["c"][0]))
            elif k in ("CompoundAssignOperator",) or (k == "UnaryOperator" and n.get("op") in ("++", "--")):
                loc = self._ptr_loc(fn, n["c"][0])
                if loc is not None:
                    note(loc, None)
            elif k == "CallExpr" and n.get("callee"):
                callee = cg_tu.functions.get(n["callee"])
                if callee is None or callee is fn:
                    continue
                sub = self.modsum(callee)
                for ai, a in enumerate(call_args(n)):
                    bl = self._ptr_arg(fn, a)
                    if bl is None:
                        continue
                    b, o = bl
                    for (pi, o2, w2), v in sub.items():
                        if pi == ai:
                            note((b, o + o2, w2), v, via=(callee, (pi, o2, w2)))
        self._modsum[fn] = res
        return res

    def _ptr_loc(self, fn, lv):
        """lvalue reached through a pointer param: `d->m`, `d->flags.x` -> (param decl, off, width)"""
        lv = strip_lv(lv)
        off, width, first = 0, None, True
        tu = fn.tu
        n = lv
        while n is not None and n.get("k") == "MemberExpr":
            rec = tu.recs_by_id.get(n.get("rec"))
            if rec is None or "fields" not in rec:
                return None
            f = rec["fields"][n["fi"]]
            off += f["off"]
            if first:
                width = f.get("bw") or f.get("sz")
                first = False
            arrow = n.get("arrow")
            n = strip_lv(n["c"][0])
            if arrow:
                if n is not None and n.get("k") == "DeclRefExpr" and n.get("dk") == "parm":
                    if self.track_types is not None and not any(x in tu.types[n["t"]]["c"] for x in self.track_types):
                        return None
                    return (n["d"], off, width)
                return None
        return None

    def _ptr_arg(self, fn, a):
        """argument expression that is the address of (part of) a tracked object: `&d`, `&d.sd`, `d` (pointer
        param passed on), `&d->sd` -> (base decl, bit offset)"""
        a = strip(a)
        if a is None:
            return None
        if a.get("k") == "UnaryOperator" and a.get("op") == "&":
            x = strip_lv(a["c"][0])
            off = 0
            tu = fn.tu
            while x is not None and x.get("k") == "MemberExpr":
                rec = tu.recs_by_id.get(x.get("rec"))
                if rec is None or "fields" not in rec:
                    return None
                off += rec["fields"][x["fi"]]["off"]
                x = strip_lv(x["c"][0])
            if x is not None and x.get("k") == "DeclRefExpr" and x.get("dk") in ("var", "parm"):
                return (x["d"], off)
            return None
        if a.get("k") == "DeclRefExpr" and a.get("dk") == "parm" and fn.tu.types[a["t"]].get("ptr"):
            return (a["d"], 0)
        return None

    # ------------------------------------------------------------------ driver
    MAXSTATES = 40

    def run(self, fn, st0, depth=0, ctx=None):
        """Path-sensitive (bounded powerset of states per block) fixpoint over fn's CFG from state st0.
        Callbacks:  on_call(interp, fn, node, state, ctx, depth) for every reachable CallExpr and state,
                    on_block(interp, fn, block_id, state, ctx) for every reachable block and state.
        Calls to functions accepted by self.descend(fn, callee) are analysed inline (their exit states are
        mapped back through pointer arguments); other calls use flow-insensitive may-write summaries.
        Returns the list of states at the function's exit block."""
        cfg = fn.cfg
        if cfg is None:
            raise AnalysisBroken("no CFG for %s" % fn.name)
        mkey = (fn, st0.key(), id(ctx) if ctx is not None and getattr(ctx, "no_memo", False) else getattr(ctx, "memo_key", None))
        if mkey in self.memo:
            return self.memo[mkey]
        self.memo[mkey] = []   # recursion guard
        nodes = fn.nodes
        instates = {cfg.entry: {st0.key(): st0.copy()}}
        work = [(cfg.entry, st0.copy())]
        iters = 0
        cbb = self.cb.get("on_block")
        while work:
            b, st = work.pop()
            iters += 1
            if iters > 60000:
                raise AnalysisBroken("abstract interpretation of %s does not converge" % fn.name)
            if cbb:
                cbb(self, fn, b, st, ctx)
            blk = cfg.blocks[b]
            cur = [st.copy()]
            for e in blk["e"]:
                n = nodes.get(e)
                if n is None:
                    continue
                nxt = []
                for s1 in cur:
                    nxt.extend(self.transfer(fn, n, s1, depth, ctx))
                cur = _dedupe(nxt)
                if len(cur) > self.MAXSTATES:
                    cur = [_joinall(cur)]
            ss = blk["s"]
            outs = []
            for st1 in cur:
                if len(ss) == 2 and "cond" in blk and blk.get("tk") != "SwitchStmt" and ss[0] is not None and ss[1] is not None:
                    cond = nodes.get(blk["cond"])
                    if cond is not None:
                        cond = effective_cond(cond)
                    for s, pol in ((ss[0], True), (ss[1], False)):
                        ns = self.refine(fn, cond, pol, st1) if cond is not None else st1.copy()
                        if ns is not None:
                            outs.append((s, ns))
                elif blk.get("tk") == "SwitchStmt" and "cond" in blk:
                    cond = nodes.get(blk["cond"])
                    v = self.eval(fn, cond, st1) if cond is not None else None
                    labelled = []
                    default = None
                    for s in ss:
                        if s is None:
                            continue
                        lab = nodes.get(cfg.blocks[s].get("label"))
                        if lab is not None and lab.get("k") == "CaseStmt":
                            labelled.append((s, lab))
                        else:
                            default = s
                    if isinstance(v, int):
                        hit = [s for s, lab in labelled if lab.get("lo") is not None and lab["lo"] <= v <= lab.get("hi", lab["lo"])]
                        if hit:
                            outs.append((hit[0], st1.copy()))
                        elif default is not None:
                            outs.append((default, st1.copy()))
                    else:
                        loc = self.loc_of(fn, cond) if cond is not None else None
                        for s, lab in labelled:
                            ns = st1.copy()
                            if loc is not None and lab.get("lo") is not None and lab.get("hi", lab["lo"]) == lab["lo"]:
                                if v == NZ and lab["lo"] == 0:
                                    continue
                                ns.set(loc, lab["lo"])
                            outs.append((s, ns))
                        if default is not None:
                            outs.append((default, st1.copy()))
                else:
                    for s in ss:
                        if s is not None:
                            outs.append((s, st1.copy()))
            for s, ns in outs:
                bucket = instates.setdefault(s, {})
                k = ns.key()
                if k in bucket:
                    continue
                if len(bucket) >= self.MAXSTATES:
                    # widen: join everything into one state
                    j = _joinall(list(bucket.values()) + [ns])
                    if j.key() in bucket and len(bucket) == 1:
                        continue
                    if len(bucket) == 1 and next(iter(bucket.values())).key() == j.key():
                        continue
                    instates[s] = {j.key(): j}
                    work.append((s, j.copy()))
                    continue
                bucket[k] = ns
                work.append((s, ns))
        exits = list(instates.get(cfg.exit, {}).values())
        self.memo[mkey] = exits
        return exits

    def transfer(self, fn, n, st, depth, ctx):
        """-> list of successor states"""
        k = n.get("k")
        if k == "BinaryOperator" and n.get("op") == "=":
            lhs, rhs = n["c"][0], n["c"][1]
            loc = self.loc_of(fn, lhs)
            if loc is None:
                pl = self._ptr_loc(fn, lhs)
                if pl is not None:
                    loc = pl
            if loc is not None:
                v = self.eval(fn, rhs, st)
                r = strip(rhs)
                st.kill(loc[0], loc[1], loc[2])
                if r is not None and r.get("k") == "CallExpr" and r.get("callee") in self.ret_tag_funcs:
                    ai, toff, tw = self.ret_tag_funcs[r["callee"]]
                    tv = self.eval(fn, call_args(r)[ai], st)
                    if not isinstance(tv, int) and ctx is not None and getattr(ctx, "tag_value", None) is not None:
                        # conversion to a target decided at run time: the run is indexed by the tag that
                        # comes out of it (all tags are enumerated by the caller)
                        tv = ctx.tag_value
                    st.set((loc[0], loc[1] + toff, tw), tv)
                else:
                    if v is None and self.store_hook is not None:
                        v = self.store_hook(fn, strip_lv(lhs))
                    if isinstance(v, int) and loc[2] < 64:
                        lt = fn.tu.types[strip_lv(lhs)["t"]] if strip_lv(lhs).get("t") is not None else {}
                        v &= (1 << loc[2]) - 1
                        if lt.get("sg") and v >= 1 << (loc[2] - 1):
                            v -= 1 << loc[2]
                    st.set(loc, v)
        elif k == "CompoundAssignOperator" or (k == "UnaryOperator" and n.get("op") in ("++", "--")):
            loc = self.loc_of(fn, n["c"][0]) or self._ptr_loc(fn, n["c"][0])
            if loc is not None:
                st.set(loc, None)
        elif k in ("DeclStmt", "Var"):
            for v in ([n] if k == "Var" else kids(n)):
                if v.get("k") != "Var":
                    continue
                t = fn.tu.types[v["t"]]
                init = kids(v)[0] if kids(v) else None
                if init is None:
                    continue
                i2 = strip(init)
                if t.get("rec") is not None and not t.get("ptr"):
                    st.kill(v["d"])
                    if i2 is not None and i2.get("k") == "InitListExpr":
                        if _deep_zero(i2):
                            st.zero_bases.add(v["d"])
                    elif i2 is not None and i2.get("k") == "CallExpr" and i2.get("callee") in self.ret_tag_funcs:
                        ai, toff, tw = self.ret_tag_funcs[i2["callee"]]
                        st.set((v["d"], toff, tw), self.eval(fn, call_args(i2)[ai], st))
                elif t.get("w") is not None and not t.get("ptr") and not t.get("arr"):
                    st.set((v["d"], 0, t["w"]), self.eval(fn, init, st))
        elif k == "ReturnStmt":
            c = kids(n)
            if c:
                st.set((("ret", fn.d["d"]), 0, 64), self.eval(fn, c[0], st))
        elif k == "CallExpr":
            h = self.cb.get("on_call")
            if h:
                h(self, fn, n, st, ctx, depth)
            callee = fn.tu.functions.get(n.get("callee")) if n.get("callee") else None
            if callee is not None and depth < self.max_depth and self.descend(fn, callee):
                ns0 = bind_args(self, fn, n, st, callee)
                exits = self.run(callee, ns0, depth + 1, ctx)
                if not exits:
                    return []   # callee never returns on this state (or recursion)
                outs = []
                for ex in exits:
                    s2 = st.copy()
                    for ai, a in enumerate(call_args(n)):
                        if ai >= len(callee.params):
                            break
                        bl = self._ptr_arg(fn, a)
                        if bl is None:
                            continue
                        b, o = bl
                        pd = callee.params[ai]["d"]
                        for (b2, o2, w2), v in ex.cells.items():
                            if b2 == pd:
                                s2.set((b, o + o2, w2), v)
                    outs.append(s2)
                return _dedupe(outs)
            # effects through pointer arguments: may-write summaries (weak update)
            for ai, a in enumerate(call_args(n)):
                bl = self._ptr_arg(fn, a)
                if bl is None:
                    continue
                b, o = bl
                if callee is None:
                    if n.get("callee") in PURE_EXTERNALS:
                        continue
                    st.kill(b)
                    continue
                for (pi, o2, w2), v in self.modsum(callee).items():
                    if pi == ai:
                        if v is None and self.store_hook is not None:
                            m = self._modmeta.get((callee, (pi, o2, w2)))
                            if m is not None:
                                v = self.store_hook(m[0], m[1])
                        cell = (b, o + o2, w2)
                        st.set(cell, join(st.get(cell), v))
        return [st]


def _dedupe(states):
    seen, out = set(), []
    for s in states:
        k = s.key()
        if k not in seen:
            seen.add(k)
            out.append(s)
    return out


def _joinall(states):
    j = states[0].copy()
    for s in states[1:]:
        j.join(s)
    return j


PURE_EXTERNALS = {"memcmp", "strlen", "strcmp", "strncmp", "memchr", "strchr", "__builtin_expect"}


def _deep_zero(il):
    for x in kids(il):
        if x.get("k") == "InitListExpr":
            if not _deep_zero(x):
                return False
        elif x.get("k") == "ImplicitValueInitExpr":
            continue
        elif const_of(x) != 0:
            return False
    return True


def truth(v):
    if v is None:
        return None
    if v == NZ:
        return True
    return v != 0


def strip_lv(n):
    while n is not None and n.get("k") in CASTS and n.get("c"):
        n = n["c"][0]
    return n


def bind_args(I, fn, call, st, callee):
    """initial callee state: cells of by-value record args and of objects passed by address"""
    ns = State()
    args = call_args(call)
    for ai, p in enumerate(callee.params):
        if ai >= len(args):
            break
        a = args[ai]
        pt = callee.tu.types[p["t"]]
        if pt.get("ptr"):
            bl = I._ptr_arg(fn, a)
            if bl is None:
                continue
            b, o = bl
            for (b2, o2, w2), v in st.cells.items():
                if b2 == b and o2 >= o:
                    ns.cells[(p["d"], o2 - o, w2)] = v
            if b in st.zero_bases:
                ns.zero_bases.add(p["d"])
        elif pt.get("rec") is not None:
            loc = I.loc_of(fn, a)
            if loc is None:
                continue
            b, o, w = loc
            for (b2, o2, w2), v in st.cells.items():
                if b2 == b and o2 >= o and o2 + w2 <= o + w:
                    ns.cells[(p["d"], o2 - o, w2)] = v
            if b in st.zero_bases:
                ns.zero_bases.add(p["d"])
        elif pt.get("w") is not None:
            v = I.eval(fn, a, st)
            if v is not None:
                ns.cells[(p["d"], 0, pt["w"])] = v
    return ns
